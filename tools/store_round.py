#!/usr/bin/env python3
"""Stores a round of seeded changes from scratch worktrees into /verif/seeded/<ID>-r<n>/.
usage: store_round.py <scratch-root> <round> <annotations.json> <confirm log>
annotations.json: { "<ID>": {"caught_by": ..., "history": ...}, ... }"""
import json, os, shutil, sys, html, re

root, rnd, ann_path, log_path = sys.argv[1], sys.argv[2], sys.argv[3], sys.argv[4]
ann = json.load(open(ann_path))
confirm = {}
for line in open(log_path):
    m = re.match(r"(C\d\d) (.*)", line.strip())
    if m:
        confirm[m.group(1)] = m.group(2)
out_root = os.path.join(os.path.dirname(os.path.abspath(__file__)), "..", "seeded")
for pid, a in sorted(ann.items()):
    src = os.path.join(root, pid)
    dst = os.path.join(out_root, f"{pid}-r{rnd}")
    os.makedirs(dst, exist_ok=True)
    shutil.copy(os.path.join(src, "patch.diff"), os.path.join(dst, "patch.diff"))
    if os.path.exists(os.path.join(src, "demo.diff")):
        shutil.copy(os.path.join(src, "demo.diff"), os.path.join(dst, "demo.diff"))
    meta = json.load(open(os.path.join(src, "meta.json")))
    meta["demo_cmd"] = html.unescape(meta.get("demo_cmd", ""))
    meta["breaks_property"] = pid
    meta["base_commit"] = a.get("base_commit", "a914472 (/repo HEAD when the change was made)")
    meta["author"] = "independent sub-agent given only the property text and a scratch worktree"
    meta["confirmed_by_me"] = "scratch worktree, patch + demonstration applied: " + confirm.get(pid, "(see DESIGN.md)") + " -- demo_changed_exit is the demonstration with the change (must fail), demo_unchanged_exit without it (must pass); lib = cargo test --lib (the 75 existing unit tests; an additional failing one is the demonstration itself where it is a unit test); int = tests/disconnect + tests/timeouts in a private network namespace (server_active_timeout is flaky on the unchanged tree as well)"
    meta["caught_by"] = a["caught_by"]
    meta["history"] = a["history"]
    meta["how_to_run_checks"] = f"tools/try_patch.sh seeded/{pid}-r{rnd}/patch.diff {pid}"
    json.dump(meta, open(os.path.join(dst, "meta.json"), "w"), indent=1)
    print("stored", dst)
