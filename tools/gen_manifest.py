#!/usr/bin/env python3
"""Regenerates /verif/MANIFEST.json from the table below (keeps the file valid at all times)."""
import json, os, subprocess, sys
ROOT = os.path.dirname(os.path.dirname(os.path.abspath(__file__)))

def hook_commits():
    try:
        out = subprocess.run(["git", "-C", "/repo", "log", "--format=%h %s"], capture_output=True, text=True).stdout
        return [l.split()[0] for l in out.splitlines() if l.split(" ", 1)[1].startswith("verif hooks")]
    except Exception:
        return []

# id -> (technique, level text, level note, design ref)
CHECKS = json.load(open(os.path.join(ROOT, "tools", "checks.json")))
props = [json.loads(l) for l in open(os.path.join(ROOT, "properties.jsonl"))]

checks = []
not_applicable = []
for p in props:
    pid = p["id"]
    c = CHECKS.get(pid)
    if c is None or not c.get("enabled", True):
        not_applicable.append({"property_id": pid, "reason": (c or {}).get("reason", "check not built yet in this round of work; see DESIGN.md section 4 for the planned generator and oracle")})
        continue
    checks.append({
        "property_id": pid,
        "quick_cmd": f"./check {pid} quick",
        "thorough_cmd": f"./check {pid} thorough",
        "evidence_file": f"/verif/evidence/{pid}.json",
        "replay_cmd_template": f"./check {pid} replay {{path}}",
        "engine": c.get("engine", "vcheck"),
        "level_claimed": {"category": "exploration", "text": c["text"], "design_ref": c.get("design_ref", f"DESIGN.md section 4, {pid}")},
        "level_note": c["note"],
        "technique": c["technique"],
    })

manifest = {
    "version": 1,
    "setup_cmd": "cd /verif/harness && CARGO_NET_OFFLINE=true cargo build --release --offline -q --bin vcheck",
    "hooks": {
        "guard": "cargo feature uflow_verif",
        "enable": "dependency feature in /verif/harness/Cargo.toml: uflow = { path = \"/repo\", features = [\"uflow_verif\"] }",
        "baseline_off_cmd": "cd /repo && cargo nextest run --workspace --no-fail-fast --tool-config-file pb:/w/lib/nextest.toml --profile pb --test-threads 8 --offline || cargo test --workspace --no-fail-fast --offline",
        "source_commits": hook_commits(),
        "add_only": True,
    },
    "engines": [
        {"name": "vcheck", "path": "/verif/harness", "serves_properties": [c["property_id"] for c in checks],
         "kind_free_text": "Rust binary driving proptest TestRunner (seeded from VERIF_SEED, 16 workers, shrinking, JSON replay files) against uflow built with feature uflow_verif: virtual clock / RNG / socket owned by the harness, checking+counting global allocator, explicit oracles per property"},
    ],
    "checks": checks,
    "not_applicable": not_applicable,
    "notes": "Every check is generated-input search against an explicit oracle (property-based testing; coverage-guided libFuzzer targets under harness/fuzz in the thorough tiers of C01/C02/C03/C12/C16/C20). Exit 0 held / 1 violation / 2 inconclusive. known_findings.json lists genuine defects recorded or fixed. See DESIGN.md.",
}
json.dump(manifest, open(os.path.join(ROOT, "MANIFEST.json"), "w"), indent=1)
print("wrote MANIFEST.json:", len(checks), "checks,", len(not_applicable), "not yet claimed")
