#!/usr/bin/env python3
"""Prepares a round of independent seeded changes: one scratch worktree of /repo per property under
<scratch-root>, and one prompt per property that contains only the property's text, the summaries of the
changes earlier rounds already made for it (so that the new one differs) and the working rules.
usage: seed_round.py <scratch-root> <round> [sites.json]
sites.json (optional): { "<ID>": "comma separated source files the change should be located in", ... }"""
import json, os, subprocess, sys, glob

root, rnd = sys.argv[1], int(sys.argv[2])
sites = json.load(open(sys.argv[3])) if len(sys.argv) > 3 and sys.argv[3] != '-' else {}
# optional 4th argument: a file whose text is inserted as an extra paragraph (e.g. "assume a strong random-testing harness")
extra_txt = open(sys.argv[4]).read().strip() + "\n\n" if len(sys.argv) > 4 else ""
here = os.path.dirname(os.path.abspath(__file__))
props = {json.loads(l)['id']: json.loads(l) for l in open(os.path.join(here, '..', 'properties.jsonl'))}
os.makedirs(os.path.join(root, 'prompts'), exist_ok=True)
for pid, p in props.items():
    wt = os.path.join(root, pid)
    if not os.path.exists(wt):
        subprocess.check_call(['git', '-C', '/repo', 'worktree', 'add', '-q', '--detach', wt, 'HEAD'])
    prev = []
    for r in range(1, rnd):
        f = os.path.join(here, '..', 'seeded', f'{pid}-r{r}', 'meta.json')
        if os.path.exists(f):
            prev.append(json.load(open(f))['summary'])
    site_txt = ""
    if pid in sites:
        site_txt = f"To explore parts of the code the earlier changes left alone, locate your change in one of these files if at all possible: {sites[pid]} (paths relative to {wt}). If, after honest effort, no change there can break THIS property, say so in your reply and use the nearest other site.\n\n"
    prev_txt = '\n'.join(f'  {i+1}. "{s}"' for i, s in enumerate(prev))
    txt = f"""You are helping evaluate a verification effort by playing the role of a developer who introduces a subtle regression.

Repository: a Rust crate `uflow` (UDP transport: 3-way handshake, 64 channels, four send modes, fragmentation, CRC-checked frames, TFRC congestion control). You have your OWN scratch git worktree of it at {wt} . Work ONLY inside that directory. Do NOT read, list or touch /verif, /repo, or any other directory under /tmp - your work must be independent of them. IMPORTANT: never use `git stash` (the stash is shared between worktrees) and never `git add` / `git commit` anything; to switch between changed and unchanged source use `git diff -- src > patch.diff; git apply -R patch.diff; ...; git apply patch.diff`.

The property you must break:

  Title: {p['title']}
  Statement: {p['statement']}
  Quantified over: {p['quantifier']['text']}

Previous developers already tried the following changes, so do something DIFFERENT - a different mechanism, a different site in the code, and if the property has several clauses preferably a different clause:
{prev_txt}

{site_txt}{extra_txt}Task: make ONE small, realistic change to the library source (files under {wt}/src, not the tests) that makes this property false, while
  (a) the crate still compiles (`cargo build --offline`) and
  (b) the existing test suite still passes: run `cargo test --offline --lib` (unit tests) and, inside a private network namespace because the tests bind fixed UDP ports that other jobs on this machine also use, `unshare -rn sh -c 'ip link set lo up; cargo test --offline --no-fail-fast --test disconnect --test timeouts -- --test-threads=1'`. Note: on the UNCHANGED tree `timeouts::server_active_timeout` is flaky (fails more often than not) and `ideal_transfer`, `reliable_transfer`, `timeouts::client_handshake_timeout`, `disconnect::server_disconnect_now` are flaky or failing - ignore those; every other test must still pass with your change.
The change should look like a plausible refactoring slip, off-by-one, wrong variable, dropped or reordered statement, NOT something ordinary use would expose at once: it should need something specific to manifest - a particular interleaving of calls, a fault (loss / duplication / reordering / delay) at a particular point, a multi-step sequence of operations, an unusual input or configuration value, a sequence-number wrap-around, or two cooperating sites that each look fine alone. Prefer changes deep in the protocol logic over changes at input validation. Do not touch code guarded by `#[cfg(feature = "uflow_verif")]`, but you MAY use that feature in your demonstration (it provides a virtual clock `uflow::verif::time`, a seeded RNG, an in-process UDP socket `uflow::verif::net` and re-exports of internal types such as HalfConnection, Frame and SendRateComp; see src/verif.rs).

Also write a demonstration that FAILS with your change and PASSES without it: preferably a new Rust test (a `#[cfg(test)]` unit test inside the relevant source file can reach private internals; or an integration test under tests/ using the public API or the `uflow_verif` feature). Keep it deterministic (no wall-clock sleeps) and fast (< 30 s).

Verify all of this yourself: run the demonstration on the changed tree (must fail) and on the unchanged tree (must pass), and run the existing tests on the changed tree.

When done, leave in {wt}:
  - patch.diff      : `git diff -- src` of the library change ONLY (without the demonstration; if your demonstration is a unit test inside src, keep it out of patch.diff)
  - demo.diff       : the demonstration as a separate diff that applies on top of a clean checkout with patch.diff applied or not (new test file or added test module)
  - meta.json       : {{"property": "{pid}", "summary": "<what the change does>", "needs": "<what specific circumstances are needed for it to manifest>", "demo_cmd": "<exact shell command, run from {wt} with both diffs applied, that runs the demonstration; plain command only, no commentary>", "tests_run": "<what you ran and the outcome>"}}
and reply with a short description of the change, why it breaks the property, and what it needs to manifest. If after honest effort you cannot find such a change, say so and explain.
"""
    open(os.path.join(root, 'prompts', f'{pid}.txt'), 'w').write(txt)
print('prepared', len(props), 'worktrees and prompts under', root)
