#!/bin/bash
# Re-runs every stored seeded change against its target check (quick tier) and writes seeded/MATRIX.txt.
# usage: tools/seeded_matrix.sh [pattern]      e.g. tools/seeded_matrix.sh 'C1?-r3'
ROOT="$(cd "$(dirname "${BASH_SOURCE[0]}")/.." && pwd)"
cd "$ROOT"
pat="${1:-*}"
out="$ROOT/seeded/MATRIX.txt"
tmp="$(mktemp)"
echo "# seeded change -> target check, quick tier, seed ${VERIF_SEED:-0}, /repo at $(git -C "${REPO:-/repo}" rev-parse --short HEAD), /verif at $(git rev-parse --short HEAD)" > "$tmp"
for d in seeded/$pat/; do
  n=$(basename "$d"); id=${n%%-*}
  [ -f "$d/patch.diff" ] || continue
  # a change whose context was touched by a later fix commit is kept in a second, re-based form as well
  pf="$d/patch.diff"; [ -f "$d/patch.rebased.diff" ] && pf="$d/patch.rebased.diff"
  res=$(tools/try_patch.sh "$pf" "$id" 2>&1 | tail -1)
  echo "$n: $res" | tee -a "$tmp"
done
if [ "$pat" = "*" ]; then mv "$tmp" "$out"; else cat "$tmp" > "$out.partial"; rm -f "$tmp"; fi
