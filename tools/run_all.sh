#!/bin/bash
# Runs every registered check (quick by default) with the given seed; prints one line per check.
# usage: tools/run_all.sh [quick|thorough] [seed]
ROOT="$(cd "$(dirname "${BASH_SOURCE[0]}")/.." && pwd)"
TIER="${1:-quick}"
SEED="${2:-0}"
cd "$ROOT"
fail=0
for id in $(python3 -c "import json; print(' '.join(c['property_id'] for c in json.load(open('MANIFEST.json'))['checks']))"); do
  start=$(date +%s)
  out=$(VERIF_SEED=$SEED ./check $id $TIER 2>&1)
  code=$?
  end=$(date +%s)
  echo "$id exit=$code $((end-start))s $(echo "$out" | grep -E '^(HELD|FAILED|INCONCLUSIVE)' | tail -1)"
  if [ $code -ne 0 ]; then fail=1; echo "$out" | grep -E '^(VIOLATION|key=|INCONCLUSIVE|BUILD)' | head -5; fi
  if echo "$out" | grep -q '^VIOLATION'; then fail=1; fi
done
exit $fail
