#!/bin/bash
# Applies a patch to /repo, runs the given checks (quick tier, seed from $VERIF_SEED or 0), and
# restores /repo no matter what. usage: tools/try_patch.sh <patch.diff> <ID> [<ID> ...]
# Prints one line per check: "<ID> caught|MISSED|inconclusive <seconds>s <key>".
set -u
REPO="${REPO:-/repo}"
ROOT="$(cd "$(dirname "${BASH_SOURCE[0]}")/.." && pwd)"
PATCH="$(realpath "$1")"; shift
if ! git -C "$REPO" diff --quiet; then echo "/repo has uncommitted changes; refusing"; exit 3; fi
if ! git -C "$REPO" apply --check "$PATCH" 2>/dev/null; then echo "patch does not apply to /repo"; exit 3; fi
git -C "$REPO" apply "$PATCH"
trap 'git -C "$REPO" checkout -- . ; git -C "$REPO" clean -fdq -- src tests 2>/dev/null' EXIT
cd "$ROOT"
TIER="${TIER:-quick}"
for id in "$@"; do
  start=$(date +%s)
  # (the evidence file describes the unchanged tree: keep it)
  cp "evidence/$id.json" "out/evidence-$id.keep" 2>/dev/null
  out=$(./check "$id" "$TIER" 2>&1)
  code=$?
  cp "out/evidence-$id.keep" "evidence/$id.json" 2>/dev/null
  end=$(date +%s)
  key=$(echo "$out" | grep -m1 '^key=' | cut -c1-160)
  case $code in
    1) echo "$id caught $((end-start))s $key" ;;
    0) echo "$id MISSED $((end-start))s" ;;
    *) echo "$id inconclusive(exit $code) $((end-start))s $(echo "$out" | grep -m1 -E 'INCONCLUSIVE|BUILD FAILED|error' | cut -c1-160)" ;;
  esac
done
