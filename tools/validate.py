#!/opt/veriftools/pyvenv/bin/python
import json, jsonschema, sys, glob
m = json.load(open('/verif/MANIFEST.json'))
jsonschema.validate(m, json.load(open('/root/.vp/MANIFEST.schema.json')))
es = json.load(open('/root/.vp/EVIDENCE.schema.json'))
bad = 0
for c in m['checks']:
    try:
        jsonschema.validate(json.load(open(c['evidence_file'])), es)
    except Exception as e:
        bad += 1
        print("EVIDENCE INVALID", c['property_id'], str(e)[:300])
print("manifest valid;", len(m['checks']), "checks;", bad, "bad evidence files")
sys.exit(1 if bad else 0)
