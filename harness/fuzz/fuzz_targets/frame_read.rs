#![no_main]
//! C16 (thorough): coverage-guided search over byte strings. The semantic oracle is inside the
//! target: Frame::read must agree with the independent reference decoder on accept / reject, and
//! accepted input must re-encode idempotently. Half of the inputs get a valid checksum so that the
//! fuzzer reaches the parsers instead of dying at the CRC gate.
use libfuzzer_sys::fuzz_target;
use uflow::verif::{crc32, Frame, Serialize};

fuzz_target!(|data: &[u8]| {
    if data.is_empty() {
        return;
    }
    let fix = data[0] & 1 == 1;
    let mut bytes = data[1..].to_vec();
    if fix && bytes.len() >= 5 {
        let n = bytes.len();
        let c = crc32(&bytes[..n - 4]);
        bytes[n - 4..].copy_from_slice(&c.to_be_bytes());
    }
    let got = Frame::read(&bytes);
    let want = vh::refcodec::decode(&bytes);
    match (&got, &want) {
        (Some(_), None) => panic!("C16 VIOLATION accepts_malformed: {:02x?}", &bytes[..bytes.len().min(64)]),
        (None, Some(_)) => panic!("C16 VIOLATION rejects_wellformed: {:02x?}", &bytes[..bytes.len().min(64)]),
        _ => {}
    }
    if let Some(f) = got {
        if vh::refcodec::representable(&f) {
            let re = f.write();
            assert!(Frame::read(&re).as_ref() == Some(&f), "C16 VIOLATION reencode_not_idempotent");
        }
    }
});
