#![no_main]
//! C03 layer A (thorough): the bytes are decoded into the same op language the proptest check
//! uses (honest ticks + hostile frames relative to the victim's live state); the oracle is the
//! check's own run function, so a panic inside the library aborts the fuzzer with the input saved.
use arbitrary::{Arbitrary, Unstructured};
use libfuzzer_sys::fuzz_target;
use vh::engine::Check;
use vh::props::c03::*;
use vh::sim::pair::*;

fn idsel(u: &mut Unstructured) -> arbitrary::Result<IdSel> {
    let rel = u8::arbitrary(u)? % 5;
    let delta = match u8::arbitrary(u)? % 8 {
        0 => 0,
        1 => (u8::arbitrary(u)? % 4) as i64,
        2 => -((u8::arbitrary(u)? % 4) as i64),
        3 => [4095i64, 4096, 4097, 8192, -4096][(u8::arbitrary(u)? % 5) as usize],
        4 => [0x7FFF_FFFFi64, 0x8000_0000, 0xFFFF_FFFF, 0x10_0000, 0xF_FFFF][(u8::arbitrary(u)? % 5) as usize],
        5 => (u16::arbitrary(u)? % 70) as i64,
        _ => u32::arbitrary(u)? as i64,
    };
    Ok(IdSel { rel, delta })
}

fn hdatagram(u: &mut Unstructured) -> arbitrary::Result<HDatagram> {
    Ok(HDatagram { pkt: idsel(u)?, ch: u8::arbitrary(u)?, w: u16::arbitrary(u)? % 8, h: u16::arbitrary(u)? % 8, frag: u16::arbitrary(u)? % 6, last: if bool::arbitrary(u)? { u16::arbitrary(u)? % 6 } else { u16::arbitrary(u)? }, len_kind: u8::arbitrary(u)? % 5, len: u16::arbitrary(u)? % 1500 })
}

fn op(u: &mut Unstructured) -> arbitrary::Result<HOp> {
    Ok(match u8::arbitrary(u)? % 7 {
        0 | 1 => {
            let mut sends = Vec::new();
            for _ in 0..(u8::arbitrary(u)? % 4) {
                sends.push(SendSpec { ch: u8::arbitrary(u)? % 64, mode: u8::arbitrary(u)? % 4, size: (u16::arbitrary(u)? % 4000) as u32 });
            }
            HOp::Tick(Tick { dt_us: (u32::arbitrary(u)? % 200_000) as u64, acts: [EpAct { step: true, sends, flushes: u8::arbitrary(u)? % 3 }, EpAct { step: true, sends: Vec::new(), flushes: 1 }] })
        }
        2 => {
            let n = u8::arbitrary(u)? % 4;
            let mut dgs = Vec::new();
            for _ in 0..n {
                dgs.push(hdatagram(u)?);
            }
            HOp::Data { frame: idsel(u)?, nonce: bool::arbitrary(u)?, dgs }
        }
        3 => {
            let n = u8::arbitrary(u)? % 3;
            let mut groups = Vec::new();
            for _ in 0..n {
                groups.push(HGroup { base: idsel(u)?, bitfield: u32::arbitrary(u)?, nonce_kind: u8::arbitrary(u)? % 3 });
            }
            HOp::Ack { fbase: idsel(u)?, pbase: idsel(u)?, groups }
        }
        4 => HOp::Sync { frame: if bool::arbitrary(u)? { Some(idsel(u)?) } else { None }, packet: if bool::arbitrary(u)? { Some(idsel(u)?) } else { None } },
        5 => HOp::ReplayGenuine { back: u16::arbitrary(u)? },
        _ => HOp::MutateGenuine { back: u8::arbitrary(u)? % 4, muts: vec![Mutation::SetByte(u16::arbitrary(u)?, u8::arbitrary(u)?)], fix_crc: true },
    })
}

fuzz_target!(|data: &[u8]| {
    let mut u = Unstructured::new(data);
    let mut build = || -> arbitrary::Result<Case> {
        let dir = |u: &mut Unstructured| -> arbitrary::Result<DirCfg> {
            Ok(DirCfg { pkt_win_log2: u8::arbitrary(u)? % 13, frm_win_log2: u8::arbitrary(u)? % 13, pkt_base: if bool::arbitrary(u)? { 0xFFFFF - (u8::arbitrary(u)? as u32) } else { u32::arbitrary(u)? & 0xFFFFF }, frm_base: if bool::arbitrary(u)? { u32::MAX - (u8::arbitrary(u)? as u32) } else { u32::arbitrary(u)? }, alloc_limit: u32::arbitrary(u)? % 200_000, bw_limit: 1472 + u32::arbitrary(u)? % 10_000_000 })
        };
        let d0 = dir(&mut u)?;
        let d1 = dir(&mut u)?;
        let sc = PairScenario { dirs: [d0, d1], keepalive_ms: Some(1000), seed: u64::arbitrary(&mut u)?, zero_ch: 0, zero_mode: 1, links: [LinkCfg { latency_us: (u16::arbitrary(&mut u)? as u32) * 4, fates: Vec::new() }, LinkCfg { latency_us: (u16::arbitrary(&mut u)? as u32) * 4, fates: Vec::new() }], ticks: Vec::new(), tail: None, premature_acks: Vec::new() };
        let mut ops = Vec::new();
        while !u.is_empty() && ops.len() < 120 {
            ops.push(op(&mut u)?);
        }
        Ok(Case { sc, ops, world: None })
    };
    if let Ok(case) = build() {
        let r = C03.run(&case);
        if let Some(v) = r.violation {
            panic!("C03 VIOLATION {}: {}", v.key, v.msg);
        }
    }
});
