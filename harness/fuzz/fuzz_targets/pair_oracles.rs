#![no_main]
//! Thorough tier of C01 / C02 / C12 / C20: the bytes are decoded into a SimPair scenario
//! (vh::sim::decode) and handed to the check's own run function, so the oracle is exactly the one
//! the proptest search uses; libFuzzer's coverage feedback (over the library and the oracle) does
//! the searching. VERIF_PAIR_ORACLE selects the property; a violation that matches a recorded known
//! finding is skipped (the checks tolerate those in place where they can). On a violation the
//! process aborts with the input saved; the check that started the campaign decodes the saved
//! input with the same decoder and stores the scenario as an ordinary JSON replay file, so that
//! `./check <ID> replay` re-executes it without the fuzzer.
use libfuzzer_sys::fuzz_target;
use std::sync::OnceLock;
use vh::engine::{fuzz_init_known, fuzz_is_known, Check};
use vh::props::{c01, c02, c12, c20};
use vh::sim::decode::{params_for, scenario_from_bytes};

static ORACLE: OnceLock<String> = OnceLock::new();

fn oracle() -> &'static str {
    ORACLE.get_or_init(|| {
        let o = std::env::var("VERIF_PAIR_ORACLE").unwrap_or_else(|_| "C02".into());
        fuzz_init_known(&o);
        o
    })
}

fuzz_target!(|data: &[u8]| {
    let o = oracle();
    let (low_bw, max_ticks, max_frags) = params_for(o);
    let sc = scenario_from_bytes(data, low_bw, max_ticks, max_frags);
    let r = match o {
        "C01" => c01::C01.run(&c01::Case::Pair(sc.clone())),
        "C12" => c12::C12.run(&sc),
        "C20" => c20::C20.run(&c20::Case::Pair(sc.clone())),
        _ => c02::C02.run(&c02::Case::Pair(sc.clone())),
    };
    if let Some(v) = r.violation {
        if fuzz_is_known(&v.key) {
            return;
        }
        panic!("{} VIOLATION {}: {}", o, v.key, v.msg);
    }
});
