//! Byte string -> PairScenario, for the coverage-guided targets (harness/fuzz). The decoding is total
//! (a cursor that yields zeros once the input is used up), compact (a tick costs 3-20 bytes) and keeps
//! the weighting of `gen.rs` where a byte selects among alternatives, so that single-byte mutations
//! move between neighbouring scenarios: another fate for one frame, another size for one packet, one
//! more tick. Everything a decoded scenario contains is something `scenario_strategy` can produce as
//! well (same value ranges, same preconditions through `normalize()`); the search is what differs.

use super::pair::*;

pub struct Cursor<'a> {
    data: &'a [u8],
    pos: usize,
}

impl<'a> Cursor<'a> {
    pub fn new(data: &'a [u8]) -> Self {
        Cursor { data, pos: 0 }
    }
    pub fn is_empty(&self) -> bool {
        self.pos >= self.data.len()
    }
    pub fn u8(&mut self) -> u8 {
        let v = self.data.get(self.pos).copied().unwrap_or(0);
        self.pos += 1;
        v
    }
    pub fn u16(&mut self) -> u16 {
        (self.u8() as u16) | ((self.u8() as u16) << 8)
    }
    pub fn u32(&mut self) -> u32 {
        (self.u16() as u32) | ((self.u16() as u32) << 16)
    }
}

fn win(b: u8) -> u8 {
    // small windows weighted like dir_strategy: 0,1,2,3 common, 12 common
    match b % 12 {
        0 | 1 => 0,
        2 | 3 => 1,
        4 => 2,
        5 => 3,
        6 => 4 + (b / 12) % 8,
        _ => 12,
    }
}

fn dir(c: &mut Cursor, low_bandwidth: bool) -> DirCfg {
    let pkt_win_log2 = win(c.u8());
    let frm_win_log2 = win(c.u8().wrapping_add(5));
    let k = c.u8();
    let off = c.u16() as u32;
    let pkt_base = match k % 8 {
        0 | 1 => (off.wrapping_mul(2654435761)) & PKT_MASK,
        2 | 3 | 4 => PKT_MASK.wrapping_sub(off % 50) & PKT_MASK,
        5 | 6 => PKT_MASK.wrapping_sub(off % 9000) & PKT_MASK,
        _ => 0,
    };
    let k = c.u8();
    let off = c.u16() as u32;
    let frm_base = match k % 8 {
        0 | 1 => off.wrapping_mul(2654435761),
        2 | 3 | 4 => u32::MAX - off % 30,
        5 | 6 => u32::MAX - off % 9000,
        _ => 0,
    };
    let k = c.u8();
    let v = c.u16() as u32;
    let alloc_limit = match k % 8 {
        0 | 1 | 2 => 0,
        3 | 4 => v % 20_000,
        5 | 6 => 20_000 + v * 30,
        _ => u32::MAX,
    };
    let k = c.u8();
    let v = c.u16() as u32;
    let bw_limit = if low_bandwidth {
        match k % 7 {
            0 | 1 => 1472 + v % 18_528,
            2 | 3 => 20_000 + v * 7,
            4 | 5 => 500_000 + v * 297,
            _ => u32::MAX,
        }
    } else {
        match k % 5 {
            0 => 200_000 + v * 27,
            1 | 2 | 3 => 2_000_000 + v * 1495,
            _ => u32::MAX,
        }
    };
    DirCfg { pkt_win_log2, frm_win_log2, pkt_base, frm_base, alloc_limit, bw_limit }
}

fn delay(c: &mut Cursor) -> u32 {
    let k = c.u8();
    match k % 15 {
        0..=7 => 0,
        8..=11 => (k as u32 / 15) * 1200 + 100,
        12 | 13 => 20_000 + (c.u16() as u32) * 5,
        _ => 400_000 + (c.u16() as u32) * 39,
    }
}

fn fate(c: &mut Cursor) -> Fate {
    let k = c.u8();
    match k % 16 {
        0..=8 => Fate::Deliver(0),
        9 | 10 => Fate::Deliver(delay(c)),
        11 | 12 | 13 => Fate::Drop,
        14 => Fate::Dup(delay(c), delay(c)),
        _ => {
            let n = 1 + (k / 16) % 4;
            Fate::Corrupt((0..n).map(|_| c.u16()).collect())
        }
    }
}

fn size(c: &mut Cursor, max_frags: u32) -> u32 {
    let f = FRAG as u32;
    let k = c.u8();
    let v = c.u8() as u32;
    match k % 26 {
        0 | 1 => 0,
        2 | 3 | 4 => 1 + v % 3,
        5..=14 => 4 + v % 60,
        15..=19 => 64 + v % 236,
        20 | 21 => 300 + (v * 5) % (f - 300),
        22 | 23 | 24 => {
            let kf = 1 + (v / 3) % max_frags.max(1);
            ((kf * f) as i32 + (v % 3) as i32 - 1).max(0) as u32
        }
        _ => f + 2 + (v * 37) % ((max_frags.max(2) - 1) * f),
    }
}

fn act(c: &mut Cursor, max_frags: u32) -> EpAct {
    let b = c.u8();
    let step = b & 7 != 7;
    let flushes = match (b >> 3) & 7 {
        0..=2 => 0,
        3..=5 => 1,
        6 => 2,
        _ => 3,
    };
    let n = match b >> 6 {
        0 | 1 => 0,
        2 => 1 + (c.u8() % 5) as usize,
        _ => (c.u8() % 24) as usize,
    };
    let mut sends = Vec::with_capacity(n);
    for _ in 0..n {
        let cb = c.u8();
        let ch = match cb >> 6 {
            0 | 1 => cb % 3,
            2 => cb % 64,
            _ => 63,
        };
        let mb = c.u8();
        sends.push(SendSpec { ch, mode: mb % 4, size: size(c, max_frags) });
    }
    EpAct { step, sends, flushes }
}

/// Decodes a scenario. `low_bandwidth` selects the ceiling ranges C12 / C20 use.
pub fn scenario_from_bytes(data: &[u8], low_bandwidth: bool, max_ticks: usize, max_frags: u32) -> PairScenario {
    // (C12 / C20 need an identity in every packet: no talking peer with 1-byte packets there, as in their own strategies)
    let allow_chatter = !low_bandwidth;
    let mut c = Cursor::new(data);
    let d0 = dir(&mut c, low_bandwidth);
    let d1 = dir(&mut c, low_bandwidth);
    let kb = c.u8();
    let keepalive_ms = match kb % 10 {
        0..=2 => None,
        3 | 4 => Some(100),
        5..=7 => Some(1000),
        _ => Some(5000),
    };
    let seed = c.u8() as u64;
    let z = c.u8();
    let lat = |c: &mut Cursor| -> u32 {
        let k = c.u8();
        let v = c.u16() as u32;
        match k % 13 {
            0 | 1 => 0,
            2..=5 => v % 3000,
            6..=9 => 3000 + v % 27_000,
            10 | 11 => 30_000 + (v * 3) % 170_000,
            _ => 200_000,
        }
    };
    let l0 = lat(&mut c);
    let l1 = lat(&mut c);
    let period: u64 = [1_000, 5_000, 5_000, 10_000, 10_000, 16_000, 16_000, 30_000, 30_000, 60_000, 150_000, 500_000][(c.u8() % 12) as usize];
    let tail_step = [1_000u32, 10_000, 16_000, 30_000, 100_000][(c.u8() % 5) as usize];
    let cb = c.u8();
    let chatter = if cb % 5 < 2 && allow_chatter {
        let e = (cb >> 4) & 1;
        let ch = c.u8() % 64;
        let mode = c.u8() % 4;
        let sz = c.u8() as u16;
        let gap = c.u8() as u32;
        Some(Chatter { e, ch, mode, size: 1 + if sz < 200 { sz % 40 } else { sz * 5 }, gap_us: if gap < 100 { 0 } else { gap * 5800 } })
    } else {
        None
    };
    let age = c.u8();
    let age_before = c.u16() as u64;
    let mut ticks = Vec::new();
    if age % 12 == 0 {
        let pow = [32u32, 32, 32, 31, 24, 16, 33][((age / 12) % 7) as usize];
        let idle = EpAct { step: true, sends: Vec::new(), flushes: 0 };
        ticks.push(Tick { dt_us: ((1u64 << pow).saturating_sub(age_before % 12_000)) * 1000, acts: [idle.clone(), idle] });
    }
    let mut fates: [Vec<Fate>; 2] = [Vec::new(), Vec::new()];
    while !c.is_empty() && ticks.len() < max_ticks {
        let t = c.u8();
        let dt_us = match t % 40 {
            0 => 0,
            1 => period * (1 + (t as u64 / 40)) / 8,
            2 => (period * (2 + (c.u8() as u64 % 40))).min(5_000_000),
            k => period * (700 + (k as u64 * 15)) / 1000,
        };
        let a = act(&mut c, max_frags);
        let b = act(&mut c, max_frags);
        ticks.push(Tick { dt_us, acts: [a, b] });
        // a few fates per tick for each link (frames per tick vary; the scripts are indexed by frame number)
        let fb = c.u8();
        for l in 0..2 {
            let n = (fb >> (4 * l)) & 7;
            for _ in 0..n {
                if fates[l].len() < 400 {
                    fates[l].push(fate(&mut c));
                }
            }
        }
    }
    if ticks.is_empty() {
        ticks.push(Tick { dt_us: period, acts: [EpAct { step: true, sends: Vec::new(), flushes: 0 }, EpAct { step: true, sends: Vec::new(), flushes: 0 }] });
    }
    let [f0, f1] = fates;
    let mut sc = PairScenario {
        dirs: [d0, d1],
        keepalive_ms,
        seed,
        zero_ch: z % 64,
        zero_mode: (z >> 6) % 4,
        links: [LinkCfg { latency_us: l0, fates: f0 }, LinkCfg { latency_us: l1, fates: f1 }],
        ticks,
        tail: Some(Tail { step_us: tail_step, max_us: 0, chatter }),
        premature_acks: Vec::new(),
    };
    sc.normalize();
    sc
}

/// (low-bandwidth ceilings, maximum number of ticks, largest packet in fragments) used for a property's campaign.
pub fn params_for(oracle: &str) -> (bool, usize, u32) {
    match oracle {
        "C12" | "C20" => (true, 250, 6),
        _ => (false, 300, 5),
    }
}
