//! Sender-side model reconstructed purely from observations: submissions, the frames the sender
//! put on the wire, and the ack frames handed to it. Shared by C12, C20, C06 (sender half).

use super::pair::*;
use crate::engine::Violation;
use std::collections::HashMap;
use uflow::verif::Frame;
use uflow::verif::Serialize as _;

#[derive(Clone, Debug)]
pub enum Ev {
    Submit { sub: u32 },
    /// a data frame emitted by the sender
    Data { wire_idx: u32, frame_id: u32, epoch: u32, dgs: Vec<(u32, u16, u16, u32)> }, // (packet id, fragment id, last fragment id, data len)
    /// an ack frame handed to the sender (uncorrupted and accepted by the parser)
    Ack { epoch: u32, frame_base: u32, packet_base: u32, groups: Vec<(u32, u32)> },
    Step,
    Snapshot { stat_idx: u32 },
}

/// Merged, globally ordered event list for the direction in which endpoint `s` is the sender.
pub fn sender_events(trace: &Trace, s: usize) -> Vec<(u64, Ev)> {
    let mut evs: Vec<(u64, Ev)> = Vec::new();
    for sub in trace.subs[s].iter() {
        evs.push((sub.seq, Ev::Submit { sub: sub.idx }));
    }
    for (i, w) in trace.wire[s].iter().enumerate() {
        if let Some(Frame::DataFrame(df)) = Frame::read(&w.bytes) {
            let dgs = df.datagrams.iter().map(|d| (d.sequence_id, d.fragment_id, d.fragment_id_last, d.data.len() as u32)).collect();
            evs.push((w.seq, Ev::Data { wire_idx: i as u32, frame_id: df.sequence_id, epoch: w.epoch, dgs }));
        }
    }
    for h in trace.handled[s].iter() {
        if h.corrupted || !h.accepted {
            continue;
        }
        let w = &trace.wire[1 - s][h.wire_idx as usize];
        if let Some(Frame::AckFrame(a)) = Frame::read(&w.bytes) {
            evs.push((h.seq, Ev::Ack { epoch: h.epoch, frame_base: a.frame_window_base_id, packet_base: a.packet_window_base_id, groups: a.frame_acks.iter().map(|g| (g.base_id, g.bitfield)).collect() }));
        }
    }
    for (seq, _) in trace.steps[s].iter() {
        evs.push((*seq, Ev::Step));
    }
    for (i, st) in trace.stats[s].iter().enumerate() {
        evs.push((st.seq, Ev::Snapshot { stat_idx: i as u32 }));
    }
    evs.sort_by_key(|e| e.0);
    evs
}

/// Maps packet ids to submissions by the identity carried in fragment 0 (all packets >= 4 bytes).
pub struct IdMap {
    pub id_to_sub: HashMap<u32, u32>,
    pub sub_to_id: HashMap<u32, u32>,
}

pub fn first_fragment_identity(bytes: &[u8], pkt: u32) -> Option<u32> {
    if let Some(Frame::DataFrame(df)) = Frame::read(bytes) {
        for d in df.datagrams.iter() {
            if d.sequence_id == pkt && d.fragment_id == 0 && d.data.len() >= 4 {
                return Some(u32::from_be_bytes([d.data[0], d.data[1], d.data[2], d.data[3]]));
            }
        }
    }
    None
}

/// Walks the sender's data frames in emission order and assigns each new packet id its submission.
/// Checks that ids are assigned consecutively from the base and in FIFO order, with only
/// TimeSensitive submissions skipped.
pub fn build_id_map(sc: &PairScenario, trace: &Trace, s: usize) -> Result<IdMap, Violation> {
    let mut id_to_sub: HashMap<u32, u32> = HashMap::new();
    let mut sub_to_id: HashMap<u32, u32> = HashMap::new();
    let mut next_id = sc.dirs[s].pkt_base & PKT_MASK;
    let mut last_sub: i64 = -1;
    for w in trace.wire[s].iter() {
        if let Some(Frame::DataFrame(df)) = Frame::read(&w.bytes) {
            for d in df.datagrams.iter() {
                if id_to_sub.contains_key(&d.sequence_id) {
                    continue;
                }
                if d.sequence_id != next_id {
                    return Err(Violation::new("oracle:wire:packet_id_not_consecutive", format!("sender {s}: first appearance of packet id {} but the next unused id is {}", d.sequence_id, next_id)));
                }
                if d.fragment_id != 0 || d.data.len() < 4 {
                    return Err(Violation::new("oracle:wire:first_appearance_not_fragment_0", format!("sender {s}: packet id {} first appears with fragment {} ({} bytes)", d.sequence_id, d.fragment_id, d.data.len())));
                }
                let idx = u32::from_be_bytes([d.data[0], d.data[1], d.data[2], d.data[3]]);
                if idx as usize >= trace.subs[s].len() || (idx as i64) <= last_sub {
                    return Err(Violation::new("oracle:wire:fifo", format!("sender {s}: packet id {} carries submission {idx}, but submission {last_sub} was already emitted (ids must follow submission order)", d.sequence_id)));
                }
                for k in (last_sub + 1) as u32..idx {
                    if trace.subs[s][k as usize].mode != 0 {
                        return Err(Violation::new("oracle:wire:non_time_sensitive_skipped_by_sender", format!("sender {s}: submission {k} (mode {}) was passed over when submission {idx} was emitted", trace.subs[s][k as usize].mode)));
                    }
                }
                last_sub = idx as i64;
                id_to_sub.insert(d.sequence_id, idx);
                sub_to_id.insert(idx, d.sequence_id);
                next_id = (next_id + 1) & PKT_MASK;
            }
        }
    }
    Ok(IdMap { id_to_sub, sub_to_id })
}

/// Tracks, from the wire alone, the packets a sender has emitted beyond the newest packet-window base it
/// has been told: count and fragment-rounded bytes (what the receiver will have to allocate).
pub struct OutstandingTracker {
    pub base: u32,
    pub next: u32,
    origin: u32,
    map: std::collections::BTreeMap<u32, u64>,
    pub total: u64,
}

impl OutstandingTracker {
    pub fn new(base: u32) -> Self {
        OutstandingTracker { base: base & PKT_MASK, next: base & PKT_MASK, origin: base & PKT_MASK, map: Default::default(), total: 0 }
    }

    /// A datagram seen in a data frame emitted by the sender. Returns (packets outstanding, bytes outstanding).
    pub fn on_datagram(&mut self, pkt: u32, last: u16, len: u32) -> (usize, u64) {
        let lead = pkt.wrapping_sub(self.base) & PKT_MASK;
        if lead < 0x80000 {
            if (pkt.wrapping_sub(self.next) & PKT_MASK) < 0x80000 {
                self.next = (pkt + 1) & PKT_MASK;
            }
            let key = pkt.wrapping_sub(self.origin) & PKT_MASK;
            if !self.map.contains_key(&key) {
                let a = if last == 0 { len as u64 } else { (last as u64 + 1) * FRAG as u64 };
                self.map.insert(key, a);
                self.total += a;
            }
        }
        (self.map.len(), self.total)
    }

    /// A packet-window base carried by an ack frame handed to the sender.
    pub fn on_ack_base(&mut self, packet_base: u32) {
        if packet_base > PKT_MASK {
            return;
        }
        let delta = packet_base.wrapping_sub(self.base) & PKT_MASK;
        let span = self.next.wrapping_sub(self.base) & PKT_MASK;
        if delta <= span && delta != 0 {
            self.base = packet_base;
            let cut = self.base.wrapping_sub(self.origin) & PKT_MASK;
            let keep = self.map.split_off(&cut);
            for (_, a) in self.map.iter() {
                self.total -= *a;
            }
            self.map = keep;
        }
    }
}
