//! Delivery ledger: maps every delivered packet to exactly one submission of the opposite endpoint
//! (by the identity embedded in the payload) and checks per-channel order, at-most-once and
//! byte-exactness. Shared by C01, C02, C04, C05, C09 ...

use super::pair::{payload, PairScenario, Sub, Trace};
use crate::engine::Violation;
use crate::util::hex;

pub struct Matched {
    /// for each delivery (in delivery order): index of the submission it was matched to
    pub deliv_to_sub: Vec<u32>,
    /// for each submission: position in the delivery sequence, if delivered
    pub sub_delivered: Vec<Option<u32>>,
}

/// Matches deliveries at endpoint `r` to the submissions of endpoint `s = 1 - r`.
///
/// Errors are C01 violations: unknown / altered contents, duplicate delivery, delivery out of
/// channel order.
pub fn match_deliveries(seed: u64, zero_ch: u8, subs: &[Sub], delivs: &[Box<[u8]>], s: usize, global: bool) -> Result<Matched, Violation> {
    let mut last_global: i64 = -1;
    let mut sub_delivered: Vec<Option<u32>> = vec![None; subs.len()];
    let mut deliv_to_sub: Vec<u32> = Vec::with_capacity(delivs.len());
    let mut last_idx: [i64; 64] = [-1; 64];
    // per channel, cursor over submissions for non-identity (short) packets
    for (k, data) in delivs.iter().enumerate() {
        let n = data.len();
        let idx: u32;
        if n >= 4 {
            let i = u32::from_be_bytes([data[0], data[1], data[2], data[3]]);
            if (i as usize) >= subs.len() {
                return Err(Violation::new("oracle:c01:unknown_packet", format!("delivery #{k} ({n} bytes, starts {}) does not correspond to any submitted packet", hex(data, 16))));
            }
            let sub = &subs[i as usize];
            let want = payload(seed, s, sub.idx, sub.ch, sub.mode, sub.size as usize);
            if want.as_slice() != &data[..] {
                let first_diff = want.iter().zip(data.iter()).position(|(a, b)| a != b);
                return Err(Violation::new(
                    "oracle:c01:altered_contents",
                    format!(
                        "delivery #{k} carries the identity of submission {i} (channel {}, {} bytes) but its contents differ: delivered {} bytes, first differing offset {:?}",
                        sub.ch, sub.size, n, first_diff
                    ),
                ));
            }
            idx = i;
        } else {
            let (ch, mode) = if n == 0 { (zero_ch, None) } else { (data[0] & 63, Some(data[0] >> 6)) };
            // packets without identity: earliest candidate that keeps the channel order (and, when
            // the whole sequence is expected to be ordered, the global order)
            let start = if global { (last_idx[ch as usize].max(last_global) + 1) as usize } else { (last_idx[ch as usize] + 1) as usize };
            let mut found = None;
            for (i, sub) in subs.iter().enumerate().skip(start) {
                if sub.ch != ch || sub.size as usize != n || sub_delivered[i].is_some() {
                    continue;
                }
                if let Some(m) = mode {
                    if sub.mode != m {
                        continue;
                    }
                }
                if payload(seed, s, sub.idx, sub.ch, sub.mode, n).as_slice() == &data[..] {
                    found = Some(i as u32);
                    break;
                }
            }
            match found {
                Some(i) => idx = i,
                None => {
                    // distinguish duplicate / reordered from unknown
                    let any = subs.iter().any(|sub| sub.ch == ch && sub.size as usize == n && payload(seed, s, sub.idx, sub.ch, sub.mode, n).as_slice() == &data[..]);
                    return Err(Violation::new(
                        if any { "oracle:c01:short_packet_duplicate_or_out_of_order" } else { "oracle:c01:unknown_packet" },
                        format!("delivery #{k} ({n} bytes: {}) matches no not-yet-delivered later submission on channel {ch}", hex(data, 4)),
                    ));
                }
            }
        }
        let sub = &subs[idx as usize];
        if let Some(prev) = sub_delivered[idx as usize] {
            return Err(Violation::new(
                "oracle:c01:delivered_twice",
                format!("submission {idx} (channel {}, mode {}, {} bytes) was delivered twice: deliveries #{prev} and #{k}", sub.ch, sub.mode, sub.size),
            ));
        }
        if (idx as i64) <= last_idx[sub.ch as usize] {
            return Err(Violation::new(
                "oracle:c01:out_of_order",
                format!("delivery #{k} is submission {idx} on channel {} but submission {} of that channel was already delivered", sub.ch, last_idx[sub.ch as usize]),
            ));
        }
        last_idx[sub.ch as usize] = idx as i64;
        last_global = last_global.max(idx as i64);
        sub_delivered[idx as usize] = Some(k as u32);
        deliv_to_sub.push(idx);
    }
    Ok(Matched { deliv_to_sub, sub_delivered })
}

pub fn match_direction(sc: &PairScenario, trace: &Trace, s: usize) -> Result<Matched, Violation> {
    match_direction_opt(sc, trace, s, false)
}

pub fn match_direction_opt(sc: &PairScenario, trace: &Trace, s: usize, global: bool) -> Result<Matched, Violation> {
    let r = 1 - s;
    let delivs: Vec<Box<[u8]>> = trace.delivs[r].iter().map(|d| d.data.clone()).collect();
    match_deliveries(sc.seed, sc.zero_ch, &trace.subs[s], &delivs, s, global).map_err(|mut v| {
        v.msg = format!("direction {}->{}: {}", s, r, v.msg);
        v
    })
}

/// C02 safety: no packet is delivered while an earlier Reliable packet of the same channel is
/// undelivered.
pub fn check_reliable_not_skipped(subs: &[Sub], m: &Matched) -> Result<(), Violation> {
    // walk deliveries in order; per channel keep the index of the last delivered submission
    let mut last: [i64; 64] = [-1; 64];
    // per channel list of reliable submission indices
    let mut reliable: Vec<Vec<u32>> = vec![Vec::new(); 64];
    for sub in subs {
        if sub.mode == 3 {
            reliable[sub.ch as usize].push(sub.idx);
        }
    }
    // (per channel: position in `reliable[ch]` of the first Reliable submission after the last delivered one; deliveries
    // on a channel come in submission order - C01 -, so the cursor only moves forward)
    let mut cursor: [usize; 64] = [0; 64];
    for (k, &idx) in m.deliv_to_sub.iter().enumerate() {
        let sub = &subs[idx as usize];
        let ch = sub.ch as usize;
        // any reliable submission strictly between last[ch] and idx was skipped
        let list = &reliable[ch];
        while cursor[ch] < list.len() && (list[cursor[ch]] as i64) <= last[ch] {
            cursor[ch] += 1;
        }
        if let Some(&r) = list.get(cursor[ch]) {
            if (r as i64) > last[ch] && r < idx {
                return Err(Violation::new(
                    "oracle:c02:reliable_skipped",
                    format!("delivery #{k} is submission {idx} on channel {ch}, delivered before the earlier Reliable submission {r} of the same channel"),
                ));
            }
        }
        last[ch] = idx as i64;
    }
    Ok(())
}
