//! SimPair: two `HalfConnection`s joined by two scripted links under a virtual clock.
//!
//! A tick reproduces what `Client::step` / `Server::step` do for one connection
//! (`flush(); handle arrived frames; step(); receive()`), followed by the application's sends and
//! optional extra `flush()` calls. Everything (clock, nonces, fates) is a function of the scenario.

use crate::util::*;
use serde::{Deserialize, Serialize};
use std::collections::BinaryHeap;
use uflow::verif::*;
use uflow::verif::Serialize as _;
use uflow::SendMode;

pub const FRAG: usize = 1448;
pub const MAX_FRAME: usize = 1472;
pub const PKT_MASK: u32 = 0xFFFFF;

#[derive(Clone, Debug, Serialize, Deserialize, PartialEq)]
pub struct DirCfg {
    pub pkt_win_log2: u8,
    pub frm_win_log2: u8,
    pub pkt_base: u32,
    pub frm_base: u32,
    /// the receiver's max_receive_alloc for this direction (= the sender's tx_alloc_limit)
    pub alloc_limit: u32,
    /// the sender's bandwidth ceiling, bytes per second
    pub bw_limit: u32,
}

#[derive(Clone, Debug, Serialize, Deserialize, PartialEq)]
pub enum Fate {
    /// delivered after latency + extra microseconds
    Deliver(u32),
    Drop,
    /// delivered twice, after latency + each extra delay (microseconds)
    Dup(u32, u32),
    /// delivered with the given bit positions (selectors over the frame's bits) flipped
    Corrupt(Vec<u16>),
}

#[derive(Clone, Debug, Serialize, Deserialize, PartialEq)]
pub struct LinkCfg {
    pub latency_us: u32,
    pub fates: Vec<Fate>,
}

#[derive(Clone, Debug, Serialize, Deserialize, PartialEq)]
pub struct SendSpec {
    pub ch: u8,
    /// 0 TimeSensitive, 1 Unreliable, 2 Persistent, 3 Reliable
    pub mode: u8,
    pub size: u32,
}

#[derive(Clone, Debug, Serialize, Deserialize, PartialEq, Default)]
pub struct EpAct {
    pub step: bool,
    pub sends: Vec<SendSpec>,
    pub flushes: u8,
}

#[derive(Clone, Debug, Serialize, Deserialize, PartialEq)]
pub struct Tick {
    pub dt_us: u64,
    pub acts: [EpAct; 2],
}

#[derive(Clone, Debug, Serialize, Deserialize, PartialEq)]
pub struct Tail {
    pub step_us: u32,
    /// upper bound on the fair phase, virtual microseconds
    pub max_us: u64,
    /// the application of one endpoint keeps submitting small packets during the fair phase until the OTHER
    /// direction has nothing left to do (progress-based tails only)
    #[serde(default, skip_serializing_if = "Option::is_none")]
    pub chatter: Option<Chatter>,
}

#[derive(Clone, Debug, Serialize, Deserialize, PartialEq)]
pub struct Chatter {
    /// the endpoint that keeps talking
    pub e: u8,
    pub ch: u8,
    pub mode: u8,
    pub size: u16,
    /// one packet at the first step after this much time since the previous one (below the 2 s sync interval)
    pub gap_us: u32,
}

#[derive(Clone, Debug, Serialize, Deserialize, PartialEq)]
pub struct PairScenario {
    pub dirs: [DirCfg; 2],
    pub keepalive_ms: Option<u32>,
    pub seed: u64,
    /// all zero-length packets of a case use this channel and mode (they cannot carry identity)
    pub zero_ch: u8,
    pub zero_mode: u8,
    pub links: [LinkCfg; 2],
    pub ticks: Vec<Tick>,
    pub tail: Option<Tail>,
    /// forged ack frames without groups, handed to endpoint `ep` after the tick selected by `after_tick`, whose
    /// packet window base names a packet that has not been sent yet (`ahead` beyond the sender's next id): an
    /// acknowledgement for something that does not exist, which must be ignored - also later, when a packet with
    /// that id does exist. (after_tick selector, ep, ahead)
    #[serde(default, skip_serializing_if = "Vec::is_empty")]
    pub premature_acks: Vec<(u16, u8, u16)>,
}

impl PairScenario {
    /// Enforces the API preconditions every real caller respects: channel < 64, packet length
    /// within the peer's advertised receive allocation, valid ids and window sizes.
    pub fn normalize(&mut self) {
        for d in 0..2 {
            let mut max_size = 1u32;
            for t in self.ticks.iter_mut() {
                for s in t.acts[d].sends.iter_mut() {
                    s.ch %= 64;
                    s.mode %= 4;
                    if s.size == 0 {
                        s.ch = self.zero_ch % 64;
                        s.mode = self.zero_mode % 4;
                    }
                    max_size = max_size.max(s.size);
                }
            }
            let dir = &mut self.dirs[d];
            dir.pkt_win_log2 = dir.pkt_win_log2.min(12);
            dir.frm_win_log2 = dir.frm_win_log2.min(12);
            dir.pkt_base &= PKT_MASK;
            dir.alloc_limit = dir.alloc_limit.max(max_size).max(1);
            dir.bw_limit = dir.bw_limit.max(1);
        }
        self.zero_ch %= 64;
        self.zero_mode %= 4;
    }

    pub fn hc_config(&self, e: usize) -> HalfConnectionConfig {
        let tx = &self.dirs[e];
        let rx = &self.dirs[1 - e];
        HalfConnectionConfig {
            tx_frame_base_id: tx.frm_base,
            rx_frame_base_id: rx.frm_base,
            tx_frame_window_size: 1 << tx.frm_win_log2,
            rx_frame_window_size: 1 << rx.frm_win_log2,
            tx_packet_base_id: tx.pkt_base & PKT_MASK,
            rx_packet_base_id: rx.pkt_base & PKT_MASK,
            tx_packet_window_size: 1 << tx.pkt_win_log2,
            rx_packet_window_size: 1 << rx.pkt_win_log2,
            tx_bandwidth_limit: tx.bw_limit,
            tx_alloc_limit: tx.alloc_limit as usize,
            rx_alloc_limit: rx.alloc_limit as usize,
            keepalive_interval_ms: self.keepalive_ms.map(|k| k as u64),
        }
    }
}

pub fn mode_of(m: u8) -> SendMode {
    match m % 4 {
        0 => SendMode::TimeSensitive,
        1 => SendMode::Unreliable,
        2 => SendMode::Persistent,
        _ => SendMode::Reliable,
    }
}

/// Payload with embedded identity (see DESIGN.md section 3.4).
pub fn payload(seed: u64, e: usize, idx: u32, ch: u8, mode: u8, size: usize) -> Vec<u8> {
    let mut rng = SplitMix::new(mix64(seed ^ ((e as u64) << 40), idx as u64));
    if size >= 4 {
        let mut v = Vec::with_capacity(size + 8);
        v.extend_from_slice(&idx.to_be_bytes());
        while v.len() < size {
            v.extend_from_slice(&rng.next().to_le_bytes());
        }
        v.truncate(size);
        v
    } else if size >= 1 {
        let mut v = vec![(mode << 6) | (ch & 63)];
        let r = rng.next().to_le_bytes();
        v.extend_from_slice(&r[..size - 1]);
        v
    } else {
        Vec::new()
    }
}

#[derive(Clone, Debug)]
pub struct Sub {
    /// position in the global event order of the run
    pub seq: u64,
    pub idx: u32,
    pub tick: u32,
    /// number of step() calls the sending endpoint had made when the packet was submitted
    pub epoch: u32,
    pub t_us: u64,
    pub ch: u8,
    pub mode: u8,
    pub size: u32,
}

#[derive(Clone, Debug)]
pub struct Deliv {
    pub t_us: u64,
    pub tick: u32,
    pub data: Box<[u8]>,
}

#[derive(Clone, Debug)]
pub struct WireRec {
    pub seq: u64,
    pub t_us: u64,
    pub tick: u32,
    /// number of step() calls the sender had made when the frame was emitted
    pub epoch: u32,
    pub bytes: Box<[u8]>,
    pub fate: Fate,
    pub fair: bool,
}

#[derive(Clone, Debug)]
pub struct HandledRec {
    pub seq: u64,
    pub t_us: u64,
    /// number of step() calls the receiving endpoint had made before handling this frame
    pub epoch: u32,
    /// index into the peer's wire log
    pub wire_idx: u32,
    pub corrupted: bool,
    pub accepted: bool,
}

#[derive(Clone, Debug)]
pub struct StepStat {
    pub seq: u64,
    pub t_us: u64,
    pub tick: u32,
    pub epoch: u32,
    pub send_buffer_size: usize,
    pub send_pending: bool,
    pub rtt_s: Option<f64>,
    pub v: VerifStats,
}

#[derive(Clone, Debug, PartialEq)]
pub enum TailOutcome {
    Quiescent,
    Stalled { since_us: u64 },
    Cap,
}

#[derive(Default)]
pub struct Trace {
    pub subs: [Vec<Sub>; 2],
    /// deliveries *at* endpoint e (packets sent by 1-e)
    pub delivs: [Vec<Deliv>; 2],
    /// frames emitted by endpoint e
    pub wire: [Vec<WireRec>; 2],
    /// frames handed to endpoint e
    pub handled: [Vec<HandledRec>; 2],
    /// snapshot after every endpoint step and at the end of every tick
    pub stats: [Vec<StepStat>; 2],
    /// (event seq, time) of every step() call of endpoint e
    pub steps: [Vec<(u64, u64)>; 2],
    pub end_us: u64,
    pub tail_start_us: Option<u64>,
    pub tail_quiescent: bool,
    pub frames_dropped: u64,
    pub frames_duplicated: u64,
    pub frames_corrupted: u64,
    pub frames_overtaken: u64,
    pub max_frame_len: usize,
}

struct InFlight {
    arrive_us: u64,
    seq: u64,
    wire_idx: u32,
    bytes: Box<[u8]>,
    corrupted: bool,
}

impl PartialEq for InFlight {
    fn eq(&self, o: &Self) -> bool {
        self.arrive_us == o.arrive_us && self.seq == o.seq
    }
}
impl Eq for InFlight {}
impl PartialOrd for InFlight {
    fn partial_cmp(&self, o: &Self) -> Option<std::cmp::Ordering> {
        Some(self.cmp(o))
    }
}
impl Ord for InFlight {
    fn cmp(&self, o: &Self) -> std::cmp::Ordering {
        // min-heap on (arrival, seq)
        (o.arrive_us, o.seq).cmp(&(self.arrive_us, self.seq))
    }
}

struct CollectSink {
    frames: Vec<Box<[u8]>>,
}

impl FrameSink for CollectSink {
    fn send(&mut self, frame_data: &[u8]) {
        self.frames.push(frame_data.into());
    }
}

struct CollectPackets {
    packets: Vec<Box<[u8]>>,
}

impl PacketSink for CollectPackets {
    fn send(&mut self, packet_data: Box<[u8]>) {
        self.packets.push(packet_data);
    }
}

pub struct SimPair {
    pub hc: [HalfConnection; 2],
    pub now_us: u64,
    pub tick_no: u32,
    pub epoch: [u32; 2],
    pub trace: Trace,
    pub record_wire: bool,
    pub record_stats: bool,
    /// snapshots are switched off after this many steps of a progress-based tail
    pub tail_stats_steps: u32,
    pub fair: bool,
    seed: u64,
    latency_us: [u32; 2],
    fates: [Vec<Fate>; 2],
    fate_idx: [usize; 2],
    /// in_flight[e]: frames travelling towards endpoint e
    in_flight: [BinaryHeap<InFlight>; 2],
    last_arrival_us: [u64; 2],
    seq: u64,
    ev: u64,
    next_idx: [u32; 2],
    /// blackout[link]: (until_us, kinds) - frames of the given kinds (bit 0 data, bit 1 ack,
    /// bit 2 sync) put on the link before `until_us` are dropped
    pub blackout: [(u64, u8); 2],
    /// dup_acks[link]: (ordinal of the ack frame put on that link, extra delay in us): that ack
    /// frame is delivered a second time, `delay` after the original
    pub dup_acks: [Vec<(u32, u32)>; 2],
    /// ext_acks[e]: (ordinal of the uncorrupted ack frame handed to endpoint e, selector bits): that ack is handed over
    /// with additional claims for frames the endpoint has ALREADY seen acknowledged (see `extend_ack`)
    pub ext_acks: [Vec<(u32, u32)>; 2],
    pub acks_handled: [u32; 2],
    pub acks_extended: u32,
    ack_count: [u32; 2],
    /// stash_until_us[link]: every frame put on that link before this time is also kept as a network duplicate
    /// that arrives only when `release_stash` is called (a copy delayed for a very long time)
    pub stash_until_us: [u64; 2],
    stash: [Vec<(u32, Box<[u8]>)>; 2],
    /// see `Tail::chatter`
    pub chatter: Option<Chatter>,
    pub chatter_packets: u32,
    /// set when a progress-based tail stalled while the talker was still talking: the largest flush credit the
    /// OTHER endpoint (the one that made no headway) held after any of its steps during the last third to two
    /// thirds of the stall window
    pub chatter_stall_max_credit: Option<i64>,
    /// (tick number, endpoint, ahead), see `PairScenario::premature_acks`
    premature: Vec<(u32, usize, u32)>,
    frm_base: [u32; 2],
    /// frame window base named by the latest uncorrupted ack frame handed to endpoint e
    last_ack_frame_base: [Option<u32>; 2],
    pub premature_injected: u32,
}

impl SimPair {
    pub fn new(sc: &PairScenario) -> Self {
        uflow::verif::time::set_ns(0);
        uflow::verif::rand::seed(sc.seed);
        let mut a = HalfConnection::new(sc.hc_config(0));
        let mut b = HalfConnection::new(sc.hc_config(1));
        // one scenario in eight: connections that have been stepped almost 2^32 times already (the step counter, which
        // stamps TimeSensitive packets, comes round during the history)
        if sc.seed % 8 == 3 {
            a.verif_preset_step_count(u32::MAX - ((sc.seed >> 16) % 200) as u32);
            b.verif_preset_step_count(u32::MAX - ((sc.seed >> 24) % 200) as u32);
        }
        SimPair {
            hc: [a, b],
            now_us: 0,
            tick_no: 0,
            epoch: [0, 0],
            trace: Trace::default(),
            record_wire: true,
            record_stats: true,
            tail_stats_steps: u32::MAX,
            fair: false,
            seed: sc.seed,
            latency_us: [sc.links[0].latency_us, sc.links[1].latency_us],
            fates: [sc.links[0].fates.clone(), sc.links[1].fates.clone()],
            fate_idx: [0, 0],
            in_flight: [BinaryHeap::new(), BinaryHeap::new()],
            last_arrival_us: [0, 0],
            seq: 0,
            ev: 0,
            next_idx: [0, 0],
            blackout: [(0, 0), (0, 0)],
            dup_acks: [Vec::new(), Vec::new()],
            ext_acks: [Vec::new(), Vec::new()],
            acks_handled: [0, 0],
            acks_extended: 0,
            stash_until_us: [0, 0],
            stash: [Vec::new(), Vec::new()],
            ack_count: [0, 0],
            chatter: sc.tail.as_ref().and_then(|t| t.chatter.clone()).map(|mut c| {
                c.e %= 2;
                c.ch %= 64;
                c.mode %= 4;
                c.size = (c.size as u32).min(sc.dirs[c.e as usize].alloc_limit.max(1)).clamp(1, 1400) as u16;
                c.gap_us = c.gap_us.min(1_500_000);
                c
            }),
            chatter_packets: 0,
            chatter_stall_max_credit: None,
            premature: sc.premature_acks.iter().map(|(sel, e, ahead)| (crate::engine::pick_index(*sel, sc.ticks.len().max(1)) as u32, (*e % 2) as usize, (*ahead as u32).max(1))).collect(),
            frm_base: [sc.dirs[0].frm_base, sc.dirs[1].frm_base],
            last_ack_frame_base: [None, None],
            premature_injected: 0,
        }
    }

    /// Hands endpoint `e` a forged ack frame without groups whose packet window base lies `ahead` beyond the next
    /// packet id `e` will use (its frame window base is the one of the latest genuine ack frame `e` was handed, or e's
    /// initial one: it cannot move the frame window either). The frame is recorded like a frame of the peer that was handed over, so that the sender models
    /// see it; it is not something the peer emitted.
    pub fn inject_premature_ack(&mut self, e: usize, ahead: u32) -> bool {
        use uflow::verif::Serialize as _;
        let (base, next) = self.hc[e].verif_packet_window();
        let span = next.wrapping_sub(base) & PKT_MASK;
        if span + ahead >= 0x40000 || ahead == 0 {
            return false;
        }
        let pb = next.wrapping_add(ahead) & PKT_MASK;
        let f = Frame::AckFrame(uflow::verif::AckFrame { frame_window_base_id: self.last_ack_frame_base[e].unwrap_or(self.frm_base[e]), packet_window_base_id: pb, frame_acks: Vec::new() }).write();
        let wire_idx = self.trace.wire[1 - e].len() as u32;
        let evs = self.next_ev();
        self.trace.wire[1 - e].push(WireRec { seq: evs, t_us: self.now_us, tick: self.tick_no, epoch: self.epoch[1 - e], bytes: f.clone(), fate: Fate::Deliver(0), fair: self.fair });
        let accepted = self.handle_bytes(e, &f);
        let evs = self.next_ev();
        self.trace.handled[e].push(HandledRec { seq: evs, t_us: self.now_us, epoch: self.epoch[e], wire_idx, corrupted: false, accepted });
        self.premature_injected += 1;
        true
    }

    fn next_ev(&mut self) -> u64 {
        self.ev += 1;
        self.ev
    }

    pub fn set_latency(&mut self, link: usize, latency_us: u32) {
        self.latency_us[link] = latency_us;
    }

    pub fn advance(&mut self, dt_us: u64) {
        self.now_us += dt_us;
        uflow::verif::time::set_ns(self.now_us.saturating_mul(1000));
    }

    /// Delivers the long-delayed duplicates kept for `link` now, in the order in which the originals were sent.
    pub fn release_stash(&mut self, link: usize) -> usize {
        let to = 1 - link;
        let list = std::mem::take(&mut self.stash[link]);
        let n = list.len();
        for (wire_idx, bytes) in list {
            self.seq += 1;
            let seq = self.seq;
            self.in_flight[to].push(InFlight { arrive_us: self.now_us, seq, wire_idx, bytes, corrupted: false });
        }
        n
    }

    pub fn in_flight_count(&self) -> usize {
        self.in_flight[0].len() + self.in_flight[1].len()
    }

    fn put_on_link(&mut self, from: usize, frames: Vec<Box<[u8]>>) {
        for bytes in frames {
            let to = 1 - from;
            let kind_bit = match bytes.first() {
                Some(10) => 1u8,
                Some(12) => 2u8,
                Some(11) => 4u8,
                _ => 0u8,
            };
            let fate = if self.now_us < self.blackout[from].0 && self.blackout[from].1 & kind_bit != 0 {
                Fate::Drop
            } else if self.fair {
                Fate::Deliver(0)
            } else {
                let f = self.fates[from].get(self.fate_idx[from]).cloned().unwrap_or(Fate::Deliver(0));
                self.fate_idx[from] += 1;
                f
            };
            self.trace.max_frame_len = self.trace.max_frame_len.max(bytes.len());
            let wire_idx = self.trace.wire[from].len() as u32;
            if self.now_us < self.stash_until_us[from] {
                self.stash[from].push((wire_idx, bytes.clone()));
            }
            let base = self.now_us + self.latency_us[from] as u64;
            let mut push = |sim: &mut SimPair, arrive_us: u64, data: Box<[u8]>, corrupted: bool| {
                if arrive_us < sim.last_arrival_us[to] {
                    sim.trace.frames_overtaken += 1;
                }
                sim.last_arrival_us[to] = sim.last_arrival_us[to].max(arrive_us);
                sim.seq += 1;
                let seq = sim.seq;
                sim.in_flight[to].push(InFlight { arrive_us, seq, wire_idx, bytes: data, corrupted });
            };
            if kind_bit == 2 {
                let n = self.ack_count[from];
                self.ack_count[from] += 1;
                if let Fate::Deliver(extra) = &fate {
                    let dups: Vec<u32> = self.dup_acks[from].iter().filter(|d| d.0 == n).map(|d| d.1).collect();
                    for d in dups {
                        // the copy is queued after the original (same arrival time => handled right after it)
                        let at = base + *extra as u64 + d as u64;
                        self.seq += 1;
                        let seq = self.seq + 1_000_000_000;
                        self.in_flight[to].push(InFlight { arrive_us: at, seq, wire_idx, bytes: bytes.clone(), corrupted: false });
                    }
                }
            }
            match &fate {
                Fate::Deliver(extra) => push(self, base + *extra as u64, bytes.clone(), false),
                Fate::Drop => self.trace.frames_dropped += 1,
                Fate::Dup(e1, e2) => {
                    self.trace.frames_duplicated += 1;
                    push(self, base + *e1 as u64, bytes.clone(), false);
                    push(self, base + *e2 as u64, bytes.clone(), false);
                }
                Fate::Corrupt(bits) => {
                    let mut data = bytes.to_vec();
                    let nbits = data.len() * 8;
                    let mut pos: Vec<usize> = bits.iter().take(4).map(|b| crate::engine::pick_index(*b, nbits)).collect();
                    pos.sort();
                    pos.dedup();
                    for p in &pos {
                        data[p / 8] ^= 1 << (p % 8);
                    }
                    let changed = !pos.is_empty();
                    if changed {
                        self.trace.frames_corrupted += 1;
                    }
                    push(self, base, data.into_boxed_slice(), changed);
                }
            }
            let evs = self.next_ev();
            if self.record_wire {
                self.trace.wire[from].push(WireRec { seq: evs, t_us: self.now_us, tick: self.tick_no, epoch: self.epoch[from], bytes, fate, fair: self.fair });
            } else {
                self.trace.wire[from].push(WireRec { seq: evs, t_us: self.now_us, tick: self.tick_no, epoch: self.epoch[from], bytes: Box::new([]), fate, fair: self.fair });
            }
        }
    }

    pub fn flush(&mut self, e: usize) {
        let mut sink = CollectSink { frames: Vec::new() };
        self.hc[e].flush(&mut sink);
        self.put_on_link(e, sink.frames);
    }

    /// Hands one frame to endpoint e the way Client/Server do.
    pub fn handle_bytes(&mut self, e: usize, bytes: &[u8]) -> bool {
        match Frame::read(bytes) {
            Some(Frame::DataFrame(f)) => {
                self.hc[e].handle_data_frame(f);
                true
            }
            Some(Frame::SyncFrame(f)) => {
                self.hc[e].handle_sync_frame(f);
                true
            }
            Some(Frame::AckFrame(f)) => {
                self.hc[e].handle_ack_frame(f);
                true
            }
            Some(_) => true,
            None => false,
        }
    }

    pub fn deliver_arrived(&mut self, e: usize) {
        while let Some(top) = self.in_flight[e].peek() {
            if top.arrive_us > self.now_us {
                break;
            }
            let mut f = self.in_flight[e].pop().unwrap();
            if !f.corrupted && f.bytes.first() == Some(&12) && !self.ext_acks[e].is_empty() {
                let n = self.acks_handled[e];
                self.acks_handled[e] += 1;
                if let Some(sel) = self.ext_acks[e].iter().find(|p| p.0 == n || p.0 == 0xFFFF).map(|p| p.1.rotate_left(n)) {
                    if let Some(b) = self.extend_ack(e, &f.bytes, sel) {
                        f.bytes = b;
                        self.acks_extended += 1;
                    }
                }
            }
            if !f.corrupted && f.bytes.first() == Some(&12) {
                if let Some(Frame::AckFrame(a)) = Frame::read(&f.bytes) {
                    self.last_ack_frame_base[e] = Some(a.frame_window_base_id);
                }
            }
            let accepted = self.handle_bytes(e, &f.bytes);
            let evs = self.next_ev();
            self.trace.handled[e].push(HandledRec { seq: evs, t_us: self.now_us, epoch: self.epoch[e], wire_idx: f.wire_idx, corrupted: f.corrupted, accepted });
        }
    }

    /// A genuine ack frame about to be handed to endpoint `e`, with bits added to its groups for frames which `e`
    /// has already seen acknowledged: a repeated acknowledgement bundled with fresh ones. Only frames still in
    /// e's sent-frame log qualify, the whole (possibly longer) span must be in the log, and no frame the span gains
    /// may carry the rate-limited mark - under these preconditions the sender code provably treats the extended
    /// group like the original (same validation outcome, the added claims are skipped as already acknowledged).
    fn extend_ack(&self, e: usize, bytes: &[u8], sel: u32) -> Option<Box<[u8]>> {
        use uflow::verif::Serialize as _;
        let Some(Frame::AckFrame(mut a)) = Frame::read(bytes) else { return None };
        let mut changed = false;
        for (gi, g) in a.frame_acks.iter_mut().enumerate() {
            if g.bitfield == 0 {
                continue;
            }
            let size = 32 - g.bitfield.leading_zeros();
            // the original span must be entirely in the log (else both versions are rejected alike; nothing to learn)
            if !(0..size).all(|j| self.hc[e].verif_sent_frame(g.base_id.wrapping_add(j)).is_some()) {
                continue;
            }
            let mut bits = g.bitfield;
            let mut nonce = g.nonce;
            // clear positions inside the span
            for j in 0..size {
                if bits & (1 << j) == 0 {
                    if let Some((true, n, _)) = self.hc[e].verif_sent_frame(g.base_id.wrapping_add(j)) {
                        if (sel >> ((j + gi as u32) % 32)) & 1 == 1 {
                            bits |= 1 << j;
                            nonce ^= n;
                        }
                    }
                }
            }
            // positions beyond the span
            let mut pending_nonce = false;
            let mut pending_bits = 0u32;
            for j in size..32 {
                match self.hc[e].verif_sent_frame(g.base_id.wrapping_add(j)) {
                    Some((acked, n, false)) => {
                        if acked && (sel >> ((j + 7 * gi as u32) % 32)) & 1 == 1 {
                            pending_bits |= 1 << j;
                            pending_nonce ^= n;
                            // commit everything up to here
                            bits |= pending_bits;
                            nonce ^= pending_nonce;
                            pending_bits = 0;
                            pending_nonce = false;
                        }
                    }
                    _ => break,
                }
            }
            if bits != g.bitfield {
                if std::env::var_os("VERIF_DEBUG").is_some() {
                    eprintln!("t={} ep{} extend group base={} bits {:#b} -> {:#b} nonce {} -> {}; states {:?}", self.now_us, e, g.base_id, g.bitfield, bits, g.nonce, nonce, (0..8).map(|j| self.hc[e].verif_sent_frame(g.base_id.wrapping_add(j))).collect::<Vec<_>>());
                }
                g.bitfield = bits;
                g.nonce = nonce;
                changed = true;
            }
        }
        if changed {
            Some(Frame::AckFrame(a).write())
        } else {
            None
        }
    }

    pub fn snapshot(&mut self, e: usize) {
        if !self.record_stats {
            return;
        }
        let evs = self.next_ev();
        let st = StepStat {
            seq: evs,
            t_us: self.now_us,
            tick: self.tick_no,
            epoch: self.epoch[e],
            send_buffer_size: self.hc[e].send_buffer_size(),
            send_pending: self.hc[e].is_send_pending(),
            rtt_s: self.hc[e].rtt_s(),
            v: self.hc[e].verif_stats(),
        };
        self.trace.stats[e].push(st);
    }

    /// flush(); handle every frame that has arrived; step(); receive()
    pub fn endpoint_step(&mut self, e: usize) {
        self.flush(e);
        self.deliver_arrived(e);
        self.hc[e].step();
        self.epoch[e] += 1;
        let evs = self.next_ev();
        self.trace.steps[e].push((evs, self.now_us));
        let mut ps = CollectPackets { packets: Vec::new() };
        self.hc[e].receive(&mut ps);
        for p in ps.packets {
            self.trace.delivs[e].push(Deliv { t_us: self.now_us, tick: self.tick_no, data: p });
        }
        self.snapshot(e);
    }

    pub fn submit(&mut self, e: usize, s: &SendSpec) -> u32 {
        let idx = self.next_idx[e];
        self.next_idx[e] += 1;
        let data = payload(self.seed, e, idx, s.ch, s.mode, s.size as usize);
        let evs = self.next_ev();
        self.trace.subs[e].push(Sub { seq: evs, idx, tick: self.tick_no, epoch: self.epoch[e], t_us: self.now_us, ch: s.ch, mode: s.mode, size: s.size });
        self.hc[e].send(data.into_boxed_slice(), s.ch, mode_of(s.mode));
        idx
    }

    pub fn run_tick(&mut self, t: &Tick) {
        self.advance(t.dt_us);
        for e in 0..2 {
            let act = &t.acts[e];
            if act.step {
                self.endpoint_step(e);
            }
            for s in act.sends.iter() {
                self.submit(e, s);
            }
            for _ in 0..act.flushes {
                self.flush(e);
            }
            if !act.sends.is_empty() || act.flushes > 0 {
                self.snapshot(e);
            }
        }
        if !self.premature.is_empty() {
            let due: Vec<(usize, u32)> = self.premature.iter().filter(|p| p.0 == self.tick_no).map(|p| (p.1, p.2)).collect();
            for (e, ahead) in due {
                self.inject_premature_ack(e, ahead);
            }
        }
        self.tick_no += 1;
    }

    /// Nothing left to send or to be acknowledged on either side and no data frame still
    /// travelling (acks / sync / keepalive frames may be).
    pub fn quiescent(&self) -> bool {
        (0..2).all(|e| !self.hc[e].is_send_pending() && self.hc[e].send_buffer_size() == 0 && !self.in_flight[e].iter().any(|f| f.bytes.first() == Some(&10)))
    }

    /// Fair phase: no faults, both endpoints step every `step_us` until quiescent or `max_us`.
    pub fn run_tail(&mut self, tail: &Tail) {
        self.fair = true;
        let start = self.now_us;
        self.trace.tail_start_us = Some(start);
        let step = tail.step_us.max(1) as u64;
        loop {
            self.advance(step);
            for e in 0..2 {
                self.endpoint_step(e);
            }
            self.tick_no += 1;
            if self.quiescent() {
                // let the last acknowledgements land and be processed
                self.trace.tail_quiescent = true;
                break;
            }
            if self.now_us - start >= tail.max_us {
                break;
            }
        }
    }

    /// Fair phase driven by progress: both endpoints step every `step_us`; ends when quiescent,
    /// when no progress indicator has moved for `stall_us` of virtual time, or at `cap_us`.
    pub fn run_tail_progress(&mut self, step_us: u64, stall_us: u64, cap_us: u64) -> TailOutcome {
        self.fair = true;
        let start = self.now_us;
        self.trace.tail_start_us = Some(start);
        let step = step_us.max(1);
        let mut chatter = self.chatter.clone();
        let mut last_chat_us = 0u64;
        let mut last_sig = match &chatter {
            Some(c) => self.direction_signature(1 - c.e as usize),
            None => self.progress_signature(),
        };
        let mut last_progress_us = self.now_us;
        // largest credit of the silent endpoint over the most recent one to two thirds of the stall window (two buckets)
        let mut credit_buckets = (i64::MIN, i64::MIN, self.now_us);
        let mut iterations = 0u32;
        loop {
            iterations += 1;
            if iterations > self.tail_stats_steps {
                self.record_stats = false;
            }
            // the generated cadence is used for the first 30 virtual seconds; afterwards at least
            // 20 ms, and at least 100 ms while nothing has moved for 5 s (any cadence is a valid
            // schedule); this keeps hour-long crawls at the TFRC floor rate affordable
            let idle = self.now_us - last_progress_us;
            let cur = if idle > 5_000_000 {
                step.max(100_000)
            } else if self.now_us - start > 30_000_000 {
                step.max(20_000)
            } else {
                step
            };
            self.advance(cur);
            if let Some(c) = &chatter {
                let other = 1 - c.e as usize;
                if self.direction_quiescent(other) {
                    // the other direction is done: the talker stops and the ordinary tail takes over
                    chatter = None;
                    last_sig = self.progress_signature();
                    last_progress_us = self.now_us;
                } else if self.now_us - last_chat_us >= c.gap_us as u64 {
                    last_chat_us = self.now_us;
                    self.chatter_packets += 1;
                    self.submit(c.e as usize, &SendSpec { ch: c.ch, mode: c.mode, size: c.size as u32 });
                }
            }
            for e in 0..2 {
                self.endpoint_step(e);
            }
            self.tick_no += 1;
            if chatter.is_none() && self.quiescent() {
                self.trace.tail_quiescent = true;
                return TailOutcome::Quiescent;
            }
            let sig = match &chatter {
                Some(c) => self.direction_signature(1 - c.e as usize),
                None => self.progress_signature(),
            };
            if let Some(c) = &chatter {
                if self.now_us - credit_buckets.2 >= stall_us / 3 {
                    credit_buckets = (credit_buckets.1, i64::MIN, self.now_us);
                }
                credit_buckets.1 = credit_buckets.1.max(self.hc[1 - c.e as usize].verif_stats().flush_alloc as i64);
            }
            if sig != last_sig {
                last_sig = sig;
                last_progress_us = self.now_us;
            } else if self.now_us - last_progress_us >= stall_us {
                if chatter.is_some() {
                    self.chatter_stall_max_credit = Some(credit_buckets.0.max(credit_buckets.1));
                }
                return TailOutcome::Stalled { since_us: last_progress_us };
            }
            if self.now_us - start >= cap_us {
                return TailOutcome::Cap;
            }
        }
    }

    /// Is a data frame still travelling towards endpoint e?
    pub fn data_in_flight_to(&self, e: usize) -> bool {
        self.in_flight[e].iter().any(|f| f.bytes.first() == Some(&10))
    }

    /// Sender `s` has nothing left to send or to be acknowledged and none of its data frames is travelling.
    pub fn direction_quiescent(&self, s: usize) -> bool {
        !self.hc[s].is_send_pending() && self.hc[s].send_buffer_size() == 0 && !self.in_flight[1 - s].iter().any(|f| f.bytes.first() == Some(&10))
    }

    /// Things that move when direction s -> 1-s makes headway.
    pub fn direction_signature(&self, s: usize) -> Vec<u64> {
        let st = self.hc[s].verif_stats();
        let rt = self.hc[1 - s].verif_stats();
        vec![
            self.trace.delivs[1 - s].len() as u64,
            self.hc[s].send_buffer_size() as u64,
            st.send_queue_len as u64,
            st.pending_queue_len as u64,
            st.resend_queue_len as u64,
            st.tx_alloc as u64,
            rt.rx_alloc as u64,
        ]
    }

    /// Things that move when the connection makes headway (sync / keepalive frames do not count).
    pub fn progress_signature(&self) -> Vec<u64> {
        let mut v = vec![self.trace.delivs[0].len() as u64, self.trace.delivs[1].len() as u64];
        for e in 0..2 {
            let st = self.hc[e].verif_stats();
            v.push(self.hc[e].send_buffer_size() as u64);
            v.push(st.send_queue_len as u64);
            v.push(st.pending_queue_len as u64);
            v.push(st.resend_queue_len as u64);
            v.push(st.tx_alloc as u64);
            v.push(st.rx_alloc as u64);
        }
        v
    }

    pub fn run(sc: &PairScenario) -> Trace {
        let mut sim = SimPair::new(sc);
        for t in sc.ticks.iter() {
            sim.run_tick(t);
        }
        if let Some(tail) = &sc.tail {
            sim.run_tail(tail);
        }
        sim.trace.end_us = sim.now_us;
        sim.trace
    }

    pub fn finish(mut self) -> Trace {
        self.trace.end_us = self.now_us;
        self.trace
    }
}
