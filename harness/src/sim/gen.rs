//! proptest strategies for SimPair scenarios.

use super::pair::*;
use proptest::prelude::*;

#[derive(Clone, Debug)]
pub struct GenParams {
    pub max_ticks: usize,
    pub max_sends: usize,
    /// largest packet in fragments (sizes are boundary-biased up to this)
    pub max_frags: u32,
    /// weight of faulty fates (0 = ideal network)
    pub faults: bool,
    /// allow extra per-frame delays (reordering)
    pub reorder: bool,
    pub max_latency_us: u32,
    pub small_windows: bool,
    pub low_bandwidth: bool,
    pub tail: bool,
    pub both_directions: bool,
    pub modes: [u32; 4],
    pub max_fates: usize,
    pub tight_alloc: bool,
    /// tails in which one application keeps talking (see `Tail::chatter`)
    pub chatter: bool,
    /// weight of the stalled-receiving-application tick shape (the other shapes weigh 18 together)
    pub stall_weight: u32,
}

impl Default for GenParams {
    fn default() -> Self {
        GenParams {
            max_ticks: 40,
            max_sends: 6,
            max_frags: 4,
            faults: true,
            reorder: true,
            max_latency_us: 200_000,
            small_windows: true,
            low_bandwidth: false,
            tail: true,
            both_directions: true,
            modes: [1, 2, 2, 3],
            max_fates: 200,
            tight_alloc: true,
            chatter: false,
            stall_weight: 3,
        }
    }
}

pub fn size_strategy(max_frags: u32) -> BoxedStrategy<u32> {
    let f = FRAG as u32;
    let mf = max_frags.max(1);
    prop_oneof![
        2 => Just(0u32),
        3 => 1u32..4,
        10 => 4u32..64,
        5 => 64u32..300,
        2 => 300u32..f,
        3 => (1u32..=mf, prop_oneof![Just(-1i32), Just(0), Just(1)]).prop_map(move |(k, d)| ((k * f) as i32 + d).max(0) as u32).prop_map(move |v| v.min(mf * f)),
        1 => (f + 2)..=(mf * f).max(f + 3),
    ]
    .boxed()
}

pub fn send_strategy(p: &GenParams) -> BoxedStrategy<SendSpec> {
    let m = p.modes;
    (
        prop_oneof![3 => 0u8..3, 2 => 0u8..64, 1 => Just(63u8)],
        prop_oneof![m[0] => Just(0u8), m[1] => Just(1u8), m[2] => Just(2u8), m[3] => Just(3u8)],
        size_strategy(p.max_frags),
    )
        .prop_map(|(ch, mode, size)| SendSpec { ch, mode, size })
        .boxed()
}

pub fn fate_strategy(p: &GenParams, deliver_weight: u32) -> BoxedStrategy<Fate> {
    if !p.faults {
        return Just(Fate::Deliver(0)).boxed();
    }
    let delay = if p.reorder { prop_oneof![8 => Just(0u32), 4 => 0u32..20_000, 2 => 20_000u32..400_000, 1 => 400_000u32..3_000_000].boxed() } else { Just(0u32).boxed() };
    let d2 = delay.clone();
    let d3 = delay.clone();
    prop_oneof![
        deliver_weight => delay.prop_map(Fate::Deliver),
        3 => Just(Fate::Drop),
        2 => (d2, d3).prop_map(|(a, b)| Fate::Dup(a, b)),
        1 => proptest::collection::vec(any::<u16>(), 1..=4).prop_map(Fate::Corrupt),
    ]
    .boxed()
}

pub fn link_strategy(p: &GenParams) -> BoxedStrategy<LinkCfg> {
    let lat = prop_oneof![2 => Just(0u32), 4 => 0u32..3_000, 4 => 3_000u32..30_000, 2 => 30_000u32..=p.max_latency_us.max(30_001), 1 => Just(p.max_latency_us)];
    // fate scripts: independent per-frame fates of a per-link intensity, or bursts of loss
    let fates = if p.faults {
        let max = p.max_fates;
        prop_oneof![
            3 => proptest::collection::vec(fate_strategy(p, 300), 0..max),
            4 => proptest::collection::vec(fate_strategy(p, 60), 0..max),
            2 => proptest::collection::vec(fate_strategy(p, 20), 0..max),
            1 => proptest::collection::vec(fate_strategy(p, 8), 0..max),
            2 => (proptest::collection::vec(fate_strategy(p, 30), 0..60), 1usize..80, proptest::collection::vec(fate_strategy(p, 30), 0..60)).prop_map(|(a, n, b)| {
                let mut v = a;
                v.extend(std::iter::repeat(Fate::Drop).take(n));
                v.extend(b);
                v
            }),
            1 => Just(Vec::new()),
        ]
        .boxed()
    } else {
        Just(Vec::new()).boxed()
    };
    (lat, fates).prop_map(|(latency_us, fates)| LinkCfg { latency_us, fates }).boxed()
}

pub fn dir_strategy(p: &GenParams) -> BoxedStrategy<DirCfg> {
    let win = if p.small_windows {
        prop_oneof![2 => Just(0u8), 2 => Just(1u8), 2 => Just(2u8), 2 => Just(3u8), 1 => 4u8..12, 3 => Just(12u8)].boxed()
    } else {
        Just(12u8).boxed()
    };
    let fwin = if p.small_windows {
        prop_oneof![1 => Just(0u8), 1 => Just(1u8), 2 => Just(2u8), 2 => Just(3u8), 2 => 4u8..12, 6 => Just(12u8)].boxed()
    } else {
        Just(12u8).boxed()
    };
    let pkt_base = prop_oneof![
        2 => 0u32..=PKT_MASK,
        3 => (0u32..50).prop_map(|d| PKT_MASK.wrapping_sub(d) & PKT_MASK),
        2 => (0u32..9000).prop_map(|d| PKT_MASK.wrapping_sub(d) & PKT_MASK),
        1 => Just(0u32),
    ];
    let frm_base = prop_oneof![
        2 => any::<u32>(),
        3 => (0u32..30).prop_map(|d| u32::MAX - d),
        2 => (0u32..9000).prop_map(|d| u32::MAX - d),
        1 => Just(0u32),
    ];
    let bw = if p.low_bandwidth {
        prop_oneof![2 => 1472u32..20_000, 2 => 20_000u32..500_000, 2 => 500_000u32..20_000_000, 1 => Just(u32::MAX)].boxed()
    } else {
        prop_oneof![1 => 200_000u32..2_000_000, 3 => 2_000_000u32..100_000_000, 1 => Just(u32::MAX)].boxed()
    };
    let alloc = if p.tight_alloc {
        prop_oneof![3 => Just(0u32), 2 => 0u32..20_000, 2 => 20_000u32..2_000_000, 1 => Just(u32::MAX)].boxed()
    } else {
        prop_oneof![1 => 1_000_000u32..8_000_000, 1 => Just(u32::MAX)].boxed()
    };
    (win, fwin, pkt_base, frm_base, alloc, bw)
        .prop_map(|(pkt_win_log2, frm_win_log2, pkt_base, frm_base, alloc_limit, bw_limit)| DirCfg { pkt_win_log2, frm_win_log2, pkt_base, frm_base, alloc_limit, bw_limit })
        .boxed()
}

pub fn act_strategy(p: &GenParams, active: bool) -> BoxedStrategy<EpAct> {
    let sends = if active {
        prop_oneof![
            10 => Just(Vec::new()),
            4 => proptest::collection::vec(send_strategy(p), 1..=p.max_sends.max(1)),
            1 => proptest::collection::vec(send_strategy(p), p.max_sends.max(1)..=(4 * p.max_sends.max(1))),
        ]
        .boxed()
    } else {
        Just(Vec::new()).boxed()
    };
    (prop_oneof![6 => Just(true), 1 => Just(false)], sends, prop_oneof![3 => Just(0u8), 3 => Just(1u8), 1 => 2u8..4]).prop_map(|(step, sends, flushes)| EpAct { step, sends, flushes }).boxed()
}

/// Tick spacing relative to the scenario's base period: applications step at a roughly regular
/// cadence, with jitter, occasional back-to-back steps (dt = 0) and occasional long pauses.
#[derive(Clone, Debug)]
pub enum DtSel {
    Regular(u16),
    Zero,
    Sub(u16),
    Pause(u16),
}

fn dtsel_strategy(irregular: bool) -> BoxedStrategy<DtSel> {
    if irregular {
        prop_oneof![6 => (500u16..1500).prop_map(DtSel::Regular), 2 => Just(DtSel::Zero), 2 => (1u16..500).prop_map(DtSel::Sub), 2 => (2u16..60).prop_map(DtSel::Pause)].boxed()
    } else {
        prop_oneof![30 => (700u16..1300).prop_map(DtSel::Regular), 1 => Just(DtSel::Zero), 1 => (1u16..500).prop_map(DtSel::Sub), 1 => (2u16..40).prop_map(DtSel::Pause)].boxed()
    }
}

pub fn resolve_dt(period_us: u64, sel: &DtSel) -> u64 {
    match sel {
        DtSel::Regular(permille) => period_us * (*permille as u64) / 1000,
        DtSel::Zero => 0,
        DtSel::Sub(permille) => period_us * (*permille as u64) / 1000,
        DtSel::Pause(mult) => (period_us * (*mult as u64)).min(5_000_000),
    }
}

pub fn tick_strategy(p: &GenParams) -> BoxedStrategy<Tick> {
    let dt = prop_oneof![2 => Just(0u64), 2 => 1u64..1000, 12 => 1_000u64..20_000, 4 => 20_000u64..100_000, 2 => 100_000u64..1_000_000, 1 => 1_000_000u64..3_000_000];
    (dt, act_strategy(p, true), act_strategy(p, p.both_directions)).prop_map(|(dt_us, a, b)| Tick { dt_us, acts: [a, b] }).boxed()
}

fn ticks_strategy(p: &GenParams) -> BoxedStrategy<Vec<Tick>> {
    let period = prop_oneof![2 => Just(1_000u64), 3 => Just(5_000u64), 4 => Just(10_000u64), 4 => Just(16_000u64), 4 => Just(30_000u64), 2 => Just(60_000u64), 1 => Just(150_000u64), 1 => Just(500_000u64)];
    let regular = (period.clone(), proptest::collection::vec((dtsel_strategy(false), act_strategy(p, true), act_strategy(p, p.both_directions)), 1..=p.max_ticks.max(1)))
        .prop_map(|(period, v)| v.into_iter().map(|(sel, a, b)| Tick { dt_us: resolve_dt(period, &sel), acts: [a, b] }).collect::<Vec<Tick>>());
    let irregular = (period.clone(), proptest::collection::vec((dtsel_strategy(true), act_strategy(p, true), act_strategy(p, p.both_directions)), 1..=p.max_ticks.max(1)))
        .prop_map(|(period, v)| v.into_iter().map(|(sel, a, b)| Tick { dt_us: resolve_dt(period, &sel), acts: [a, b] }).collect::<Vec<Tick>>());
    let wild = proptest::collection::vec(tick_strategy(p), 1..=p.max_ticks.max(1));
    // a stalled receiving application: after some regular traffic one endpoint submits a few packets and falls
    // silent while the other application does not call step() for 2-7 s (the silent sender keeps stepping and
    // emits its sync frames into the stalled side's socket buffer); then regular traffic resumes
    let half = (p.max_ticks.max(2) / 2).max(1);
    let stall = (
        period,
        prop_oneof![2 => proptest::collection::vec((dtsel_strategy(false), act_strategy(p, true), act_strategy(p, p.both_directions)), 0..=3), 1 => proptest::collection::vec((dtsel_strategy(false), act_strategy(p, true), act_strategy(p, p.both_directions)), 0..=half)],
        (any::<bool>(), proptest::collection::vec((send_strategy(p), prop_oneof![1 => Just(None), 1 => Just(Some(1u8)), 1 => Just(Some(0u8))]), 1..=3).prop_map(|v| v.into_iter().map(|(mut s, m)| { if let Some(m) = m { s.mode = m; } s }).collect::<Vec<SendSpec>>()), prop_oneof![Just(0u8), Just(1u8)]),
        (prop_oneof![Just(50_000u64), Just(100_000u64), Just(250_000u64), Just(500_000u64)], 2_000_000u64..7_000_000),
        proptest::collection::vec((dtsel_strategy(false), act_strategy(p, true), act_strategy(p, p.both_directions)), 1..=half),
    )
        .prop_map(|(period, pre, (sender_is_0, lone, flushes), (stall_dt, stall_total), post)| {
            let mut ticks: Vec<Tick> = pre.into_iter().map(|(sel, a, b)| Tick { dt_us: resolve_dt(period, &sel), acts: [a, b] }).collect();
            let s = if sender_is_0 { 0 } else { 1 };
            let mut acts = [EpAct { step: true, sends: Vec::new(), flushes: 0 }, EpAct { step: true, sends: Vec::new(), flushes: 0 }];
            acts[s].sends = lone;
            acts[s].flushes = flushes;
            ticks.push(Tick { dt_us: period, acts });
            let mut t = 0;
            while t < stall_total {
                let mut acts = [EpAct { step: true, sends: Vec::new(), flushes: 0 }, EpAct { step: true, sends: Vec::new(), flushes: 0 }];
                acts[1 - s].step = false;
                ticks.push(Tick { dt_us: stall_dt, acts });
                t += stall_dt;
            }
            ticks.extend(post.into_iter().map(|(sel, a, b)| Tick { dt_us: resolve_dt(period, &sel), acts: [a, b] }));
            ticks
        });
    prop_oneof![12 => regular, 4 => irregular, 2 => wild, p.stall_weight.max(1) => stall].boxed()
}

pub fn scenario_strategy(p: &GenParams) -> BoxedStrategy<PairScenario> {
    let tail = if p.tail {
        let chatter = if p.chatter {
            proptest::option::weighted(
                0.4,
                (0u8..2, prop_oneof![3 => 0u8..3, 1 => 0u8..64], prop_oneof![2 => Just(0u8), 3 => Just(1u8), 1 => Just(2u8), 1 => Just(3u8)], prop_oneof![4 => 1u16..40, 1 => 40u16..1400], prop_oneof![3 => Just(0u32), 2 => 20_000u32..400_000, 2 => 400_000u32..1_500_000])
                    .prop_map(|(e, ch, mode, size, gap_us)| Chatter { e, ch, mode, size, gap_us }),
            )
            .boxed()
        } else {
            Just(None).boxed()
        };
        (prop_oneof![Just(1_000u32), Just(10_000u32), Just(16_000u32), Just(30_000u32), Just(100_000u32)], chatter).prop_map(|(step_us, chatter)| Some(Tail { step_us, max_us: 0, chatter })).boxed()
    } else {
        Just(None).boxed()
    };
    (
        (dir_strategy(p), dir_strategy(p)),
        proptest::option::weighted(0.7, prop_oneof![Just(100u32), Just(1000u32), Just(5000u32)]),
        any::<u64>(),
        (0u8..64, 0u8..4),
        (link_strategy(p), link_strategy(p)),
        ticks_strategy(p),
        tail,
        // an old connection: before the generated history both endpoints idle until shortly before their millisecond
        // clocks (counted from the creation of the connection) reach a power of two - 2^32 ms are 49.7 days
        proptest::option::weighted(0.08, (prop_oneof![5 => Just(32u8), 1 => Just(31u8), 1 => Just(24u8), 1 => Just(16u8), 2 => Just(33u8)], prop_oneof![2 => 0u32..300, 3 => 300u32..3000, 2 => 3000u32..12_000], prop_oneof![3 => Just(0u8), 1 => 33u8..36])),
    )
        .prop_map(|((d0, d1), keepalive_ms, seed, (zero_ch, zero_mode), (l0, l1), mut ticks, tail, age)| {
            let (mut d0, mut d1, mut l0, mut l1) = (d0, d1, l0, l1);
            if let Some((_, _, fast_pow)) = age.filter(|a| a.2 > 0) {
                // a FAST connection whose applications are suspended for months: a loss-free warm-up exchange over a short
                // link brings both allowed rates to a megabyte per second or more, everything is delivered and
                // acknowledged (three seconds of stepping without traffic, so no round-trip sample can span the pause),
                // then nobody calls step() for 2^33..2^35 ms, then the generated history runs
                for d in [&mut d0, &mut d1] {
                    d.bw_limit = d.bw_limit.max(8_000_000);
                    d.alloc_limit = d.alloc_limit.max(2_000_000);
                    d.pkt_win_log2 = 12;
                    d.frm_win_log2 = 12;
                }
                for l in [&mut l0, &mut l1] {
                    l.latency_us = l.latency_us.min(3_000);
                    let mut f = vec![Fate::Deliver(0); 6000];
                    f.append(&mut l.fates);
                    l.fates = f;
                }
                let idle = EpAct { step: true, sends: Vec::new(), flushes: 0 };
                let mut pre = vec![Tick { dt_us: 1000, acts: [idle.clone(), idle.clone()] }];
                for _ in 0..40 {
                    let burst = EpAct { step: true, sends: (0..20).map(|_| SendSpec { ch: 1, mode: 3, size: 1000 }).collect(), flushes: 1 };
                    pre.push(Tick { dt_us: 10_000, acts: [burst.clone(), burst] });
                }
                for _ in 0..150 {
                    pre.push(Tick { dt_us: 20_000, acts: [idle.clone(), idle.clone()] });
                }
                pre.push(Tick { dt_us: (1u64 << fast_pow) * 1000, acts: [idle.clone(), idle] });
                pre.append(&mut ticks);
                ticks = pre;
            } else if let Some((pow, before_ms, _)) = age {
                // both endpoints are stepped once right after they were created (as Client / Server do), then they idle.
                // (The idle period comes before any traffic: a pause of weeks with frames in flight yields round-trip
                // samples of weeks, after which every timer of the protocol legitimately runs on that scale.)
                let idle = EpAct { step: true, sends: Vec::new(), flushes: 0 };
                let dt_ms = (1u64 << pow).saturating_sub(before_ms as u64);
                ticks.insert(0, Tick { dt_us: dt_ms * 1000, acts: [idle.clone(), idle.clone()] });
                ticks.insert(0, Tick { dt_us: 1000, acts: [idle.clone(), idle] });
            }
            let mut sc = PairScenario { dirs: [d0, d1], keepalive_ms, seed, zero_ch, zero_mode, links: [l0, l1], ticks, tail, premature_acks: Vec::new() };
            sc.normalize();
            sc
        })
        .boxed()
}

/// Total payload bytes submitted in direction d.
pub fn total_bytes(sc: &PairScenario, d: usize) -> u64 {
    sc.ticks.iter().map(|t| t.acts[d].sends.iter().map(|s| s.size as u64).sum::<u64>()).sum()
}

pub fn total_packets(sc: &PairScenario, d: usize) -> u64 {
    sc.ticks.iter().map(|t| t.acts[d].sends.len() as u64).sum()
}

/// Bulk shape: 4096-entry windows, high ceilings, streams of tiny packets on a few channels with rare
/// Reliable ones (so parent leads grow into the hundreds), acks a few ticks behind. `faults` selects the
/// scripted link faults of the base scenario (thinned in half of the cases) or a loss-free network.
pub fn bulk_scenario_strategy(max_per_tick: usize, max_ticks: usize, faults: bool, tail: bool) -> BoxedStrategy<PairScenario> {
    let bulk_send = |tiny: bool| {
        let size = if tiny { (0u32..6).boxed() } else { (4u32..48).boxed() };
        (prop_oneof![6 => 0u8..4, 1 => 0u8..64], prop_oneof![40 => Just(1u8), 40 => Just(2u8), 10 => Just(0u8), 1 => Just(3u8)], size).prop_map(|(ch, mode, size)| SendSpec { ch, mode, size })
    };
    // (the longer cadences let slow start ramp up while the link is still faulty: at 2-16 ms per tick nearly all of a
    // bulk history is transmitted in the fair phase)
    let dt = || prop_oneof![2 => Just(2_000u64), 2 => Just(5_000u64), 3 => Just(16_000u64), 3 => Just(50_000u64), 2 => Just(120_000u64)];
    let plain_tick = (dt(), proptest::collection::vec(bulk_send(false), 20..max_per_tick.max(21)), any::<bool>()).prop_map(|(dt_us, sends, rev)| (dt_us, sends, rev));
    // bursts of packets so small that well over a hundred of them fit one frame
    let tiny_tick = (dt(), proptest::collection::vec(bulk_send(true), 100..(2 * max_per_tick).max(320)), any::<bool>()).prop_map(|(dt_us, sends, rev)| (dt_us, sends, rev));
    // parent leads at the field widths of the datagram headers: a Reliable packet on channel c, then exactly lead-1
    // packets none of which is Reliable on c (one Reliable packet on another channel among the last hundred keeps the
    // window parent lead short), then a small packet on c
    let lead_tick = (dt(), 0u8..4, prop_oneof![1 => Just(126u32), 2 => Just(127), 4 => Just(128), 2 => Just(129), 1 => Just(254), 2 => Just(255), 6 => Just(256), 2 => Just(257), 1 => Just(258)], proptest::collection::vec(bulk_send(false), 260), 1u32..100, any::<bool>(), 4u32..60).prop_map(|(dt_us, c, lead, fill, back, rev, psize)| {
        let d = (c + 1) % 4;
        let mut sends = vec![SendSpec { ch: c, mode: 3, size: 8 }];
        for (i, mut f) in fill.into_iter().take(lead as usize - 1).enumerate() {
            if f.ch == c && f.mode == 3 {
                f.mode = 2;
            }
            if i as u32 + 1 + back.min(lead - 1) == lead - 1 {
                f = SendSpec { ch: d, mode: 3, size: 8 };
            }
            sends.push(f);
        }
        sends.push(SendSpec { ch: c, mode: 1, size: psize });
        (dt_us, sends, rev)
    });
    let bulk_tick = prop_oneof![5 => plain_tick, 2 => tiny_tick, 3 => lead_tick].prop_map(|(dt_us, sends, rev)| {
        let a = EpAct { step: true, sends, flushes: 1 };
        let b = EpAct { step: true, sends: Vec::new(), flushes: 1 };
        Tick { dt_us, acts: if rev { [b, a] } else { [a, b] } }
    });
    let q = GenParams { small_windows: false, tight_alloc: false, max_ticks: 2, max_latency_us: 60_000, faults, reorder: faults, tail, ..GenParams::default() };
    (scenario_strategy(&q), proptest::collection::vec(bulk_tick, 20..max_ticks.max(21)), any::<bool>())
        .prop_map(|(mut sc, ticks, thin)| {
            sc.ticks = ticks;
            for d in sc.dirs.iter_mut() {
                d.bw_limit = d.bw_limit.max(5_000_000);
            }
            if thin {
                for l in sc.links.iter_mut() {
                    for (k, f) in l.fates.iter_mut().enumerate() {
                        if k % 3 != 0 {
                            *f = Fate::Deliver(0);
                        }
                    }
                }
            }
            sc.normalize();
            sc
        })
        .boxed()
}
