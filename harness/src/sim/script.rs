//! WorldScript: generated op sequences over a Server and several Clients (send / disconnect /
//! disconnect_now / drop / step / flush on both endpoints, network faults, clock jumps), with a
//! complete log of API calls, events and wire traffic for the oracles of C08 / C09 / C19.

use super::world::*;
use proptest::prelude::*;
use serde::{Deserialize, Serialize};
use std::net::SocketAddr;

#[derive(Clone, Debug, Serialize, Deserialize)]
pub struct WClient {
    pub cfg: EpCfg,
    pub latency_us: [u32; 2],
    pub fates: [Vec<Fate>; 2],
    pub start_tick: u16,
}

#[derive(Clone, Debug, Serialize, Deserialize)]
pub enum WOp {
    /// advance the clock, then step the server and / or the clients selected by the mask
    Tick { dt_us: u32, server: bool, clients: u8 },
    ClientSend { c: u8, ch: u8, mode: u8, size: u16 },
    ServerSend { c: u8, ch: u8, mode: u8, size: u16 },
    ClientDisconnect { c: u8, now: bool },
    ServerDisconnect { c: u8, now: bool },
    ServerDrop { c: u8 },
    ClientFlush { c: u8 },
    ServerFlush,
    /// drop everything on client c's link in the given directions (bit 0 c->s, bit 1 s->c) for len_ms
    Blackout { c: u8, dirs: u8, len_ms: u32 },
    /// a late duplicate of a handshake / disconnect frame that really travelled between client c and the server
    /// earlier (selected among those on the wire so far), delivered again now in its original direction
    #[serde(alias = "ReplayHandshake")]
    ReplayControl { c: u8, to_server: bool, sel: u16 },
    /// a stray / spoofed frame that no endpoint sent, carrying the peer's address as its source: 0 Disconnect,
    /// 1 DisconnectAck, 2 HandshakeError, 3 SYN-ACK, 4 handshake ACK (the last three with the given, i.e. a wrong,
    /// nonce), 5 empty data frame, 6 keepalive sync, 7 empty ack frame
    Stray { c: u8, to_server: bool, kind: u8, nonce: u32 },
    /// the application behind client c drops its Client object and connects again from the same local address
    /// (a program bound to a fixed port that restarts, or gives up on a connection and tries again)
    Reconnect { c: u8 },
}

#[derive(Clone, Debug, Serialize, Deserialize)]
pub struct WCase {
    pub seed: u64,
    pub server: ServerCfg,
    pub clients: Vec<WClient>,
    pub ops: Vec<WOp>,
    /// after the ops, everybody keeps stepping at this cadence for this long (terminal events, lingering timers)
    pub settle_step_us: u32,
    pub settle_us: u64,
    /// the server application reads at most this many events of each step() and drops the iterator (documented as
    /// allowed: "all events are considered delivered, even if the iterator is not consumed until the end")
    #[serde(default)]
    pub server_event_limit: Option<u8>,
}

#[derive(Clone, Debug, PartialEq)]
pub enum Api {
    ClientSend { c: usize, idx: u32, ch: u8, mode: u8 },
    ServerSend { c: usize, idx: u32, ch: u8, mode: u8, accepted: bool },
    /// a zero-length Reliable packet (carries no identity; counted)
    ClientSendEmpty { c: usize },
    ServerSendEmpty { c: usize, accepted: bool },
    ClientDisconnect { c: usize, now: bool },
    ServerDisconnect { c: usize, now: bool },
    ServerDrop { c: usize },
}

pub struct WorldLog {
    pub world: World,
    pub api: Vec<(u64, u64, Api)>,
    /// client index by position in case.clients
    pub ci: Vec<Option<usize>>,
    pub max_step_gap_us: u64,
    pub end_us: u64,
    pub stray_count: u32,
    /// clients that connected again from the same address
    pub reconnects: u32,
}

#[derive(Clone, Debug)]
pub struct ScriptParams {
    pub max_clients: usize,
    pub max_ops: usize,
    pub faults: bool,
    pub disconnect_weight: u32,
    pub drop_weight: u32,
    pub send_weight: u32,
    pub timeouts: Vec<u32>,
    pub big_jumps: bool,
    pub settle_us: u64,
    /// weight of late duplicates of genuine handshake / disconnect frames
    pub replay_weight: u32,
    /// generate servers whose limits are at or below the number of clients, with handshake errors on or off
    pub vary_server_limits: bool,
    /// weight of stray / spoofed frames
    pub stray_weight: u32,
    /// weight of clients that connect again from the same address
    pub reconnect_weight: u32,
}

pub fn fate_strategy(faults: bool) -> BoxedStrategy<Fate> {
    fate_strategy_w(faults, 12)
}

pub fn fate_strategy_w(faults: bool, deliver_weight: u32) -> BoxedStrategy<Fate> {
    if !faults {
        return Just(Fate::Deliver(0)).boxed();
    }
    prop_oneof![
        deliver_weight => prop_oneof![4 => Just(0u32), 2 => 0u32..30_000, 1 => 30_000u32..2_000_000].prop_map(Fate::Deliver),
        3 => Just(Fate::Drop),
        2 => (0u32..50_000, 0u32..3_000_000).prop_map(|(a, b)| Fate::Dup(a, b)),
        1 => proptest::collection::vec(any::<u16>(), 1..=3).prop_map(Fate::Corrupt),
    ]
    .boxed()
}

pub fn wclient_strategy(p: &ScriptParams) -> BoxedStrategy<WClient> {
    let timeouts = p.timeouts.clone();
    (
        proptest::sample::select(timeouts),
        any::<bool>(),
        (prop_oneof![Just(0u32), 0u32..20_000, 20_000u32..200_000], prop_oneof![Just(0u32), 0u32..20_000, 20_000u32..200_000]),
        (proptest::collection::vec(fate_strategy(p.faults), 0..60), proptest::collection::vec(fate_strategy(p.faults), 0..60)),
        0u16..8,
    )
        .prop_map(|(active_timeout_ms, keepalive, (l0, l1), (f0, f1), start_tick)| WClient { cfg: EpCfg { active_timeout_ms, keepalive, keepalive_interval_ms: 1000, ..EpCfg::default() }, latency_us: [l0, l1], fates: [f0, f1], start_tick })
        .boxed()
}

pub fn wop_strategy(p: &ScriptParams) -> BoxedStrategy<WOp> {
    let nc = p.max_clients.max(1) as u8;
    let dt = if p.big_jumps {
        prop_oneof![2 => Just(0u32), 10 => 1_000u32..40_000, 4 => 40_000u32..400_000, 2 => 400_000u32..2_500_000, 1 => 2_500_000u32..25_000_000].boxed()
    } else {
        prop_oneof![1 => Just(0u32), 10 => 1_000u32..40_000, 3 => 40_000u32..400_000, 1 => 400_000u32..2_500_000].boxed()
    };
    // size 0 = a zero-length Reliable packet on channel 63
    let size = prop_oneof![1 => Just(0u16), 6 => 5u16..100, 2 => 100u16..1500, 1 => 1500u16..6000];
    let size2 = prop_oneof![1 => Just(0u16), 6 => 5u16..100, 2 => 100u16..1500, 1 => 1500u16..6000];
    // (an option with weight 0 is left out: proptest's Union rejects zero weights)
    let mut options: Vec<(u32, BoxedStrategy<WOp>)> = Vec::new();
    options.push((30, (dt, prop_oneof![6 => Just(true), 1 => Just(false)], prop_oneof![6 => Just(255u8), 2 => any::<u8>()]).prop_map(|(dt_us, server, clients)| WOp::Tick { dt_us, server, clients }).boxed()));
    options.push((p.send_weight, (0..nc, prop_oneof![3 => 0u8..3, 1 => 0u8..64], 0u8..4, size).prop_map(|(c, ch, mode, size)| WOp::ClientSend { c, ch, mode, size }).boxed()));
    options.push((p.send_weight, (0..nc, prop_oneof![3 => 0u8..3, 1 => 0u8..64], 0u8..4, size2).prop_map(|(c, ch, mode, size)| WOp::ServerSend { c, ch, mode, size }).boxed()));
    options.push((p.disconnect_weight, (0..nc, prop_oneof![2 => Just(false), 1 => Just(true)]).prop_map(|(c, now)| WOp::ClientDisconnect { c, now }).boxed()));
    options.push((p.disconnect_weight, (0..nc, prop_oneof![2 => Just(false), 1 => Just(true)]).prop_map(|(c, now)| WOp::ServerDisconnect { c, now }).boxed()));
    options.push((p.drop_weight, (0..nc).prop_map(|c| WOp::ServerDrop { c }).boxed()));
    options.push((2, (0..nc).prop_map(|c| WOp::ClientFlush { c }).boxed()));
    options.push((2, Just(WOp::ServerFlush).boxed()));
    options.push((p.replay_weight, (0..nc, any::<bool>(), any::<u16>()).prop_map(|(c, to_server, sel)| WOp::ReplayControl { c, to_server, sel }).boxed()));
    options.push((p.stray_weight, (0..nc, any::<bool>(), 0u8..8, any::<u32>()).prop_map(|(c, to_server, kind, nonce)| WOp::Stray { c, to_server, kind, nonce }).boxed()));
    options.push((if p.faults { 2 } else { 0 }, (0..nc, 1u8..4, prop_oneof![3 => 10u32..2_000, 2 => 2_000u32..30_000, 1 => Just(10_000_000u32)]).prop_map(|(c, dirs, len_ms)| WOp::Blackout { c, dirs, len_ms }).boxed()));
    options.push((p.reconnect_weight, (0..nc).prop_map(|c| WOp::Reconnect { c }).boxed()));
    options.retain(|o| o.0 > 0);
    proptest::strategy::Union::new_weighted(options)
    .boxed()
}

pub fn wcase_strategy(p: &ScriptParams) -> BoxedStrategy<WCase> {
    let settle = p.settle_us;
    let limits = if p.vary_server_limits {
        prop_oneof![3 => Just((4096u32, 32u32)), 2 => (1u32..=p.max_clients.max(1) as u32 + 1, 1u32..=p.max_clients.max(1) as u32 + 1)].boxed()
    } else {
        Just((4096u32, 32u32)).boxed()
    };
    let hs_errors = if p.vary_server_limits { any::<bool>().boxed() } else { Just(true).boxed() };
    (
        (any::<u64>(), limits, hs_errors),
        proptest::sample::select(p.timeouts.clone()),
        proptest::collection::vec(wclient_strategy(p), 1..=p.max_clients.max(1)),
        proptest::collection::vec(wop_strategy(p), 1..p.max_ops.max(2)),
        prop_oneof![Just(10_000u32), Just(30_000u32), Just(100_000u32), Just(500_000u32)],
    )
        .prop_map(move |((seed, (max_total, max_active), handshake_errors), server_timeout, clients, ops, settle_step_us)| WCase {
            seed,
            server: ServerCfg { max_total, max_active, handshake_errors, ep: EpCfg { active_timeout_ms: server_timeout, keepalive_interval_ms: 1000, ..EpCfg::default() } },
            clients,
            ops,
            settle_step_us,
            settle_us: settle,
            server_event_limit: None,
        })
        .boxed()
}

pub const STREAM_S2C: u8 = 100;

/// Runs the script. `on_step` is called after every endpoint step with the events it produced
/// (server: Some(events), None; client k: None, Some((k, events))).
pub fn run_script(c: &WCase) -> WorldLog {
    let mut w = World::new(c.seed, &c.server);
    w.server_event_limit = c.server_event_limit.map(|v| v as usize);
    let n = c.clients.len();
    let mut ci: Vec<Option<usize>> = vec![None; n];
    let mut api: Vec<(u64, u64, Api)> = Vec::new();
    let mut c_idx: Vec<u32> = vec![0; n];
    let mut s_idx: Vec<u32> = vec![0; n];
    let mut tick_no: u16 = 0;
    let mut last_step_server = 0u64;
    let mut last_step_client: Vec<u64> = vec![0; n];
    let mut max_gap = 0u64;
    let mut stray_count = 0u32;
    let mut reconnects = 0u32;

    let start_clients = |w: &mut World, ci: &mut Vec<Option<usize>>, tick_no: u16| {
        for (k, spec) in c.clients.iter().enumerate() {
            if ci[k].is_none() && spec.start_tick <= tick_no {
                let link = LinkState { latency_us: spec.latency_us, fates: spec.fates.clone(), ..LinkState::default() };
                ci[k] = Some(w.add_client(&spec.cfg, link));
            }
        }
    };
    start_clients(&mut w, &mut ci, 0);

    let mut do_tick = |w: &mut World, ci: &Vec<Option<usize>>, dt: u64, server: bool, mask: u8, last_step_server: &mut u64, last_step_client: &mut Vec<u64>, max_gap: &mut u64| {
        w.advance(dt);
        if server {
            *max_gap = (*max_gap).max(w.now_us - *last_step_server);
            *last_step_server = w.now_us;
            w.step_server();
        }
        for k in 0..ci.len() {
            if mask & (1 << (k % 8)) != 0 {
                if let Some(i) = ci[k] {
                    *max_gap = (*max_gap).max(w.now_us - last_step_client[k].max(w.clients[i].t_connect_us));
                    last_step_client[k] = w.now_us;
                    w.step_client(i);
                }
            }
        }
    };

    for op in c.ops.iter() {
        match op {
            WOp::Tick { dt_us, server, clients } => {
                do_tick(&mut w, &ci, *dt_us as u64, *server, *clients, &mut last_step_server, &mut last_step_client, &mut max_gap);
                tick_no = tick_no.saturating_add(1);
                start_clients(&mut w, &mut ci, tick_no);
            }
            WOp::ClientSend { c: k, ch, mode, size } => {
                let k = *k as usize % n;
                if let Some(i) = ci[k] {
                    if *size == 0 {
                        let s = w.next_ev();
                        api.push((s, w.now_us, Api::ClientSendEmpty { c: k }));
                        w.client_send(i, Vec::new(), 63, 3);
                    } else {
                        let idx = c_idx[k];
                        c_idx[k] += 1;
                        let s = w.next_ev();
                        api.push((s, w.now_us, Api::ClientSend { c: k, idx, ch: *ch % 64, mode: *mode % 4 }));
                        w.client_send(i, world_payload(c.seed, k as u8, idx, *size as usize), *ch, *mode);
                    }
                }
            }
            WOp::ServerSend { c: k, ch, mode, size } => {
                let k = *k as usize % n;
                if let Some(i) = ci[k] {
                    let active = w.server_client_active(&w.clients[i].addr);
                    if *size == 0 {
                        let s = w.next_ev();
                        let accepted = w.server_send(i, Vec::new(), 63, 3) && active;
                        api.push((s, w.now_us, Api::ServerSendEmpty { c: k, accepted }));
                    } else {
                        let idx = s_idx[k];
                        s_idx[k] += 1;
                        let s = w.next_ev();
                        let accepted = w.server_send(i, world_payload(c.seed, STREAM_S2C + k as u8, idx, *size as usize), *ch, *mode) && active;
                        api.push((s, w.now_us, Api::ServerSend { c: k, idx, ch: *ch % 64, mode: *mode % 4, accepted }));
                    }
                }
            }
            WOp::ClientDisconnect { c: k, now } => {
                let k = *k as usize % n;
                if let Some(i) = ci[k] {
                    let s = w.next_ev();
                    api.push((s, w.now_us, Api::ClientDisconnect { c: k, now: *now }));
                    if let Some(cl) = w.clients[i].client.as_mut() {
                        if *now {
                            cl.disconnect_now();
                        } else {
                            cl.disconnect();
                        }
                    }
                }
            }
            WOp::ServerDisconnect { c: k, now } => {
                let k = *k as usize % n;
                if let Some(i) = ci[k] {
                    let addr = w.clients[i].addr;
                    let mut done = false;
                    if let Some(server) = w.server.as_ref() {
                        if let Some(rc) = server.client(&addr) {
                            if *now {
                                rc.borrow_mut().disconnect_now();
                            } else {
                                rc.borrow_mut().disconnect();
                            }
                            done = true;
                        }
                    }
                    if done {
                        let s = w.next_ev();
                        api.push((s, w.now_us, Api::ServerDisconnect { c: k, now: *now }));
                    }
                }
            }
            WOp::ServerDrop { c: k } => {
                let k = *k as usize % n;
                if let Some(i) = ci[k] {
                    let addr = w.clients[i].addr;
                    if w.server_has_client(&addr) {
                        let s = w.next_ev();
                        api.push((s, w.now_us, Api::ServerDrop { c: k }));
                        if let Some(server) = w.server.as_mut() {
                            server.drop(&addr);
                        }
                    }
                }
            }
            WOp::ClientFlush { c: k } => {
                let k = *k as usize % n;
                if let Some(i) = ci[k] {
                    w.flush_client(i);
                }
            }
            WOp::ServerFlush => w.flush_server(),
            WOp::ReplayControl { c: k, to_server, sel } => {
                let k = *k as usize % n;
                if let Some(i) = ci[k] {
                    let addr = w.clients[i].addr;
                    let saddr = w.server_addr;
                    let (from, to) = if *to_server { (addr, saddr) } else { (saddr, addr) };
                    let cands: Vec<usize> = w.wire.iter().enumerate().filter(|(_, r)| r.from == from && r.to == to && r.bytes.first().map_or(false, |b| *b < 10)).map(|(j, _)| j).collect();
                    if !cands.is_empty() {
                        let j = cands[crate::engine::pick_index(*sel, cands.len())];
                        let bytes = w.wire[j].bytes.clone();
                        w.send_raw(from, to, &bytes, 0);
                    }
                }
            }
            WOp::Stray { c: k, to_server, kind, nonce } => {
                let k = *k as usize % n;
                if let Some(i) = ci[k] {
                    use uflow::verif::*;
                    let addr = w.clients[i].addr;
                    let saddr = w.server_addr;
                    let (from, to) = if *to_server { (addr, saddr) } else { (saddr, addr) };
                    let f = match kind % 8 {
                        0 => Frame::DisconnectFrame(DisconnectFrame {}),
                        1 => Frame::DisconnectAckFrame(DisconnectAckFrame {}),
                        2 => Frame::HandshakeErrorFrame(HandshakeErrorFrame { nonce_ack: *nonce, error: HandshakeErrorType::ServerFull }),
                        3 => Frame::HandshakeSynAckFrame(HandshakeSynAckFrame { nonce_ack: *nonce, nonce: nonce.rotate_left(7), max_receive_rate: 1_000_000, max_packet_size: 1000, max_receive_alloc: 1_000_000 }),
                        4 => Frame::HandshakeAckFrame(HandshakeAckFrame { nonce_ack: *nonce }),
                        5 => Frame::DataFrame(DataFrame { sequence_id: *nonce, nonce: false, datagrams: vec![] }),
                        6 => Frame::SyncFrame(SyncFrame { next_frame_id: None, next_packet_id: None }),
                        _ => Frame::AckFrame(AckFrame { frame_window_base_id: *nonce, packet_window_base_id: *nonce & 0xFFFFF, frame_acks: vec![] }),
                    };
                    let bytes = f.write();
                    w.send_raw(from, to, &bytes, 0);
                    stray_count += 1;
                }
            }
            WOp::Reconnect { c: k } => {
                let k = *k as usize % n;
                if let Some(i) = ci[k] {
                    let spec = &c.clients[k];
                    let link = LinkState { latency_us: spec.latency_us, fates: spec.fates.clone(), ..LinkState::default() };
                    ci[k] = Some(w.reincarnate_client(i, &spec.cfg, link));
                    last_step_client[k] = w.now_us;
                    reconnects += 1;
                }
            }
            WOp::Blackout { c: k, dirs, len_ms } => {
                let k = *k as usize % n;
                if let Some(i) = ci[k] {
                    for d in 0..2 {
                        if dirs & (1 << d) != 0 {
                            w.links[i].blackout_until_us[d] = w.now_us + *len_ms as u64 * 1000;
                        }
                    }
                }
            }
        }
    }
    // settle
    let step = c.settle_step_us.max(1000) as u64;
    let t_end = w.now_us + c.settle_us;
    while w.now_us < t_end {
        do_tick(&mut w, &ci, step, true, 255, &mut last_step_server, &mut last_step_client, &mut max_gap);
        start_clients(&mut w, &mut ci, u16::MAX);
    }
    let end_us = w.now_us;
    WorldLog { world: w, api, ci, max_step_gap_us: max_gap, end_us, stray_count, reconnects }
}

pub fn client_addr(log: &WorldLog, k: usize) -> Option<SocketAddr> {
    log.ci[k].map(|i| log.world.clients[i].addr)
}
