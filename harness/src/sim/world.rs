//! World: a real `Server`, real `Client`s and raw (harness-made) peers on the in-process datagram
//! switch, under the virtual clock. The harness decides the fate of every datagram.

use crate::util::*;
use serde::{Deserialize, Serialize};
use std::collections::{BinaryHeap, HashMap};
use std::net::{IpAddr, Ipv4Addr, SocketAddr};
use uflow::verif::net;
use uflow::verif::Frame;
use uflow::verif::Serialize as _;

pub use super::pair::Fate;

#[derive(Clone, Debug, Serialize, Deserialize, PartialEq)]
pub struct EpCfg {
    pub max_send_rate: u32,
    pub max_receive_rate: u32,
    pub max_packet_size: u32,
    pub max_receive_alloc: u32,
    pub keepalive: bool,
    pub keepalive_interval_ms: u32,
    pub active_timeout_ms: u32,
    /// bits 32.. of max_receive_alloc and of both rates (the configuration fields are `usize`; what is advertised to
    /// the peer is documented to saturate at 2^32 - 1)
    #[serde(default)]
    pub alloc_high: u8,
    #[serde(default)]
    pub rate_high: u8,
}

impl Default for EpCfg {
    fn default() -> Self {
        EpCfg { max_send_rate: 2_000_000, max_receive_rate: 2_000_000, max_packet_size: 1_000_000, max_receive_alloc: 1_000_000, keepalive: true, keepalive_interval_ms: 5000, active_timeout_ms: 20000, alloc_high: 0, rate_high: 0 }
    }
}

impl EpCfg {
    pub fn to_endpoint(&self) -> uflow::EndpointConfig {
        uflow::EndpointConfig {
            max_send_rate: ((self.rate_high as usize) << 32) | self.max_send_rate.max(1) as usize,
            max_receive_rate: ((self.rate_high as usize) << 32) | self.max_receive_rate.max(1) as usize,
            max_packet_size: (self.max_packet_size.max(1) as usize).min(uflow::MAX_PACKET_SIZE),
            max_receive_alloc: ((self.alloc_high as usize) << 32) | self.max_receive_alloc.max(1) as usize,
            keepalive: self.keepalive,
            keepalive_interval_ms: self.keepalive_interval_ms as u64,
            active_timeout_ms: self.active_timeout_ms as u64,
        }
    }
}

#[derive(Clone, Debug, Serialize, Deserialize, PartialEq)]
pub struct ServerCfg {
    pub max_total: u32,
    pub max_active: u32,
    pub handshake_errors: bool,
    pub ep: EpCfg,
}

impl Default for ServerCfg {
    fn default() -> Self {
        ServerCfg { max_total: 4096, max_active: 32, handshake_errors: true, ep: EpCfg::default() }
    }
}

#[derive(Clone, Debug, PartialEq)]
pub enum SEv {
    Connect(SocketAddr),
    Disconnect(SocketAddr),
    Receive(SocketAddr, Box<[u8]>),
    Error(SocketAddr, SErr),
}

#[derive(Clone, Copy, Debug, PartialEq)]
pub enum SErr {
    Timeout,
    Version,
    Config,
    ServerFull,
}

#[derive(Clone, Debug, PartialEq)]
pub enum CEv {
    Connect,
    Disconnect,
    Receive(Box<[u8]>),
    Error(SErr),
}

#[derive(Clone, Debug)]
pub struct WireRec {
    pub seq: u64,
    pub t_us: u64,
    pub from: SocketAddr,
    pub to: SocketAddr,
    pub bytes: Box<[u8]>,
    pub fate: Fate,
}

#[derive(Clone, Debug)]
pub struct DeliveredRec {
    pub seq: u64,
    pub t_us: u64,
    pub from: SocketAddr,
    pub to: SocketAddr,
    pub bytes: Box<[u8]>,
    /// index into `wire` (None for datagrams the harness injected itself)
    pub wire_idx: Option<u32>,
}

struct InFlight {
    arrive_us: u64,
    seq: u64,
    from: SocketAddr,
    to: SocketAddr,
    bytes: Box<[u8]>,
    wire_idx: Option<u32>,
}

impl PartialEq for InFlight {
    fn eq(&self, o: &Self) -> bool {
        self.arrive_us == o.arrive_us && self.seq == o.seq
    }
}
impl Eq for InFlight {}
impl PartialOrd for InFlight {
    fn partial_cmp(&self, o: &Self) -> Option<std::cmp::Ordering> {
        Some(self.cmp(o))
    }
}
impl Ord for InFlight {
    fn cmp(&self, o: &Self) -> std::cmp::Ordering {
        (o.arrive_us, o.seq).cmp(&(self.arrive_us, self.seq))
    }
}

pub struct ClientSlot {
    pub client: Option<uflow::client::Client>,
    pub addr: SocketAddr,
    pub cfg: EpCfg,
    /// events seen so far, with (event seq, time)
    pub events: Vec<(u64, u64, CEv)>,
    pub steps: u32,
    /// times of this client's step() calls
    pub step_times: Vec<u64>,
    /// time of connect()
    pub t_connect_us: u64,
}

/// Per-link fault model: link index = client index; dir 0 = client->server, 1 = server->client.
#[derive(Clone, Debug, Default)]
pub struct LinkState {
    pub latency_us: [u32; 2],
    pub fates: [Vec<Fate>; 2],
    pub fate_idx: [usize; 2],
    /// drop everything put on the link in that direction before this time
    pub blackout_until_us: [u64; 2],
}

pub struct World {
    pub server: Option<uflow::server::Server>,
    pub server_addr: SocketAddr,
    pub server_cfg: ServerCfg,
    pub clients: Vec<ClientSlot>,
    pub links: Vec<LinkState>,
    pub addr_to_client: HashMap<SocketAddr, usize>,
    pub now_us: u64,
    pub wire: Vec<WireRec>,
    pub delivered: Vec<DeliveredRec>,
    pub server_events: Vec<(u64, u64, SEv)>,
    pub server_steps: Vec<(u64, u64)>,
    pub ev: u64,
    in_flight: BinaryHeap<InFlight>,
    seq: u64,
    /// latency for datagrams from / to raw peers
    pub raw_latency_us: u32,
    pub drop_all: bool,
    /// read at most this many events of each Server::step() and drop the iterator
    pub server_event_limit: Option<usize>,
    /// forget datagrams that have arrived for addresses nobody reads (raw peers) after every server step
    pub auto_discard: bool,
}

pub fn server_addr() -> SocketAddr {
    SocketAddr::new(IpAddr::V4(Ipv4Addr::new(10, 0, 0, 1)), 7777)
}

pub fn raw_addr(k: u32) -> SocketAddr {
    SocketAddr::new(IpAddr::V4(Ipv4Addr::new(10, 9, (k >> 8) as u8, k as u8)), 5000 + (k % 1000) as u16)
}

fn conv_serr(e: uflow::server::ErrorType) -> SErr {
    match e {
        uflow::server::ErrorType::Timeout => SErr::Timeout,
        uflow::server::ErrorType::Version => SErr::Version,
        uflow::server::ErrorType::Config => SErr::Config,
        uflow::server::ErrorType::ServerFull => SErr::ServerFull,
    }
}

fn conv_cerr(e: uflow::client::ErrorType) -> SErr {
    match e {
        uflow::client::ErrorType::Timeout => SErr::Timeout,
        uflow::client::ErrorType::Version => SErr::Version,
        uflow::client::ErrorType::Config => SErr::Config,
        uflow::client::ErrorType::ServerFull => SErr::ServerFull,
    }
}

impl World {
    pub fn new(seed: u64, cfg: &ServerCfg) -> World {
        uflow::verif::time::set_ns(0);
        uflow::verif::rand::seed(seed);
        net::reset();
        let scfg = uflow::server::Config {
            max_total_connections: cfg.max_total.max(1) as usize,
            max_active_connections: cfg.max_active.max(1) as usize,
            enable_handshake_errors: cfg.handshake_errors,
            endpoint_config: cfg.ep.to_endpoint(),
        };
        let server = uflow::server::Server::bind(server_addr(), scfg).expect("virtual bind");
        World {
            server: Some(server),
            server_addr: server_addr(),
            server_cfg: cfg.clone(),
            clients: Vec::new(),
            links: Vec::new(),
            addr_to_client: HashMap::new(),
            now_us: 0,
            wire: Vec::new(),
            delivered: Vec::new(),
            server_events: Vec::new(),
            server_steps: Vec::new(),
            ev: 0,
            in_flight: BinaryHeap::new(),
            seq: 0,
            raw_latency_us: 0,
            drop_all: false,
            server_event_limit: None,
            auto_discard: false,
        }
    }

    pub fn next_ev(&mut self) -> u64 {
        self.ev += 1;
        self.ev
    }

    pub fn advance(&mut self, dt_us: u64) {
        self.now_us += dt_us;
        uflow::verif::time::set_ns(self.now_us.saturating_mul(1000));
    }

    /// Creates a real client (which immediately emits its SYN) on a new link.
    pub fn add_client(&mut self, cfg: &EpCfg, link: LinkState) -> usize {
        let ccfg = uflow::client::Config { endpoint_config: cfg.to_endpoint() };
        let client = uflow::client::Client::connect(self.server_addr, ccfg).expect("virtual connect");
        let addr = client.local_address();
        let ci = self.clients.len();
        self.clients.push(ClientSlot { client: Some(client), addr, cfg: cfg.clone(), events: Vec::new(), steps: 0, step_times: Vec::new(), t_connect_us: self.now_us });
        self.links.push(link);
        self.addr_to_client.insert(addr, ci);
        self.route();
        ci
    }

    /// The application behind client `old` gives up on its `Client` object (dropping it closes the socket) and
    /// connects again from the same local address - what a program bound to a fixed port does when it restarts.
    /// The new client gets a slot (and link) of its own; datagrams still travelling to the address reach it.
    pub fn reincarnate_client(&mut self, old: usize, cfg: &EpCfg, link: LinkState) -> usize {
        let addr = self.clients[old].addr;
        self.clients[old].client = None;
        net::set_next_port(addr.port());
        let ccfg = uflow::client::Config { endpoint_config: cfg.to_endpoint() };
        let client = uflow::client::Client::connect(self.server_addr, ccfg).expect("virtual connect");
        assert_eq!(client.local_address(), addr, "the virtual switch hands out the requested port");
        let ci = self.clients.len();
        self.clients.push(ClientSlot { client: Some(client), addr, cfg: cfg.clone(), events: Vec::new(), steps: 0, step_times: Vec::new(), t_connect_us: self.now_us });
        self.links.push(link);
        self.addr_to_client.insert(addr, ci);
        self.route();
        ci
    }

    fn push_in_flight(&mut self, arrive_us: u64, from: SocketAddr, to: SocketAddr, bytes: Box<[u8]>, wire_idx: Option<u32>) {
        self.seq += 1;
        let seq = self.seq;
        self.in_flight.push(InFlight { arrive_us, seq, from, to, bytes, wire_idx });
    }

    fn push_in_flight_front(&mut self, from: SocketAddr, to: SocketAddr, bytes: Box<[u8]>) {
        // arrival time 0 sorts before everything that has not been read yet
        self.in_flight.push(InFlight { arrive_us: 0, seq: 0, from, to, bytes, wire_idx: Some(u32::MAX) });
    }

    /// Takes everything the endpoints have sent since the last call and decides its fate.
    pub fn route(&mut self) {
        for d in net::take_wire() {
            let (link, dir) = if d.to == self.server_addr {
                (self.addr_to_client.get(&d.from).copied(), 0usize)
            } else {
                (self.addr_to_client.get(&d.to).copied(), 1usize)
            };
            let (fate, latency) = match link {
                Some(l) => {
                    let ls = &mut self.links[l];
                    let fate = if self.drop_all || self.now_us < ls.blackout_until_us[dir] {
                        Fate::Drop
                    } else {
                        let f = ls.fates[dir].get(ls.fate_idx[dir]).cloned().unwrap_or(Fate::Deliver(0));
                        ls.fate_idx[dir] += 1;
                        f
                    };
                    (fate, ls.latency_us[dir])
                }
                None => (if self.drop_all { Fate::Drop } else { Fate::Deliver(0) }, self.raw_latency_us),
            };
            let wire_idx = self.wire.len() as u32;
            let base = self.now_us + latency as u64;
            match &fate {
                Fate::Deliver(extra) => self.push_in_flight(base + *extra as u64, d.from, d.to, d.data.clone(), Some(wire_idx)),
                Fate::Drop => {}
                Fate::Dup(a, b) => {
                    self.push_in_flight(base + *a as u64, d.from, d.to, d.data.clone(), Some(wire_idx));
                    self.push_in_flight(base + *b as u64, d.from, d.to, d.data.clone(), Some(wire_idx));
                }
                Fate::Corrupt(bits) => {
                    let mut data = d.data.to_vec();
                    let nbits = data.len() * 8;
                    for b in bits.iter().take(4) {
                        let p = crate::engine::pick_index(*b, nbits);
                        data[p / 8] ^= 1 << (p % 8);
                    }
                    self.push_in_flight(base, d.from, d.to, data.into_boxed_slice(), Some(wire_idx));
                }
            }
            let seq = self.next_ev();
            self.wire.push(WireRec { seq, t_us: self.now_us, from: d.from, to: d.to, bytes: d.data, fate });
        }
    }

    /// A datagram made by the harness (raw peer, forged source) travelling to `to`.
    /// Like `send_raw` with no delay, but the datagram is placed ahead of everything else that has arrived for `to`
    /// and has not been read yet.
    pub fn send_raw_front(&mut self, from: SocketAddr, to: SocketAddr, bytes: &[u8]) {
        self.push_in_flight_front(from, to, bytes.into());
    }

    pub fn send_raw(&mut self, from: SocketAddr, to: SocketAddr, bytes: &[u8], delay_us: u64) {
        self.push_in_flight(self.now_us + delay_us, from, to, bytes.into(), None);
    }

    /// Moves every datagram that has arrived for `to` into its socket's receive queue.
    fn deliver_arrived(&mut self, to: SocketAddr) {
        let mut keep: Vec<InFlight> = Vec::new();
        let mut due: Vec<InFlight> = Vec::new();
        while let Some(top) = self.in_flight.peek() {
            if top.arrive_us > self.now_us {
                break;
            }
            let f = self.in_flight.pop().unwrap();
            if f.to == to {
                due.push(f);
            } else {
                keep.push(f);
            }
        }
        for k in keep {
            self.in_flight.push(k);
        }
        for f in due {
            if net::inject(f.to, f.from, &f.bytes) {
                if f.wire_idx == Some(u32::MAX) {
                    // line noise placed by `send_raw_front`: not part of the record of protocol traffic
                    continue;
                }
                let seq = self.next_ev();
                self.delivered.push(DeliveredRec { seq, t_us: self.now_us, from: f.from, to: f.to, bytes: f.bytes, wire_idx: f.wire_idx });
            }
        }
    }

    /// Discards arrived datagrams addressed to sockets that no longer exist (or raw peers).
    pub fn discard_undeliverable(&mut self) {
        let mut keep: Vec<InFlight> = Vec::new();
        while let Some(f) = self.in_flight.pop() {
            let deliverable = f.to == self.server_addr && self.server.is_some() || self.addr_to_client.get(&f.to).map_or(false, |ci| self.clients[*ci].client.is_some());
            if f.arrive_us > self.now_us || deliverable {
                keep.push(f);
            }
        }
        for k in keep {
            self.in_flight.push(k);
        }
    }

    pub fn step_server(&mut self) -> Vec<SEv> {
        let addr = self.server_addr;
        self.deliver_arrived(addr);
        let mut out = Vec::new();
        if let Some(server) = self.server.as_mut() {
            let limit = self.server_event_limit.unwrap_or(usize::MAX);
            for e in server.step().take(limit) {
                out.push(match e {
                    uflow::server::Event::Connect(a) => SEv::Connect(a),
                    uflow::server::Event::Disconnect(a) => SEv::Disconnect(a),
                    uflow::server::Event::Receive(a, d) => SEv::Receive(a, d),
                    uflow::server::Event::Error(a, e) => SEv::Error(a, conv_serr(e)),
                });
            }
        }
        let s = self.next_ev();
        self.server_steps.push((s, self.now_us));
        for e in out.iter() {
            let s = self.next_ev();
            self.server_events.push((s, self.now_us, e.clone()));
        }
        self.route();
        if self.auto_discard {
            self.discard_undeliverable();
        }
        out
    }

    pub fn flush_server(&mut self) {
        if let Some(server) = self.server.as_mut() {
            server.flush();
        }
        self.route();
    }

    pub fn step_client(&mut self, ci: usize) -> Vec<CEv> {
        let addr = self.clients[ci].addr;
        self.deliver_arrived(addr);
        let mut out = Vec::new();
        if let Some(client) = self.clients[ci].client.as_mut() {
            for e in client.step() {
                out.push(match e {
                    uflow::client::Event::Connect => CEv::Connect,
                    uflow::client::Event::Disconnect => CEv::Disconnect,
                    uflow::client::Event::Receive(d) => CEv::Receive(d),
                    uflow::client::Event::Error(e) => CEv::Error(conv_cerr(e)),
                });
            }
            self.clients[ci].steps += 1;
            let t = self.now_us;
            self.clients[ci].step_times.push(t);
        }
        for e in out.iter() {
            let s = self.next_ev();
            let t = self.now_us;
            self.clients[ci].events.push((s, t, e.clone()));
        }
        self.route();
        out
    }

    pub fn flush_client(&mut self, ci: usize) {
        if let Some(client) = self.clients[ci].client.as_mut() {
            client.flush();
        }
        self.route();
    }

    pub fn client_send(&mut self, ci: usize, data: Vec<u8>, ch: u8, mode: u8) {
        if let Some(client) = self.clients[ci].client.as_mut() {
            client.send(data.into_boxed_slice(), (ch % 64) as usize, super::pair::mode_of(mode));
        }
    }

    /// Sends through the RemoteClient handle; returns false if the server has no such client.
    pub fn server_send(&mut self, ci: usize, data: Vec<u8>, ch: u8, mode: u8) -> bool {
        let addr = self.clients[ci].addr;
        if let Some(server) = self.server.as_ref() {
            if let Some(rc) = server.client(&addr) {
                rc.borrow_mut().send(data.into_boxed_slice(), (ch % 64) as usize, super::pair::mode_of(mode));
                return true;
            }
        }
        false
    }

    pub fn server_has_client(&self, addr: &SocketAddr) -> bool {
        self.server.as_ref().map_or(false, |s| s.client(addr).is_some())
    }

    pub fn server_client_active(&self, addr: &SocketAddr) -> bool {
        self.server.as_ref().and_then(|s| s.client(addr).map(|c| c.borrow().is_active())).unwrap_or(false)
    }

    pub fn in_flight_count(&self) -> usize {
        self.in_flight.len()
    }

    pub fn frames_in_flight_to(&self, to: SocketAddr) -> usize {
        self.in_flight.iter().filter(|f| f.to == to).count()
    }
}

impl Drop for World {
    fn drop(&mut self) {
        self.server = None;
        for c in self.clients.iter_mut() {
            c.client = None;
        }
        net::reset();
    }
}

pub fn frame_of(bytes: &[u8]) -> Option<Frame> {
    Frame::read(bytes)
}

pub fn frame_type(bytes: &[u8]) -> u8 {
    bytes.first().copied().unwrap_or(255)
}

/// payload with identity for World-level transfers: [stream id, index BE 4 bytes, PRF...]
pub fn world_payload(seed: u64, stream: u8, idx: u32, size: usize) -> Vec<u8> {
    let size = size.max(5);
    let mut v = Vec::with_capacity(size + 8);
    v.push(stream);
    v.extend_from_slice(&idx.to_be_bytes());
    let mut rng = SplitMix::new(mix64(seed ^ ((stream as u64) << 48), idx as u64));
    while v.len() < size {
        v.extend_from_slice(&rng.next().to_le_bytes());
    }
    v.truncate(size);
    v
}

pub fn parse_world_payload(data: &[u8]) -> Option<(u8, u32)> {
    if data.len() >= 5 {
        Some((data[0], u32::from_be_bytes([data[1], data[2], data[3], data[4]])))
    } else {
        None
    }
}
