//! Endpoint-level packet streams: a real Client and Server on a faulty link, with packets submitted through the public
//! API - also BEFORE the connection is established (Client::send queues them while the handshake is pending) - and the
//! deliveries each application sees. Shared by C01 (order / at most once / contents) and C02 (Reliable never skipped,
//! eventually delivered).

use super::world::*;
use proptest::prelude::*;
use serde::{Deserialize, Serialize};

#[derive(Clone, Debug, Serialize, Deserialize)]
pub struct EpStream {
    pub seed: u64,
    pub latency_us: [u32; 2],
    pub fates: [Vec<Fate>; 2],
    pub step_us: u32,
    /// packets the client application submits right after connect(), before its first step: (channel, mode, size)
    pub pre_sends: Vec<(u8, u8, u16)>,
    /// (tick selector, from_client, channel, mode, size)
    pub sends: Vec<(u16, bool, u8, u8, u16)>,
    pub ticks: u16,
}

pub struct EpStreamOut {
    /// submissions per direction (0 = client -> server): (idx, channel, mode, size)
    pub subs: [Vec<(u32, u8, u8, usize)>; 2],
    /// payloads handed to the receiving application of each direction, in order
    pub delivs: [Vec<Box<[u8]>>; 2],
    pub connected: bool,
    /// neither side reported a terminal event
    pub alive: bool,
    /// after the fair phase: send_buffer_size() of (client, server side)
    pub end_buffers: [usize; 2],
    /// the fair phase ended because nothing moved for 15 virtual minutes (or both buffers drained), not at the 6 h cap
    pub settled: bool,
    pub faulted: usize,
}

pub fn epstream_strategy(max_ticks: u16) -> BoxedStrategy<EpStream> {
    let fate = || prop_oneof![14 => Just(Fate::Deliver(0)), 3 => (0u32..40_000).prop_map(Fate::Deliver), 3 => Just(Fate::Drop), 2 => (0u32..30_000, 0u32..400_000).prop_map(|(a, b)| Fate::Dup(a, b))];
    let ch = || prop_oneof![3 => 0u8..3, 1 => 0u8..64];
    let size = || prop_oneof![6 => 5u16..100, 2 => 100u16..1500, 1 => 1500u16..5000];
    (
        any::<u64>(),
        (prop_oneof![Just(0u32), 0u32..20_000, 20_000u32..150_000], prop_oneof![Just(0u32), 0u32..20_000, 20_000u32..150_000]),
        (proptest::collection::vec(fate(), 0..80), proptest::collection::vec(fate(), 0..80)),
        prop_oneof![Just(2_000u32), Just(10_000u32), Just(16_000u32), Just(50_000u32)],
        prop_oneof![1 => Just(Vec::new()), 3 => proptest::collection::vec((ch(), 0u8..4, size()), 1..12)],
        proptest::collection::vec((any::<u16>(), any::<bool>(), ch(), 0u8..4, size()), 0..60),
        20u16..max_ticks.max(21),
    )
        .prop_map(|(seed, (l0, l1), (f0, f1), step_us, pre_sends, sends, ticks)| EpStream { seed, latency_us: [l0, l1], fates: [f0, f1], step_us, pre_sends, sends, ticks })
        .boxed()
}

pub fn run_epstream(c: &EpStream) -> EpStreamOut {
    let scfg = ServerCfg::default();
    let ccfg = EpCfg::default();
    let mut w = World::new(c.seed, &scfg);
    let ci = w.add_client(&ccfg, LinkState { latency_us: c.latency_us, fates: c.fates.clone(), ..LinkState::default() });
    let caddr = w.clients[ci].addr;
    let mut subs: [Vec<(u32, u8, u8, usize)>; 2] = [Vec::new(), Vec::new()];
    let submit = |w: &mut World, subs: &mut [Vec<(u32, u8, u8, usize)>; 2], from_client: bool, ch: u8, mode: u8, size: u16| {
        let d = if from_client { 0 } else { 1 };
        let idx = subs[d].len() as u32;
        let data = world_payload(c.seed, d as u8 * 100, idx, (size as usize).max(5));
        let len = data.len();
        let ok = if from_client {
            w.client_send(ci, data, ch, mode);
            true
        } else {
            w.server_client_active(&caddr) && w.server_send(ci, data, ch, mode)
        };
        if ok {
            subs[d].push((idx, ch % 64, mode % 4, len));
        }
    };
    // submitted while the handshake is pending
    for (ch, mode, size) in c.pre_sends.iter() {
        submit(&mut w, &mut subs, true, *ch, *mode, *size);
    }
    let step = c.step_us.clamp(1_000, 100_000) as u64;
    for tick in 0..c.ticks {
        w.advance(step);
        w.step_server();
        w.step_client(ci);
        for (at, from_client, ch, mode, size) in c.sends.iter() {
            if crate::engine::pick_index(*at, c.ticks as usize) == tick as usize {
                submit(&mut w, &mut subs, *from_client, *ch, *mode, *size);
            }
        }
    }
    let faulted = w.wire.iter().filter(|r| !matches!(r.fate, Fate::Deliver(0))).count();
    // fair phase: no faults any more; both keep stepping until both buffers are empty and nothing has moved for 3 s,
    // or nothing at all has moved for 15 virtual minutes (a sender at the TFRC floor needs a minute for one frame), or 6 h
    w.links[ci].fates = [Vec::new(), Vec::new()];
    w.links[ci].fate_idx = [0, 0];
    let buffers = |w: &World| -> [usize; 2] {
        [
            w.clients[ci].client.as_ref().map_or(0, |cl| cl.send_buffer_size()),
            w.server.as_ref().and_then(|s| s.client(&caddr).map(|rc| rc.borrow().send_buffer_size())).unwrap_or(0),
        ]
    };
    let received = |w: &World| -> (usize, usize) { (w.server_events.iter().filter(|e| matches!(e.2, SEv::Receive(..))).count(), w.clients[ci].events.iter().filter(|e| matches!(e.2, CEv::Receive(_))).count()) };
    let mut last = (buffers(&w), received(&w));
    let mut quiet_us = 0u64;
    let t_cap = w.now_us + 6 * 3600 * 1_000_000;
    let t_fair = w.now_us;
    let mut fair_step = step.max(10_000);
    while w.now_us < t_cap {
        let idle = last.0 == [0, 0];
        if (idle && quiet_us >= 3_000_000) || quiet_us >= 900_000_000 {
            break;
        }
        if w.now_us > t_fair + 30_000_000 {
            fair_step = fair_step.max(50_000);
        }
        w.advance(fair_step);
        w.step_server();
        w.step_client(ci);
        let now = (buffers(&w), received(&w));
        if now != last {
            last = now;
            quiet_us = 0;
        } else {
            quiet_us += fair_step;
        }
    }
    let delivs: [Vec<Box<[u8]>>; 2] = [
        w.server_events.iter().filter_map(|e| if let SEv::Receive(a, d) = &e.2 { if *a == caddr { Some(d.clone()) } else { None } } else { None }).collect(),
        w.clients[ci].events.iter().filter_map(|e| if let CEv::Receive(d) = &e.2 { Some(d.clone()) } else { None }).collect(),
    ];
    let connected = w.clients[ci].events.iter().any(|e| matches!(e.2, CEv::Connect)) && w.server_events.iter().any(|e| matches!(e.2, SEv::Connect(_)));
    let alive = !w.clients[ci].events.iter().any(|e| matches!(e.2, CEv::Disconnect | CEv::Error(_))) && !w.server_events.iter().any(|e| matches!(e.2, SEv::Disconnect(_) | SEv::Error(..)));
    let end_buffers = buffers(&w);
    let settled = w.now_us < t_cap;
    EpStreamOut { subs, delivs, connected, alive, end_buffers, faulted, settled }
}

/// C01 over one direction: every delivery is the byte-exact payload of a submission of that direction, delivered at
/// most once, and per channel in submission order.
pub fn check_order(c: &EpStream, out: &EpStreamOut, d: usize) -> Result<Vec<Option<usize>>, crate::engine::Violation> {
    use crate::engine::Violation;
    let mut delivered_at: Vec<Option<usize>> = vec![None; out.subs[d].len()];
    let mut last: [i64; 64] = [-1; 64];
    for (k, data) in out.delivs[d].iter().enumerate() {
        let Some((stream, idx)) = parse_world_payload(data) else {
            return Err(Violation::new("oracle:c01:endpoints:altered_contents", format!("direction {d}: delivery #{k} ({} bytes) carries no submission's identity", data.len())));
        };
        let sub = out.subs[d].iter().find(|s| s.0 == idx);
        let Some(sub) = sub.filter(|_| stream == d as u8 * 100) else {
            return Err(Violation::new("oracle:c01:endpoints:altered_contents", format!("direction {d}: delivery #{k} names stream {stream} submission {idx}, which this direction never submitted")));
        };
        if world_payload(c.seed, d as u8 * 100, idx, sub.3)[..] != data[..] {
            return Err(Violation::new("oracle:c01:endpoints:altered_contents", format!("direction {d}: delivery #{k} (submission {idx}) differs from what was submitted")));
        }
        if delivered_at[idx as usize].is_some() {
            return Err(Violation::new("oracle:c01:endpoints:delivered_twice", format!("direction {d}: submission {idx} was delivered twice")));
        }
        delivered_at[idx as usize] = Some(k);
        let ch = sub.1 as usize;
        if (idx as i64) < last[ch] {
            return Err(Violation::new(
                "oracle:c01:endpoints:out_of_order",
                format!("direction {d}: delivery #{k} is submission {idx} on channel {ch}, after submission {} of the same channel had been delivered ({} packets were submitted before the connection was established)", last[ch], if d == 0 { c.pre_sends.len() } else { 0 }),
            ));
        }
        last[ch] = idx as i64;
    }
    Ok(delivered_at)
}
