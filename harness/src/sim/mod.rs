pub mod gen;
pub mod ledger;
pub mod pair;
pub mod wiremodel;
