pub mod decode;
pub mod epstream;
pub mod gen;
pub mod ledger;
pub mod pair;
pub mod wiremodel;
pub mod world;
pub mod script;
