//! Panic capture: a process-wide hook that records location and message in a thread-local and
//! prints nothing, so that the engine can turn a panic inside the code under test into a
//! violation with a stable signature.

use std::cell::RefCell;
use std::sync::Once;

#[derive(Clone, Debug)]
pub struct PanicInfo {
    pub file: String,
    pub line: u32,
    pub msg: String,
}

/// Directory of the library under test, as the harness's manifest names it (`uflow = { path = "..." }`): rustc
/// reports panic locations of a path dependency with that prefix, and those of the harness itself relative to the
/// harness crate ("src/...").
pub fn library_root() -> &'static str {
    static ROOT: std::sync::OnceLock<String> = std::sync::OnceLock::new();
    ROOT.get_or_init(|| {
        let manifest = include_str!("../Cargo.toml");
        for line in manifest.lines() {
            let l = line.trim();
            if l.starts_with("uflow") && l.contains("path") {
                if let Some(i) = l.find("path") {
                    let rest = &l[i..];
                    if let Some(a) = rest.find('"') {
                        if let Some(b) = rest[a + 1..].find('"') {
                            return rest[a + 1..a + 1 + b].trim_end_matches('/').to_string();
                        }
                    }
                }
            }
        }
        String::from("/repo")
    })
}

impl PanicInfo {
    pub fn in_library(&self) -> bool {
        let root = library_root();
        self.file.starts_with(&format!("{root}/"))
    }

    /// Stable signature: file (relative to the repository) plus message with numbers removed.
    /// Line numbers are left out because hook and fix commits shift them.
    pub fn signature(&self) -> String {
        let root = format!("{}/", library_root());
        let file = self.file.strip_prefix(root.as_str()).unwrap_or(self.file.as_str());
        let mut msg = String::new();
        let mut last_digit = false;
        for ch in self.msg.chars() {
            if ch.is_ascii_digit() {
                if !last_digit {
                    msg.push('#');
                }
                last_digit = true;
            } else {
                msg.push(ch);
                last_digit = false;
            }
        }
        let msg: String = msg.chars().take(120).collect();
        format!("panic:{}:{}", file, msg)
    }
}

thread_local! {
    static LAST: RefCell<Option<PanicInfo>> = const { RefCell::new(None) };
}

static INSTALL: Once = Once::new();

pub fn install_hook() {
    INSTALL.call_once(|| {
        std::panic::set_hook(Box::new(|info| {
            let (file, line) = info.location().map(|l| (l.file().to_string(), l.line())).unwrap_or((String::from("?"), 0));
            let msg = if let Some(s) = info.payload().downcast_ref::<&str>() {
                s.to_string()
            } else if let Some(s) = info.payload().downcast_ref::<String>() {
                s.clone()
            } else {
                String::from("<non-string panic payload>")
            };
            let pi = PanicInfo { file, line, msg };
            if std::env::var_os("VERIF_SHOW_PANICS").is_some() {
                eprintln!("[panic] {}:{}: {}", pi.file, pi.line, pi.msg);
            }
            let _ = LAST.try_with(|l| *l.borrow_mut() = Some(pi));
        }));
    });
}

pub fn take_last() -> Option<PanicInfo> {
    LAST.with(|l| l.borrow_mut().take())
}

/// Runs `f`, converting a panic into `Err(PanicInfo)`.
pub fn catch<R>(f: impl FnOnce() -> R) -> Result<R, PanicInfo> {
    let _ = take_last();
    match std::panic::catch_unwind(std::panic::AssertUnwindSafe(f)) {
        Ok(r) => Ok(r),
        Err(_) => Err(take_last().unwrap_or(PanicInfo { file: String::from("?"), line: 0, msg: String::from("unknown panic") })),
    }
}
