pub mod alloc;
pub mod engine;
pub mod panics;
pub mod props;
pub mod refcodec;
pub mod sim;
pub mod util;

#[global_allocator]
static GLOBAL: alloc::CheckingAlloc = alloc::CheckingAlloc;
