//! Small deterministic helpers (no external randomness).

pub struct SplitMix(pub u64);

impl SplitMix {
    pub fn new(seed: u64) -> Self {
        SplitMix(seed)
    }
    pub fn next(&mut self) -> u64 {
        self.0 = self.0.wrapping_add(0x9E3779B97F4A7C15);
        let mut z = self.0;
        z = (z ^ (z >> 30)).wrapping_mul(0xBF58476D1CE4E5B9);
        z = (z ^ (z >> 27)).wrapping_mul(0x94D049BB133111EB);
        z ^ (z >> 31)
    }
    pub fn bytes(&mut self, n: usize) -> Vec<u8> {
        let mut v = Vec::with_capacity(n + 8);
        while v.len() < n {
            v.extend_from_slice(&self.next().to_le_bytes());
        }
        v.truncate(n);
        v
    }
}

/// Deterministic filler bytes derived from `seed`.
pub fn fill_bytes(seed: u64, n: usize) -> Vec<u8> {
    SplitMix::new(seed).bytes(n)
}

pub fn hex(b: &[u8], max: usize) -> String {
    let mut s = String::new();
    for x in b.iter().take(max) {
        s.push_str(&format!("{:02x}", x));
    }
    if b.len() > max {
        s.push_str(&format!("..(+{} bytes)", b.len() - max));
    }
    s
}

pub fn mix64(a: u64, b: u64) -> u64 {
    let mut s = SplitMix::new(a ^ b.wrapping_mul(0xD6E8FEB86659FD93));
    s.next()
}
