//! Seeded, parallel proptest driver shared by all checks: regression replay, generated search with
//! shrinking, known-finding matching, hang watchdog, replay files and evidence files.

use crate::panics;
use proptest::strategy::BoxedStrategy;
use proptest::test_runner::{Config, RngAlgorithm, TestCaseError, TestError, TestRng, TestRunner};
use serde::de::DeserializeOwned;
use serde::Serialize;
use serde_json::{json, Value};
use std::collections::hash_map::DefaultHasher;
use std::collections::{BTreeMap, HashSet};
use std::fmt::Debug;
use std::hash::{Hash, Hasher};
use std::path::{Path, PathBuf};
use std::sync::atomic::{AtomicBool, AtomicU64, Ordering};
use std::sync::{Arc, Mutex};
use std::time::{Duration, Instant};

#[derive(Clone, Copy, Debug, PartialEq, Eq)]
pub enum Tier {
    Quick,
    Thorough,
}

impl Tier {
    pub fn name(&self) -> &'static str {
        match self {
            Tier::Quick => "quick",
            Tier::Thorough => "thorough",
        }
    }
    pub fn pick<T>(&self, quick: T, thorough: T) -> T {
        match self {
            Tier::Quick => quick,
            Tier::Thorough => thorough,
        }
    }
}

#[derive(Clone, Debug)]
pub struct Violation {
    /// Stable identifier of the failure (panic signature, or oracle rule id + structural feature).
    pub key: String,
    /// Human-readable explanation.
    pub msg: String,
}

impl Violation {
    pub fn new(key: impl Into<String>, msg: impl Into<String>) -> Self {
        Self { key: key.into(), msg: msg.into() }
    }
}

#[derive(Clone, Debug, Default)]
pub struct CaseResult {
    pub violation: Option<Violation>,
    pub nontrivial: bool,
    pub classes: Vec<&'static str>,
}

impl CaseResult {
    pub fn ok(nontrivial: bool, classes: Vec<&'static str>) -> Self {
        Self { violation: None, nontrivial, classes }
    }
    pub fn fail(key: impl Into<String>, msg: impl Into<String>) -> Self {
        Self { violation: Some(Violation::new(key, msg)), nontrivial: true, classes: Vec::new() }
    }
}

#[derive(Default)]
pub struct ExtraResult {
    /// Merged into `coverage`.
    pub coverage: BTreeMap<String, Value>,
    pub evaluations: u64,
    pub distinct_nontrivial: u64,
    pub samples: Vec<Value>,
    pub violation: Option<(Violation, Value)>,
}

pub trait Check: Sync + Send + 'static {
    type Case: Debug + Clone + Serialize + DeserializeOwned + Send + 'static;

    fn id(&self) -> &'static str;
    fn strategy(&self, tier: Tier) -> BoxedStrategy<Self::Case>;
    fn cases(&self, tier: Tier) -> u64;
    fn run(&self, case: &Self::Case) -> CaseResult;
    fn rule(&self) -> String;
    fn assumptions(&self) -> Vec<String> {
        Vec::new()
    }
    /// Whether a confirmed non-returning case violates this property (C03, C14) or is merely
    /// inconclusive (everything else).
    fn hang_is_violation(&self) -> bool {
        false
    }
    fn max_shrink_iters(&self) -> u32 {
        3000
    }
    fn case_timeout_s(&self) -> u64 {
        30
    }
    /// Compact view of a case for the evidence file.
    fn sample(&self, case: &Self::Case) -> Value {
        let v = serde_json::to_value(case).unwrap_or(Value::Null);
        truncate_value(v, 0)
    }
    /// Non-generated sub-checks (exhaustive enumerations etc.).
    fn extra(&self, _tier: Tier, _seed: u64) -> ExtraResult {
        ExtraResult::default()
    }
}

pub fn truncate_value(v: Value, depth: usize) -> Value {
    match v {
        Value::Array(a) => {
            let n = a.len();
            let keep = if depth == 0 { 12 } else { 8 };
            let mut out: Vec<Value> = a.into_iter().take(keep).map(|x| truncate_value(x, depth + 1)).collect();
            if n > keep {
                out.push(Value::String(format!("... {} more", n - keep)));
            }
            Value::Array(out)
        }
        Value::Object(o) => Value::Object(o.into_iter().map(|(k, x)| (k, truncate_value(x, depth + 1))).collect()),
        Value::String(s) if s.len() > 200 => Value::String(format!("{}... ({} chars)", &s[..200], s.len())),
        other => other,
    }
}

pub fn verif_root() -> PathBuf {
    if let Some(r) = std::env::var_os("VERIF_ROOT") {
        return PathBuf::from(r);
    }
    let cwd = std::env::current_dir().unwrap_or_else(|_| PathBuf::from("."));
    if cwd.join("properties.jsonl").exists() {
        return cwd;
    }
    if let Some(p) = cwd.parent() {
        if p.join("properties.jsonl").exists() {
            return p.to_path_buf();
        }
    }
    PathBuf::from("/verif")
}

#[derive(Clone, Debug)]
pub struct Finding {
    pub property: String,
    pub status: String,
    pub key: String,
    pub what: String,
}

pub fn load_findings(root: &Path, property: &str) -> Vec<Finding> {
    let path = root.join("known_findings.json");
    let mut out = Vec::new();
    if let Ok(text) = std::fs::read_to_string(&path) {
        if let Ok(v) = serde_json::from_str::<Value>(&text) {
            if let Some(arr) = v.get("findings").and_then(|f| f.as_array()) {
                for f in arr {
                    let p = f.get("property").and_then(|x| x.as_str()).unwrap_or("");
                    if p != property {
                        continue;
                    }
                    out.push(Finding {
                        property: p.to_string(),
                        status: f.get("status").and_then(|x| x.as_str()).unwrap_or("").to_string(),
                        key: f.get("key").and_then(|x| x.as_str()).unwrap_or("").to_string(),
                        what: f.get("what").and_then(|x| x.as_str()).unwrap_or("").to_string(),
                    });
                }
            }
        }
    }
    out
}

static KNOWN_KEYS: std::sync::OnceLock<Vec<String>> = std::sync::OnceLock::new();
static KNOWN_INPLACE: Mutex<BTreeMap<String, u64>> = Mutex::new(BTreeMap::new());

/// For oracles that can keep checking a case after meeting a recorded finding: returns true (and
/// counts the hit) if `key` is listed as a known finding of the running property, so the oracle
/// may skip that one shape and continue. Always false in `--strict` replays.
pub fn tolerate_known(key: &str) -> bool {
    if let Some(keys) = KNOWN_KEYS.get() {
        if let Some(k) = keys.iter().find(|k| key.starts_with(k.as_str())) {
            *KNOWN_INPLACE.lock().unwrap().entry(k.clone()).or_insert(0) += 1;
            return true;
        }
    }
    false
}

/// For the coverage-guided targets (no `run_check` there): loads the known findings of `property`.
pub fn fuzz_init_known(property: &str) {
    let findings = load_findings(&verif_root(), property);
    let _ = KNOWN_KEYS.set(findings.iter().filter(|f| f.status == "known" && !f.key.is_empty()).map(|f| f.key.clone()).collect());
}

pub fn fuzz_is_known(key: &str) -> bool {
    KNOWN_KEYS.get().map_or(false, |keys| keys.iter().any(|k| key.starts_with(k.as_str())))
}

fn known_match<'a>(findings: &'a [Finding], key: &str) -> Option<&'a Finding> {
    findings.iter().find(|f| f.status == "known" && !f.key.is_empty() && key.starts_with(&f.key))
}

pub struct Args {
    pub tier: Tier,
    pub seed: u64,
    pub replay: Option<PathBuf>,
    pub cases_override: Option<u64>,
    pub threads: usize,
    pub strict: bool,
}

pub fn parse_args(argv: &[String]) -> Args {
    let mut tier = match std::env::var("VERIF_TIER").ok().as_deref() {
        Some("thorough") => Tier::Thorough,
        _ => Tier::Quick,
    };
    let seed = std::env::var("VERIF_SEED").ok().and_then(|s| s.trim().parse::<i128>().ok()).map(|v| v as u64).unwrap_or(0);
    let mut replay = None;
    let mut cases_override = std::env::var("VERIF_CASES").ok().and_then(|s| s.parse().ok());
    let mut threads = std::env::var("VERIF_THREADS").ok().and_then(|s| s.parse().ok()).unwrap_or(16usize);
    let mut strict = false;
    let mut i = 0;
    while i < argv.len() {
        match argv[i].as_str() {
            "--tier" => {
                i += 1;
                tier = if argv.get(i).map(|s| s.as_str()) == Some("thorough") { Tier::Thorough } else { Tier::Quick };
            }
            "quick" => tier = Tier::Quick,
            "thorough" => tier = Tier::Thorough,
            "--replay" | "replay" => {
                i += 1;
                replay = argv.get(i).map(PathBuf::from);
            }
            "--cases" => {
                i += 1;
                cases_override = argv.get(i).and_then(|s| s.parse().ok());
            }
            "--threads" => {
                i += 1;
                threads = argv.get(i).and_then(|s| s.parse().ok()).unwrap_or(threads);
            }
            "--strict" => strict = true,
            _ => {}
        }
        i += 1;
    }
    Args { tier, seed, replay, cases_override, threads: threads.max(1), strict }
}

fn hash_str(s: &str) -> u64 {
    let mut h = DefaultHasher::new();
    s.hash(&mut h);
    h.finish()
}

struct Slot {
    busy_since: Option<Instant>,
    case_json: String,
}

struct Shared {
    stop: AtomicBool,
    evaluations: AtomicU64,
    nontrivial_total: AtomicU64,
    classes: Mutex<BTreeMap<String, u64>>,
    known_hits: Mutex<BTreeMap<String, u64>>,
    distinct: Mutex<HashSet<u64>>,
    samples: Mutex<Vec<Value>>,
    failure: Mutex<Option<(Violation, Value)>>,
    internal_error: Mutex<Option<String>>,
}

fn run_case<C: Check>(check: &C, case: &C::Case) -> Result<CaseResult, String> {
    match panics::catch(|| check.run(case)) {
        Ok(r) => Ok(r),
        Err(pi) => {
            if pi.in_library() {
                Ok(CaseResult {
                    violation: Some(Violation::new(pi.signature(), format!("panic at {}:{}: {}", pi.file, pi.line, pi.msg))),
                    nontrivial: true,
                    classes: vec!["library_panic"],
                })
            } else {
                Err(format!("harness panic at {}:{}: {}", pi.file, pi.line, pi.msg))
            }
        }
    }
}

fn write_replay(root: &Path, id: &str, seed: u64, v: &Violation, case: &Value, prefix: &str) -> PathBuf {
    let dir = root.join("out").join("replays").join(id);
    let _ = std::fs::create_dir_all(&dir);
    let body = json!({ "property": id, "key": v.key, "msg": v.msg, "seed": seed, "case": case });
    let text = serde_json::to_string_pretty(&body).unwrap();
    let path = dir.join(format!("{}{}-{:016x}.json", prefix, seed, hash_str(&text)));
    let _ = std::fs::write(&path, text);
    path
}

fn load_case<C: Check>(path: &Path) -> Result<(C::Case, Value), String> {
    let text = std::fs::read_to_string(path).map_err(|e| format!("cannot read {}: {}", path.display(), e))?;
    let v: Value = serde_json::from_str(&text).map_err(|e| format!("bad json in {}: {}", path.display(), e))?;
    let case_v = v.get("case").cloned().unwrap_or_else(|| v.clone());
    let case: C::Case = serde_json::from_value(case_v).map_err(|e| format!("bad case in {}: {}", path.display(), e))?;
    Ok((case, v))
}

pub fn run_check<C: Check>(check: C, args: &Args) -> i32 {
    panics::install_hook();
    let root = verif_root();
    let id = check.id();
    let findings = load_findings(&root, id);
    if !args.strict {
        let _ = KNOWN_KEYS.set(findings.iter().filter(|f| f.status == "known" && !f.key.is_empty()).map(|f| f.key.clone()).collect());
    }

    // ---- replay mode -------------------------------------------------------------------------
    if let Some(path) = &args.replay {
        let (case, _) = match load_case::<C>(path) {
            Ok(c) => c,
            Err(e) => {
                eprintln!("{}", e);
                return 2;
            }
        };
        return match run_case(&check, &case) {
            Err(e) => {
                eprintln!("INTERNAL: {}", e);
                2
            }
            Ok(r) => match r.violation {
                Some(v) => {
                    if !args.strict {
                        if let Some(f) = known_match(&findings, &v.key) {
                            println!("KNOWN-FINDING: property={} {}", id, f.what);
                            println!("key={}", v.key);
                            println!("{}", v.msg);
                            return 0;
                        }
                    }
                    println!("VIOLATION property={} replay={}", id, path.display());
                    println!("key={}", v.key);
                    println!("{}", v.msg);
                    1
                }
                None => {
                    println!("OK property={} replay={} (no violation)", id, path.display());
                    0
                }
            },
        };
    }

    let t0 = Instant::now();
    let check = Arc::new(check);
    let mut violations = 0u64;
    let mut first_violation_line: Option<String> = None;
    let mut regress_replayed = 0u64;
    let mut regress_nontrivial: HashSet<u64> = HashSet::new();
    let mut known_hits_regress: BTreeMap<String, u64> = BTreeMap::new();

    // ---- regression corpus ---------------------------------------------------------------------
    let regress_dir = root.join("regress").join(id);
    let mut files: Vec<PathBuf> = std::fs::read_dir(&regress_dir)
        .map(|rd| rd.filter_map(|e| e.ok()).map(|e| e.path()).filter(|p| p.extension().map_or(false, |x| x == "json")).collect())
        .unwrap_or_default();
    files.sort();
    for path in files {
        let (case, _) = match load_case::<C>(&path) {
            Ok(c) => c,
            Err(e) => {
                eprintln!("INTERNAL: {}", e);
                return 2;
            }
        };
        regress_replayed += 1;
        // run under a watchdog: a regression of a repaired hang must not hang the check itself
        let outcome = {
            let check2 = Arc::clone(&check);
            let case2 = case.clone();
            let h = std::thread::Builder::new().stack_size(64 << 20).spawn(move || run_case(&*check2, &case2)).expect("spawn");
            let t_start = Instant::now();
            let limit = Duration::from_secs(check.case_timeout_s());
            while !h.is_finished() && t_start.elapsed() < limit {
                std::thread::sleep(Duration::from_millis(5));
            }
            if h.is_finished() {
                Some(h.join().unwrap_or_else(|_| Err(String::from("regression replay thread panicked"))))
            } else {
                None
            }
        };
        let outcome = match outcome {
            Some(o) => o,
            None => {
                let confirmed = confirm_hang(id, &path, Duration::from_secs(check.case_timeout_s() * 3));
                use std::io::Write;
                if confirmed && check.hang_is_violation() {
                    println!("VIOLATION property={} replay={}", id, path.display());
                    println!("key=hang");
                    println!("regression case did not return (confirmed in a fresh process)");
                    let _ = std::io::stdout().flush();
                    std::process::exit(1);
                }
                eprintln!("INCONCLUSIVE property={} regression case {} did not return within {} s", id, path.display(), check.case_timeout_s());
                std::process::exit(2);
            }
        };
        match outcome {
            Err(e) => {
                eprintln!("INTERNAL: {} (replaying {})", e, path.display());
                return 2;
            }
            Ok(r) => {
                if r.nontrivial {
                    regress_nontrivial.insert(hash_str(&serde_json::to_string(&case).unwrap_or_default()));
                }
                if let Some(v) = r.violation {
                    if let Some(f) = known_match(&findings, &v.key) {
                        *known_hits_regress.entry(f.key.clone()).or_insert(0) += 1;
                    } else {
                        violations += 1;
                        let line = format!("VIOLATION property={} replay={}", id, path.display());
                        println!("{}", line);
                        println!("key={}", v.key);
                        println!("{}", v.msg);
                        first_violation_line.get_or_insert(line);
                    }
                }
            }
        }
    }

    // ---- generated search ------------------------------------------------------------------------
    let total_cases = args.cases_override.unwrap_or_else(|| check.cases(args.tier));
    let threads = args.threads.min(total_cases.max(1) as usize).max(1);
    let shared = Arc::new(Shared {
        stop: AtomicBool::new(false),
        evaluations: AtomicU64::new(0),
        nontrivial_total: AtomicU64::new(0),
        classes: Mutex::new(BTreeMap::new()),
        known_hits: Mutex::new(BTreeMap::new()),
        distinct: Mutex::new(HashSet::new()),
        samples: Mutex::new(Vec::new()),
        failure: Mutex::new(None),
        internal_error: Mutex::new(None),
    });
    let slots: Arc<Vec<Mutex<Slot>>> = Arc::new((0..threads).map(|_| Mutex::new(Slot { busy_since: None, case_json: String::new() })).collect());
    let done = Arc::new(AtomicBool::new(false));

    let mut handles = Vec::new();
    if violations == 0 && total_cases > 0 {
        for w in 0..threads {
            let check = Arc::clone(&check);
            let shared = Arc::clone(&shared);
            let slots = Arc::clone(&slots);
            let findings = findings.clone();
            let tier = args.tier;
            let seed = args.seed;
            let my_cases = total_cases / threads as u64 + if (w as u64) < total_cases % threads as u64 { 1 } else { 0 };
            let h = std::thread::Builder::new()
                .name(format!("worker{}", w))
                .stack_size(64 << 20)
                .spawn(move || {
                    if my_cases == 0 {
                        return;
                    }
                    let strategy = check.strategy(tier);
                    let mut seed_bytes = [0u8; 32];
                    seed_bytes[..8].copy_from_slice(&seed.to_le_bytes());
                    seed_bytes[8..16].copy_from_slice(&(w as u64).to_le_bytes());
                    seed_bytes[16..24].copy_from_slice(&hash_str(check.id()).to_le_bytes());
                    seed_bytes[24..32].copy_from_slice(&0x7566_6c6f_7776_6572u64.to_le_bytes());
                    let config = Config {
                        cases: my_cases.min(u32::MAX as u64) as u32,
                        failure_persistence: None,
                        max_shrink_iters: check.max_shrink_iters(),
                        max_global_rejects: 1_000_000,
                        max_shrink_time: 180_000,
                        ..Config::default()
                    };
                    let mut runner = TestRunner::new_with_rng(config, TestRng::from_seed(RngAlgorithm::ChaCha, &seed_bytes));
                    let failed_key: Mutex<Option<String>> = Mutex::new(None);
                    let result = runner.run(&strategy, |case| {
                        let shrinking = failed_key.lock().unwrap().is_some();
                        if !shrinking && shared.stop.load(Ordering::Relaxed) {
                            return Ok(());
                        }
                        let js = serde_json::to_string(&case).unwrap_or_default();
                        let h = hash_str(&js);
                        {
                            let mut s = slots[w].lock().unwrap();
                            s.busy_since = Some(Instant::now());
                            s.case_json = js;
                        }
                        let res = run_case(&*check, &case);
                        {
                            let mut s = slots[w].lock().unwrap();
                            s.busy_since = None;
                        }
                        let r = match res {
                            Ok(r) => r,
                            Err(e) => {
                                let mut ie = shared.internal_error.lock().unwrap();
                                if ie.is_none() {
                                    *ie = Some(format!("{}\ncase: {}", e, slots[w].lock().unwrap().case_json));
                                }
                                shared.stop.store(true, Ordering::Relaxed);
                                return Ok(());
                            }
                        };
                        if !shrinking {
                            shared.evaluations.fetch_add(1, Ordering::Relaxed);
                            if r.nontrivial {
                                shared.nontrivial_total.fetch_add(1, Ordering::Relaxed);
                                let fresh = shared.distinct.lock().unwrap().insert(h);
                                if fresh {
                                    let mut samples = shared.samples.lock().unwrap();
                                    if samples.len() < 4 {
                                        samples.push(check.sample(&case));
                                    }
                                }
                            }
                            if !r.classes.is_empty() {
                                let mut cl = shared.classes.lock().unwrap();
                                for c in r.classes.iter() {
                                    *cl.entry((*c).to_string()).or_insert(0) += 1;
                                }
                            }
                        }
                        if let Some(v) = r.violation {
                            if let Some(f) = known_match(&findings, &v.key) {
                                if !shrinking {
                                    *shared.known_hits.lock().unwrap().entry(f.key.clone()).or_insert(0) += 1;
                                }
                                return Ok(());
                            }
                            let mut fk = failed_key.lock().unwrap();
                            match &*fk {
                                None => {
                                    *fk = Some(v.key.clone());
                                    shared.stop.store(true, Ordering::Relaxed);
                                    Err(TestCaseError::fail(v.key))
                                }
                                Some(k) if *k == v.key => Err(TestCaseError::fail(v.key)),
                                Some(_) => Ok(()), // a different failure: not a valid shrink of this one
                            }
                        } else {
                            Ok(())
                        }
                    });
                    if let Err(TestError::Fail(_, minimal)) = result {
                        // re-run the minimal case to obtain its message
                        let v = match run_case(&*check, &minimal) {
                            Ok(CaseResult { violation: Some(v), .. }) => v,
                            _ => Violation::new(failed_key.lock().unwrap().clone().unwrap_or_default(), "minimal case did not reproduce on re-run (non-deterministic?)"),
                        };
                        let mut f = shared.failure.lock().unwrap();
                        if f.is_none() {
                            *f = Some((v, serde_json::to_value(&minimal).unwrap_or(Value::Null)));
                        }
                    } else if let Err(TestError::Abort(reason)) = result {
                        let mut ie = shared.internal_error.lock().unwrap();
                        if ie.is_none() {
                            *ie = Some(format!("proptest aborted: {}", reason));
                        }
                    }
                })
                .expect("spawn worker");
            handles.push(h);
        }
    }

    // ---- watchdog ------------------------------------------------------------------------------------
    let timeout = Duration::from_secs(check.case_timeout_s());
    let mut hang: Option<(PathBuf, bool)> = None;
    loop {
        if handles.iter().all(|h| h.is_finished()) {
            break;
        }
        std::thread::sleep(Duration::from_millis(100));
        let mut stuck: Option<String> = None;
        for s in slots.iter() {
            let s = s.lock().unwrap();
            if let Some(t) = s.busy_since {
                if t.elapsed() > timeout {
                    stuck = Some(s.case_json.clone());
                    break;
                }
            }
        }
        if let Some(js) = stuck {
            // suspected hang: confirm in a fresh subprocess
            let case_v: Value = serde_json::from_str(&js).unwrap_or(Value::Null);
            let v = Violation::new("hang", format!("a single case did not return within {} s wall clock", timeout.as_secs()));
            let path = write_replay(&root, id, args.seed, &v, &case_v, "hang-");
            let confirmed = confirm_hang(id, &path, Duration::from_secs(check.case_timeout_s() * 3));
            let mut path = path;
            if confirmed {
                // a hanging case cannot be shrunk in-process: delta-debug the arrays of the JSON case in subprocesses
                let min_v = minimize_hang(id, &root, case_v.clone(), Duration::from_secs(3), Duration::from_secs(240));
                if min_v != case_v {
                    let p2 = write_replay(&root, id, args.seed, &v, &min_v, "hang-min-");
                    if confirm_hang(id, &p2, Duration::from_secs(check.case_timeout_s() * 3)) {
                        path = p2;
                    }
                }
            }
            hang = Some((path, confirmed));
            break;
        }
    }
    done.store(true, Ordering::Relaxed);
    let mut workers_panicked = 0;
    if hang.is_none() {
        for h in handles {
            if h.join().is_err() {
                workers_panicked += 1;
            }
        }
    }

    let mut exit_code = 0;
    let mut inconclusive: Option<String> = None;

    if let Some((path, confirmed)) = &hang {
        if *confirmed && check.hang_is_violation() {
            violations += 1;
            let line = format!("VIOLATION property={} replay={}", id, path.display());
            println!("{}", line);
            println!("key=hang");
            println!("a library call did not return (confirmed in a fresh process)");
            first_violation_line.get_or_insert(line);
        } else if *confirmed {
            inconclusive = Some(format!("confirmed non-returning case (not a violation of {} by itself): {}", id, path.display()));
        } else {
            inconclusive = Some(format!("watchdog expired but the case returned in a fresh process: {}", path.display()));
        }
    }

    if let Some(e) = shared.internal_error.lock().unwrap().clone() {
        inconclusive = Some(format!("internal error: {}", e));
    }
    {
        let generated = shared.evaluations.load(Ordering::Relaxed);
        if hang.is_none() && shared.failure.lock().unwrap().is_none() && inconclusive.is_none() && generated < total_cases {
            inconclusive = Some(format!("internal error: only {} of the {} requested cases were executed", generated, total_cases));
        }
    }
    if workers_panicked > 0 {
        // a worker died outside a case (e.g. while building its strategy): whatever it was meant to run did not run
        inconclusive = Some(format!("internal error: {} worker thread(s) panicked outside a case; the requested cases were not all executed", workers_panicked));
    }

    if let Some((v, case_v)) = shared.failure.lock().unwrap().clone() {
        violations += 1;
        let path = write_replay(&root, id, args.seed, &v, &case_v, "");
        let line = format!("VIOLATION property={} replay={}", id, path.display());
        println!("{}", line);
        println!("key={}", v.key);
        println!("{}", v.msg);
        first_violation_line.get_or_insert(line);
    }

    // ---- extra (non-generated) sub-checks ------------------------------------------------------------
    let mut extra = ExtraResult::default();
    if hang.is_none() && violations == 0 && inconclusive.is_none() {
        match panics::catch(|| check.extra(args.tier, args.seed)) {
            Ok(e) => extra = e,
            Err(pi) => {
                if pi.in_library() {
                    extra.violation = Some((Violation::new(pi.signature(), format!("panic at {}:{}: {}", pi.file, pi.line, pi.msg)), Value::Null));
                } else {
                    inconclusive = Some(format!("harness panic in extra at {}:{}: {}", pi.file, pi.line, pi.msg));
                }
            }
        }
        if let Some((v, case_v)) = extra.violation.take() {
            if known_match(&findings, &v.key).is_none() {
                violations += 1;
                let path = write_replay(&root, id, args.seed, &v, &case_v, "extra-");
                let line = format!("VIOLATION property={} replay={}", id, path.display());
                println!("{}", line);
                println!("key={}", v.key);
                println!("{}", v.msg);
                first_violation_line.get_or_insert(line);
            }
        }
    }

    // ---- known findings lines ------------------------------------------------------------------------
    let mut known_hits = shared.known_hits.lock().unwrap().clone();
    for (k, n) in known_hits_regress {
        *known_hits.entry(k).or_insert(0) += n;
    }
    for (k, n) in KNOWN_INPLACE.lock().unwrap().iter() {
        *known_hits.entry(k.clone()).or_insert(0) += *n;
    }
    for f in findings.iter().filter(|f| f.status == "known") {
        let hits = known_hits.get(&f.key).copied().unwrap_or(0);
        println!("KNOWN-FINDING: property={} {} [key={} observed {} times this run]", id, f.what, f.key, hits);
    }

    // ---- evidence --------------------------------------------------------------------------------------
    let evaluations = shared.evaluations.load(Ordering::Relaxed) + regress_replayed + extra.evaluations;
    let mut distinct = shared.distinct.lock().unwrap().clone();
    distinct.extend(regress_nontrivial.iter().copied());
    let distinct_nontrivial = distinct.len() as u64 + extra.distinct_nontrivial;
    let mut samples = shared.samples.lock().unwrap().clone();
    samples.extend(extra.samples.into_iter());
    let classes: BTreeMap<String, u64> = shared.classes.lock().unwrap().clone();

    let mut coverage = serde_json::Map::new();
    coverage.insert("evaluations".into(), json!(evaluations));
    coverage.insert("distinct_nontrivial".into(), json!(distinct_nontrivial));
    coverage.insert("rule".into(), json!(check.rule()));
    coverage.insert("samples".into(), Value::Array(samples));
    coverage.insert("generated_cases".into(), json!(shared.evaluations.load(Ordering::Relaxed)));
    coverage.insert("nontrivial_generated_total".into(), json!(shared.nontrivial_total.load(Ordering::Relaxed)));
    coverage.insert("regression_cases_replayed".into(), json!(regress_replayed));
    coverage.insert("classes".into(), json!(classes));
    coverage.insert("known_finding_hits_excluded".into(), json!(known_hits));
    coverage.insert("worker_threads".into(), json!(threads));
    if let Some(msg) = &inconclusive {
        coverage.insert("inconclusive".into(), json!(msg));
    }
    for (k, v) in extra.coverage {
        coverage.insert(k, v);
    }

    let evidence = json!({
        "property_id": id,
        "tier": args.tier.name(),
        "seed": args.seed as i64,
        "level": "exploration",
        "coverage": Value::Object(coverage),
        "assumptions": check.assumptions(),
        "wall_s": t0.elapsed().as_secs_f64(),
        "violations": violations,
    });
    let ev_dir = root.join("evidence");
    let _ = std::fs::create_dir_all(&ev_dir);
    let ev_path = ev_dir.join(format!("{}.json", id));
    if let Err(e) = std::fs::write(&ev_path, serde_json::to_string_pretty(&evidence).unwrap()) {
        eprintln!("cannot write {}: {}", ev_path.display(), e);
    }

    if violations > 0 {
        exit_code = 1;
    } else if let Some(msg) = inconclusive {
        eprintln!("INCONCLUSIVE property={} {}", id, msg);
        exit_code = 2;
    }

    println!(
        "{} property={} tier={} seed={} evaluations={} distinct_nontrivial={} wall_s={:.1}",
        if exit_code == 0 { "HELD" } else if exit_code == 1 { "FAILED" } else { "INCONCLUSIVE" },
        id,
        args.tier.name(),
        args.seed,
        evaluations,
        distinct_nontrivial,
        t0.elapsed().as_secs_f64()
    );

    if hang.is_some() {
        // a worker thread is stuck inside the library; do not wait for it
        use std::io::Write;
        let _ = std::io::stdout().flush();
        std::process::exit(exit_code);
    }
    exit_code
}

fn confirm_hang(id: &str, path: &Path, limit: Duration) -> bool {
    let exe = match std::env::current_exe() {
        Ok(e) => e,
        Err(_) => return false,
    };
    let mut child = match std::process::Command::new(exe)
        .arg(id)
        .arg("--replay")
        .arg(path)
        .stdout(std::process::Stdio::null())
        .stderr(std::process::Stdio::null())
        .spawn()
    {
        Ok(c) => c,
        Err(_) => return false,
    };
    let t0 = Instant::now();
    loop {
        match child.try_wait() {
            Ok(Some(_)) => return false,
            Ok(None) => {
                if t0.elapsed() > limit {
                    let _ = child.kill();
                    let _ = child.wait();
                    return true;
                }
                std::thread::sleep(Duration::from_millis(50));
            }
            Err(_) => return false,
        }
    }
}

fn array_paths(v: &Value, prefix: &mut Vec<String>, out: &mut Vec<Vec<String>>) {
    match v {
        Value::Array(a) => {
            out.push(prefix.clone());
            for (i, x) in a.iter().enumerate() {
                prefix.push(i.to_string());
                array_paths(x, prefix, out);
                prefix.pop();
            }
        }
        Value::Object(o) => {
            for (k, x) in o.iter() {
                prefix.push(k.clone());
                array_paths(x, prefix, out);
                prefix.pop();
            }
        }
        _ => {}
    }
}

fn get_path_mut<'a>(v: &'a mut Value, path: &[String]) -> Option<&'a mut Value> {
    let mut cur = v;
    for seg in path {
        cur = match cur {
            Value::Array(a) => a.get_mut(seg.parse::<usize>().ok()?)?,
            Value::Object(o) => o.get_mut(seg)?,
            _ => return None,
        };
    }
    Some(cur)
}

/// ddmin over every array of a JSON case; a candidate is kept if the replay subprocess still
/// fails to return within `per_try`.
fn minimize_hang(id: &str, root: &Path, case_v: Value, per_try: Duration, budget: Duration) -> Value {
    let t0 = Instant::now();
    let tmp = root.join("out").join("replays").join(id).join(format!("hang-try-{}.json", std::process::id()));
    let still_hangs = |v: &Value| -> bool {
        let body = json!({ "property": id, "case": v });
        if std::fs::write(&tmp, serde_json::to_string(&body).unwrap()).is_err() {
            return false;
        }
        confirm_hang(id, &tmp, per_try)
    };
    let mut best = case_v;
    let mut progress = true;
    while progress && t0.elapsed() < budget {
        progress = false;
        let mut paths = Vec::new();
        array_paths(&best, &mut Vec::new(), &mut paths);
        // longest arrays first
        for path in paths {
            let len = match get_path_mut(&mut best, &path) {
                Some(Value::Array(a)) => a.len(),
                _ => continue,
            };
            let mut chunk = len.max(1) / 2;
            while chunk >= 1 && t0.elapsed() < budget {
                let mut start = 0usize;
                loop {
                    let cur_len = match get_path_mut(&mut best, &path) {
                        Some(Value::Array(a)) => a.len(),
                        _ => 0,
                    };
                    if start >= cur_len {
                        break;
                    }
                    let mut cand = best.clone();
                    if let Some(Value::Array(a)) = get_path_mut(&mut cand, &path) {
                        let end = (start + chunk).min(a.len());
                        a.drain(start..end);
                    }
                    if still_hangs(&cand) {
                        best = cand;
                        progress = true;
                    } else {
                        start += chunk;
                    }
                    if t0.elapsed() >= budget {
                        break;
                    }
                }
                if chunk == 1 {
                    break;
                }
                chunk /= 2;
            }
        }
    }
    let _ = std::fs::remove_file(&tmp);
    best
}

/// Monotone index mapping (shrinks well): maps a u16 selector onto 0..len.
pub fn pick_index(sel: u16, len: usize) -> usize {
    if len == 0 {
        0
    } else {
        ((sel as usize) * len) >> 16
    }
}

/// Result of a bounded libFuzzer campaign (thorough tiers of C03 / C16).
pub struct FuzzOutcome {
    pub execs: u64,
    pub artifact: Option<PathBuf>,
    pub note: String,
}

/// Builds (cargo +nightly fuzz build -s none) and runs one target of harness/fuzz for a fixed number
/// of executions from a fresh corpus directory seeded with `seeds`.
pub fn run_fuzz(target: &str, runs: u64, seed: u64, max_len: usize, seeds: &[Vec<u8>]) -> FuzzOutcome {
    run_fuzz_env(target, target, runs, seed, max_len, seeds, &[])
}

/// As `run_fuzz`, with extra environment variables for the target and a name of its own for the work directory.
pub fn run_fuzz_env(target: &str, work_name: &str, runs: u64, seed: u64, max_len: usize, seeds: &[Vec<u8>], env: &[(&str, &str)]) -> FuzzOutcome {
    let root = verif_root();
    let fuzz_dir = root.join("harness").join("fuzz");
    let work = root.join("out").join("fuzz").join(format!("{}-{}", work_name, seed));
    let _ = std::fs::remove_dir_all(&work);
    let corpus = work.join("corpus");
    let artifacts = work.join("artifacts");
    let _ = std::fs::create_dir_all(&corpus);
    let _ = std::fs::create_dir_all(&artifacts);
    for (i, s) in seeds.iter().enumerate() {
        let _ = std::fs::write(corpus.join(format!("seed-{:04}", i)), s);
    }
    let build = std::process::Command::new("cargo")
        .args(["+nightly", "fuzz", "build", "-s", "none", target])
        .current_dir(&fuzz_dir)
        .env("CARGO_NET_OFFLINE", "true")
        .output();
    match build {
        Ok(o) if o.status.success() => {}
        Ok(o) => {
            return FuzzOutcome { execs: 0, artifact: None, note: format!("fuzz build failed: {}", String::from_utf8_lossy(&o.stderr).lines().rev().take(5).collect::<Vec<_>>().join(" | ")) };
        }
        Err(e) => return FuzzOutcome { execs: 0, artifact: None, note: format!("cargo fuzz not runnable: {e}") },
    }
    let libfuzzer_seed = if seed % 0x7fff_ffff == 0 { 1 } else { seed % 0x7fff_ffff };
    let out = std::process::Command::new("cargo")
        .args(["+nightly", "fuzz", "run", "-s", "none", target])
        .arg(&corpus)
        .arg("--")
        .arg(format!("-runs={}", runs))
        .arg(format!("-seed={}", libfuzzer_seed))
        .arg(format!("-max_len={}", max_len))
        .arg("-len_control=0")
        .arg(format!("-artifact_prefix={}/", artifacts.display()))
        .current_dir(&fuzz_dir)
        .env("CARGO_NET_OFFLINE", "true")
        .env("VERIF_ROOT", &root)
        .envs(env.iter().map(|(k, v)| (k.to_string(), v.to_string())))
        .output();
    match out {
        Ok(o) => {
            let log = String::from_utf8_lossy(&o.stderr).to_string();
            let mut execs = 0u64;
            for l in log.lines() {
                if let Some(rest) = l.strip_prefix("Done ") {
                    execs = rest.split_whitespace().next().and_then(|x| x.parse().ok()).unwrap_or(0);
                }
                if let Some(p) = l.find("stat::number_of_executed_units:") {
                    execs = l[p..].split_whitespace().nth(1).and_then(|x| x.parse().ok()).unwrap_or(execs);
                }
            }
            let artifact = std::fs::read_dir(&artifacts).ok().and_then(|rd| rd.filter_map(|e| e.ok()).map(|e| e.path()).find(|p| p.file_name().map_or(false, |n| n.to_string_lossy().starts_with("crash-") || n.to_string_lossy().starts_with("timeout-"))));
            if execs == 0 && artifact.is_none() {
                // libFuzzer prints "#N" progress lines; take the largest as a lower bound
                for l in log.lines() {
                    if let Some(r) = l.strip_prefix('#') {
                        if let Some(n) = r.split_whitespace().next().and_then(|x| x.parse::<u64>().ok()) {
                            execs = execs.max(n);
                        }
                    }
                }
            }
            let note = if artifact.is_some() { log.lines().filter(|l| l.contains("VIOLATION") || l.contains("panicked")).take(3).collect::<Vec<_>>().join(" | ") } else { String::new() };
            FuzzOutcome { execs, artifact, note }
        }
        Err(e) => FuzzOutcome { execs: 0, artifact: None, note: format!("cargo fuzz run failed to start: {e}") },
    }
}
