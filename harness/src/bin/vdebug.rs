//! Ad-hoc inspection: runs a PairScenario (JSON file, or a built-in ideal one) and prints a summary.
use vh::sim::pair::*;

fn main() {
    let argv: Vec<String> = std::env::args().skip(1).collect();
    let sc: PairScenario = if argv.get(0).map(|s| s.as_str()) == Some("gen") {
        use proptest::strategy::{Strategy, ValueTree};
        use proptest::test_runner::{Config, RngAlgorithm, TestRng, TestRunner};
        let seed: u64 = argv.get(1).and_then(|s| s.parse().ok()).unwrap_or(0);
        let mut sb = [0u8; 32];
        sb[..8].copy_from_slice(&seed.to_le_bytes());
        let mut runner = TestRunner::new_with_rng(Config::default(), TestRng::from_seed(RngAlgorithm::ChaCha, &sb));
        let p = vh::sim::gen::GenParams { max_ticks: 120, tail: false, ..Default::default() };
        let sc = vh::sim::gen::scenario_strategy(&p).new_tree(&mut runner).unwrap().current();
        println!("{}", serde_json::to_string(&sc.dirs).unwrap());
        println!("lat {:?} fates {} {}", [sc.links[0].latency_us, sc.links[1].latency_us], sc.links[0].fates.len(), sc.links[1].fates.len());
        sc
    } else if let Some(p) = argv.get(0) {
        let v: serde_json::Value = serde_json::from_str(&std::fs::read_to_string(p).unwrap()).unwrap();
        serde_json::from_value(v.get("case").cloned().unwrap_or(v)).unwrap()
    } else {
        let dir = DirCfg { pkt_win_log2: 12, frm_win_log2: 12, pkt_base: 0, frm_base: 0, alloc_limit: 1_000_000, bw_limit: 2_000_000 };
        let mut ticks = Vec::new();
        for _ in 0..100 {
            let sends = (0..5).map(|i| SendSpec { ch: i, mode: 3, size: 100 }).collect();
            ticks.push(Tick { dt_us: 20_000, acts: [EpAct { step: true, sends, flushes: 1 }, EpAct { step: true, sends: vec![], flushes: 1 }] });
        }
        PairScenario { dirs: [dir.clone(), dir], keepalive_ms: Some(5000), seed: 1, zero_ch: 0, zero_mode: 1, links: [LinkCfg { latency_us: 10_000, fates: vec![] }, LinkCfg { latency_us: 10_000, fates: vec![] }], ticks, tail: None, premature_acks: Vec::new() }
    };
    let mut sc = sc;
    sc.normalize();
    let mut sim = SimPair::new(&sc);
    for (i, t) in sc.ticks.iter().enumerate() {
        sim.run_tick(t);
        let s0 = sim.hc[0].verif_stats();
        println!(
            "tick {i:3} t={:8}us wire0={} wire1={} deliv1={} deliv0={} | ep0 rate={:.0} rtt={:?} falloc={} sq={} pq={} rq={} sbs={}",
            sim.now_us,
            sim.trace.wire[0].len(),
            sim.trace.wire[1].len(),
            sim.trace.delivs[1].len(),
            sim.trace.delivs[0].len(),
            s0.send_rate,
            sim.hc[0].rtt_s(),
            s0.flush_alloc,
            s0.send_queue_len,
            s0.pending_queue_len,
            s0.resend_queue_len,
            sim.hc[0].send_buffer_size()
        );
    }
    if let Some(tail) = &sc.tail {
        sim.fair = true;
        let e: usize = std::env::var("VDEBUG_EP").ok().and_then(|s| s.parse().ok()).unwrap_or(1);
        let mut last = String::new();
        let maxi: u64 = std::env::var("VDEBUG_STEPS").ok().and_then(|s| s.parse().ok()).unwrap_or(200000); for i in 0..maxi {
            sim.advance(if i > 20000 { 50_000 } else { tail.step_us as u64 });
            sim.endpoint_step(0);
            sim.endpoint_step(1);
            let st = sim.hc[e].verif_stats();
            let line = format!("wire={} peer_wire={} deliv_at_peer={} rate={} rtt={:?} sq={} pq={} rq={} sbs={}", sim.trace.wire[e].len(), sim.trace.wire[1-e].len(), sim.trace.delivs[1-e].len(), st.send_rate, sim.hc[e].rtt_s(), st.send_queue_len, st.pending_queue_len, st.resend_queue_len, sim.hc[e].send_buffer_size());
            if line != last {
                println!("tail {i} t={}us falloc={} {}", sim.now_us, st.flush_alloc, line);
                last = line;
            }
            if sim.quiescent() { println!("quiescent at {}", sim.now_us); break; }
        }
        use uflow::verif::Serialize;
        for e in 0..2 {
            let n = sim.trace.wire[e].len(); let skip: usize = std::env::var("VDEBUG_SKIP").ok().and_then(|s| s.parse().ok()).unwrap_or(0); for w in sim.trace.wire[e].iter().skip(skip.min(n)).take(40) {
                let f = uflow::verif::Frame::read(&w.bytes);
                let s = format!("{:?}", f);
                println!("ep{e} t={} {:?} {}", w.t_us, w.fate, &s[..s.len().min(200)]);
            }
        }
    }
}

