use vh::engine::{parse_args, run_check};
use vh::props::*;

fn main() {
    let argv: Vec<String> = std::env::args().skip(1).collect();
    if argv.is_empty() {
        eprintln!("usage: vcheck <ID> [quick|thorough] [--replay <file>] [--cases N] [--threads N] [--strict]");
        std::process::exit(2);
    }
    let id = argv[0].to_uppercase();
    let args = parse_args(&argv[1..]);
    let code = match id.as_str() {
        "C01" => run_check(c01::C01, &args),
        "C02" => run_check(c02::C02, &args),
        "C03" => run_check(c03::C03, &args),
        "C04" => run_check(c04::C04, &args),
        "C05" => run_check(c05::C05, &args),
        "C06" => run_check(c06::C06, &args),
        "C07" => run_check(c07::C07, &args),
        "C08" => run_check(c08::C08, &args),
        "C09" => run_check(c09::C09, &args),
        "C10" => run_check(c10::C10, &args),
        "C11" => run_check(c11::C11, &args),
        "C12" => run_check(c12::C12, &args),
        "C13" => run_check(c13::C13, &args),
        "C14" => run_check(c14::C14, &args),
        "C15" => run_check(c15::C15, &args),
        "C16" => run_check(c16::C16, &args),
        "C17" => run_check(c17::C17, &args),
        "C18" => run_check(c18::C18, &args),
        "C19" => run_check(c19::C19, &args),
        "C20" => run_check(c20::C20, &args),
        other => {
            eprintln!("unknown property {}", other);
            2
        }
    };
    std::process::exit(code);
}
