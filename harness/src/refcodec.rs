//! Reference frame decoder written independently from the format comments in
//! `src/frame/serial/build.rs` and the payload size constants in `src/frame/serial/mod.rs`.
//! It is strict exactly where property C16 is (length, trailing / missing bytes, unknown type,
//! unknown enum value, datagram / group counts) and lenient about reserved bits. The checksum
//! itself is taken from the library (`crc32`), because C16's CRC clause is decided separately.

use uflow::verif::*;

pub const MAX_FRAME: usize = 1472;

fn be32(b: &[u8]) -> u32 {
    u32::from_be_bytes([b[0], b[1], b[2], b[3]])
}

fn be16(b: &[u8]) -> u16 {
    u16::from_be_bytes([b[0], b[1]])
}

/// Independent bit-at-a-time CRC for the documented polynomial 0x132c00699 (reflected, initial
/// value and final xor all-ones). Used for reporting only; never as a violation oracle, because
/// C16 does not fix the polynomial.
pub fn crc_documented(data: &[u8]) -> u32 {
    // reflect the low 32 bits of the documented polynomial
    let poly_low: u32 = 0x32c00699;
    let reflected = poly_low.reverse_bits();
    let mut reg: u32 = !0;
    for &b in data {
        reg ^= b as u32;
        for _ in 0..8 {
            reg = if reg & 1 != 0 { (reg >> 1) ^ reflected } else { reg >> 1 };
        }
    }
    !reg
}

fn decode_datagram(b: &[u8]) -> Option<(Datagram, usize)> {
    // The shortest datagram header is six bytes; the library refuses to look at less.
    if b.len() < 6 {
        return None;
    }
    let b0 = b[0];
    if b0 & 0x80 == 0 {
        // micro: 0CDDDDDD SSSSCCCC SSSSSSSS SSSSSSSS CWWWWWWW HHHHHHHH
        let len = (b0 & 0x3f) as usize;
        if b.len() < 6 + len {
            return None;
        }
        let channel_id = (((b0 >> 6) & 1) << 4) | (b[1] & 0x0f) | (((b[4] >> 7) & 1) << 5);
        let sequence_id = (((b[1] >> 4) as u32) << 16) | ((b[2] as u32) << 8) | b[3] as u32;
        Some((
            Datagram {
                sequence_id,
                channel_id,
                window_parent_lead: (b[4] & 0x7f) as u16,
                channel_parent_lead: b[5] as u16,
                fragment_id: 0,
                fragment_id_last: 0,
                data: b[6..6 + len].into(),
            },
            6 + len,
        ))
    } else if b0 & 0x40 == 0 {
        // small: 10CCCCCC DDDDDDDD 0000SSSS SSSSSSSS SSSSSSSS WWWWWWWW WWWWWWWW HHHHHHHH HHHHHHHH
        if b.len() < 9 {
            return None;
        }
        let len = b[1] as usize;
        if b.len() < 9 + len {
            return None;
        }
        Some((
            Datagram {
                sequence_id: (((b[2] & 0x0f) as u32) << 16) | ((b[3] as u32) << 8) | b[4] as u32,
                channel_id: b0 & 0x3f,
                window_parent_lead: be16(&b[5..7]),
                channel_parent_lead: be16(&b[7..9]),
                fragment_id: 0,
                fragment_id_last: 0,
                data: b[9..9 + len].into(),
            },
            9 + len,
        ))
    } else {
        // large: 11CCCCCC D16 0000SSSS S8 S8 W16 H16 F16 L16
        if b.len() < 14 {
            return None;
        }
        let len = be16(&b[1..3]) as usize;
        if b.len() < 14 + len {
            return None;
        }
        Some((
            Datagram {
                sequence_id: (((b[3] & 0x0f) as u32) << 16) | ((b[4] as u32) << 8) | b[5] as u32,
                channel_id: b0 & 0x3f,
                window_parent_lead: be16(&b[6..8]),
                channel_parent_lead: be16(&b[8..10]),
                fragment_id: be16(&b[10..12]),
                fragment_id_last: be16(&b[12..14]),
                data: b[14..14 + len].into(),
            },
            14 + len,
        ))
    }
}

/// Decodes exactly one well-formed frame or returns None.
pub fn decode(bytes: &[u8]) -> Option<Frame> {
    if bytes.len() < 5 {
        return None;
    }
    let n = bytes.len();
    let body = &bytes[..n - 4];
    if crc32(body) != be32(&bytes[n - 4..]) {
        return None;
    }
    let p = &body[1..];
    match body[0] {
        0 => {
            // connection request, padded to a full frame
            if bytes.len() != MAX_FRAME {
                return None;
            }
            Some(Frame::HandshakeSynFrame(HandshakeSynFrame {
                version: p[0],
                nonce: be32(&p[1..5]),
                max_receive_rate: be32(&p[5..9]),
                max_packet_size: be32(&p[9..13]),
                max_receive_alloc: be32(&p[13..17]),
            }))
        }
        1 => {
            if p.len() != 20 {
                return None;
            }
            Some(Frame::HandshakeSynAckFrame(HandshakeSynAckFrame {
                nonce_ack: be32(&p[0..4]),
                nonce: be32(&p[4..8]),
                max_receive_rate: be32(&p[8..12]),
                max_packet_size: be32(&p[12..16]),
                max_receive_alloc: be32(&p[16..20]),
            }))
        }
        2 => {
            if p.len() != 4 {
                return None;
            }
            Some(Frame::HandshakeAckFrame(HandshakeAckFrame { nonce_ack: be32(p) }))
        }
        3 => {
            if p.len() != 5 {
                return None;
            }
            let error = match p[4] {
                0 => HandshakeErrorType::Version,
                1 => HandshakeErrorType::Config,
                2 => HandshakeErrorType::ServerFull,
                _ => return None,
            };
            Some(Frame::HandshakeErrorFrame(HandshakeErrorFrame { nonce_ack: be32(&p[0..4]), error }))
        }
        4 => {
            if !p.is_empty() {
                return None;
            }
            Some(Frame::DisconnectFrame(DisconnectFrame {}))
        }
        5 => {
            if !p.is_empty() {
                return None;
            }
            Some(Frame::DisconnectAckFrame(DisconnectAckFrame {}))
        }
        10 => {
            if p.len() < 5 {
                return None;
            }
            let sequence_id = be32(&p[0..4]);
            let nonce = p[4] & 0x80 != 0;
            let count = (p[4] & 0x7f) as usize;
            let mut rest = &p[5..];
            let mut datagrams = Vec::with_capacity(count);
            for _ in 0..count {
                let (dg, used) = decode_datagram(rest)?;
                datagrams.push(dg);
                rest = &rest[used..];
            }
            if !rest.is_empty() {
                return None;
            }
            Some(Frame::DataFrame(DataFrame { sequence_id, nonce, datagrams }))
        }
        11 => {
            if p.len() != 9 {
                return None;
            }
            let mode = p[0];
            Some(Frame::SyncFrame(SyncFrame {
                next_frame_id: if mode & 1 != 0 { Some(be32(&p[1..5])) } else { None },
                next_packet_id: if mode & 2 != 0 { Some(be32(&p[5..9])) } else { None },
            }))
        }
        12 => {
            if p.len() < 10 {
                return None;
            }
            let count = be16(&p[8..10]) as usize;
            let rest = &p[10..];
            if rest.len() != count * 9 {
                return None;
            }
            let frame_acks = rest
                .chunks(9)
                .map(|g| AckGroup { base_id: be32(&g[0..4]), bitfield: be32(&g[4..8]), nonce: g[8] != 0 })
                .collect();
            Some(Frame::AckFrame(AckFrame { frame_window_base_id: be32(&p[0..4]), packet_window_base_id: be32(&p[4..8]), frame_acks }))
        }
        _ => None,
    }
}

/// Whether `Frame::write` is defined for this frame (the codec's documented preconditions).
pub fn representable(f: &Frame) -> bool {
    match f {
        Frame::DataFrame(d) => {
            d.datagrams.len() <= 127
                && d.datagrams.iter().all(|dg| {
                    dg.channel_id < 64 && dg.sequence_id < (1 << 20) && dg.data.len() <= 65535 && (dg.fragment_id_last != 0 || dg.fragment_id == 0)
                })
        }
        Frame::AckFrame(a) => a.frame_acks.len() <= 65535,
        _ => true,
    }
}
