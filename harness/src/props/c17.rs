//! C17 — the server enforces its connection limits.

use crate::engine::*;
use crate::sim::world::*;
use proptest::prelude::*;
use serde::{Deserialize, Serialize};
use std::collections::{HashMap, HashSet};
use std::net::SocketAddr;
use uflow::verif::Serialize as _;
use uflow::verif::*;

#[derive(Clone, Debug, Serialize, Deserialize)]
pub enum Op {
    Tick { dt_us: u32 },
    /// start the next real client (latency in us for both directions)
    StartClient { latency_us: u32 },
    /// a raw peer sends a valid SYN and never answers (occupies a pending slot)
    RawSyn { addr: u8 },
    /// a raw peer completes the handshake it started (sends the ACK for the SYN-ACK it was sent)
    RawAck { addr: u8 },
    /// a raw peer sends a Disconnect request (graceful close of its connection, if any)
    RawDisconnect { addr: u8 },
    /// a raw peer goes through a whole life cycle and comes back from the same address: connect, disconnect
    /// gracefully, (optionally) the application drops the lingering entry, connect again
    Reincarnate { addr: u8, drop_closed: bool },
    ClientDisconnect { k: u8, now: bool },
    ServerDisconnect { k: u8, now: bool },
    ServerDrop { k: u8 },
    /// silence client k for good (it will time out on the server)
    Kill { k: u8 },
    /// both ends of real client k's connection ask to disconnect at the same instant (the requests cross)
    CrossDisconnect { k: u8, now_client: bool, now_server: bool },
    /// the server application submits a Reliable packet to real client k and asks for a graceful disconnect right away
    /// (the connection stays established until the packet is acknowledged - or the peer is given up)
    ServerSendThenDisconnect { k: u8, size: u16 },
    /// a raw peer of an older / newer release: a well-formed request with a foreign protocol version (refused; must
    /// not occupy anything)
    RawSynWrongVersion { addr: u8, version: u8 },
}

#[derive(Clone, Debug, Serialize, Deserialize)]
pub struct Case {
    pub seed: u64,
    pub max_active: u8,
    pub max_total: u8,
    pub timeout_ms: u32,
    #[serde(default)]
    pub handshake_errors: bool,
    pub ops: Vec<Op>,
    /// after the script: end every connection, wait, then offer a fresh client
    pub check_recovery: bool,
}

pub struct C17;

struct Model {
    connected: HashSet<SocketAddr>,
    ended: HashSet<SocketAddr>,
    seen_events: usize,
    seen_api_drop: HashSet<SocketAddr>,
}

impl Check for C17 {
    type Case = Case;

    fn id(&self) -> &'static str {
        "C17"
    }

    fn strategy(&self, tier: Tier) -> BoxedStrategy<Case> {
        let op = prop_oneof![
            10 => prop_oneof![3 => Just(0u32), 6 => 1_000u32..50_000, 3 => 50_000u32..500_000, 1 => 500_000u32..3_000_000, 1 => 3_000_000u32..25_000_000].prop_map(|dt_us| Op::Tick { dt_us }),
            8 => prop_oneof![Just(0u32), 0u32..20_000, 20_000u32..300_000].prop_map(|latency_us| Op::StartClient { latency_us }),
            3 => prop_oneof![2 => 0u8..3, 1 => 0u8..24].prop_map(|addr| Op::RawSyn { addr }),
            2 => prop_oneof![2 => 0u8..3, 1 => 0u8..24].prop_map(|addr| Op::RawAck { addr }),
            1 => prop_oneof![2 => 0u8..3, 1 => 0u8..24].prop_map(|addr| Op::RawDisconnect { addr }),
            1 => (0u8..3, any::<bool>()).prop_map(|(addr, drop_closed)| Op::Reincarnate { addr, drop_closed }),
            2 => (any::<u8>(), any::<bool>()).prop_map(|(k, now)| Op::ClientDisconnect { k, now }),
            2 => (any::<u8>(), any::<bool>()).prop_map(|(k, now)| Op::ServerDisconnect { k, now }),
            1 => any::<u8>().prop_map(|k| Op::ServerDrop { k }),
            1 => any::<u8>().prop_map(|k| Op::Kill { k }),
            2 => (any::<u8>(), any::<bool>(), any::<bool>()).prop_map(|(k, now_client, now_server)| Op::CrossDisconnect { k, now_client, now_server }),
            2 => (any::<u8>(), prop_oneof![5u16..200, 200u16..5000]).prop_map(|(k, size)| Op::ServerSendThenDisconnect { k, size }),
            2 => (100u8..130, prop_oneof![Just(2u8), Just(4u8), any::<u8>()]).prop_map(|(addr, version)| Op::RawSynWrongVersion { addr, version: if version == 3 { 2 } else { version } }),
        ];
        (any::<u64>(), 1u8..7, 1u8..9, prop_oneof![2 => Just(2000u32), 2 => Just(5000u32), 3 => Just(20000u32), 1 => Just(60_000u32), 1 => Just(600_000u32)], any::<bool>(), proptest::collection::vec(op, 4..tier.pick(120, 400)), prop_oneof![1 => Just(true), 2 => Just(false)])
            .prop_map(|(seed, max_active, max_total, timeout_ms, handshake_errors, ops, check_recovery)| Case { seed, max_active, max_total, timeout_ms, handshake_errors, ops, check_recovery })
            .boxed()
    }

    fn cases(&self, tier: Tier) -> u64 {
        tier.pick(40_000, 500_000)
    }

    fn max_shrink_iters(&self) -> u32 {
        2500
    }

    fn rule(&self) -> String {
        "case = World with a Server whose max_active_connections is 1..6 and max_total_connections 1..8 (either may bind first), enable_handshake_errors on or off, and a generated script: real Clients started at arbitrary moments on links with latency 0..300 ms (many SYNs before any ACK: overlapping handshakes), raw peers (a few addresses that come back again and again) that send a valid SYN and never answer, raw peers whose requests carry a foreign protocol version (refused with Version; such an address must never be tracked), answer later, or disconnect gracefully and reconnect, client / server disconnect() and disconnect_now(), a Reliable packet followed at once by a graceful disconnect() from the server side (also towards a silenced client), Server::drop, clients silenced until the server times them out, ticks of 0..25 s; optionally every established connection is then dropped, every client silenced and, after 25 s (the 20 s linger, the 22 s handshake budget of abandoned attempts), a fresh client is offered. Oracle after every server step: addresses between Connect and their terminal event (or drop) that the server still reports as active (not closing) number <= max_active_connections; addresses the server still tracks (Server::client() returns them) and whose connection has not ended number <= max_total_connections; a connection that was reported and neither ended nor dropped is still returned by Server::client(); every refusal of a compatible request is HandshakeError(ServerFull) and the real client reports Error(ServerFull); the fresh client offered after everything ended connects within 5 s. Non-trivial = more clients were offered than a limit admits and at least two handshakes overlapped. Distinct = distinct serialised case.".into()
    }

    fn assumptions(&self) -> Vec<String> {
        vec!["all endpoint configurations are compatible (default sizes), so every refusal must be ServerFull".into(), "a lingering closed entry (after its terminal event) does not count as tracked".into()]
    }

    fn sample(&self, case: &Case) -> serde_json::Value {
        truncate_value(serde_json::to_value(case).unwrap(), 1)
    }

    fn run(&self, c: &Case) -> CaseResult {
        let mut classes: Vec<&'static str> = Vec::new();
        let cfg = ServerCfg { max_total: c.max_total as u32, max_active: c.max_active as u32, handshake_errors: c.handshake_errors, ep: EpCfg { active_timeout_ms: c.timeout_ms, keepalive_interval_ms: 1000, ..EpCfg::default() } };
        let mut w = World::new(c.seed, &cfg);
        let mut m = Model { connected: HashSet::new(), ended: HashSet::new(), seen_events: 0, seen_api_drop: HashSet::new() };
        let mut real: Vec<usize> = Vec::new();
        let mut raw_nonce: HashMap<SocketAddr, u32> = HashMap::new();
        let mut all_addrs: Vec<SocketAddr> = Vec::new();
        let mut offered = 0u32;
        let mut overlapped = false;
        let mut admitted_while_full = false;
        let mut peak_active = 0usize;
        let mut seen_wire = 0usize;
        // server-side SYN-ACK nonces sent to raw peers
        let mut synack_to: HashMap<SocketAddr, u32> = HashMap::new();
        let mut admitted: HashSet<SocketAddr> = HashSet::new();
        // silenced clients (Kill): the time of the server step that last read a datagram from each address
        let mut killed: HashSet<SocketAddr> = HashSet::new();
        // addresses that only ever sent requests with a foreign protocol version
        let mut refused_version: HashSet<SocketAddr> = HashSet::new();
        let mut last_rx_step: HashMap<SocketAddr, u64> = HashMap::new();
        let mut seen_delivered = 0usize;

        macro_rules! step_all {
            () => {{
                // model state before the server processes anything
                // established = reported by Connect, not ended, and not already closing (RemoteClient::is_active())
                let active_before = m.connected.iter().filter(|a| w.server_client_active(a)).count();
                w.step_server();
                while seen_delivered < w.delivered.len() {
                    let d = &w.delivered[seen_delivered];
                    seen_delivered += 1;
                    if d.to == w.server_addr {
                        last_rx_step.insert(d.from, w.now_us);
                    }
                }
                // update the model from new events
                while m.seen_events < w.server_events.len() {
                    let (_, _, e) = &w.server_events[m.seen_events];
                    m.seen_events += 1;
                    match e {
                        SEv::Connect(a) => {
                            m.connected.insert(*a);
                            m.ended.remove(a);
                        }
                        SEv::Disconnect(a) | SEv::Error(a, _) => {
                            if m.connected.remove(a) {
                                m.ended.insert(*a);
                            }
                        }
                        _ => {}
                    }
                }
                // admissions (first SYN-ACK to an address) and refusals on the wire
                while seen_wire < w.wire.len() {
                    let r = &w.wire[seen_wire];
                    seen_wire += 1;
                    if r.from != w.server_addr {
                        continue;
                    }
                    match Frame::read(&r.bytes) {
                        Some(Frame::HandshakeSynAckFrame(f)) => {
                            synack_to.insert(r.to, f.nonce);
                            if admitted.insert(r.to) {
                                let pending_now = admitted.iter().filter(|a| !m.connected.contains(*a) && !m.ended.contains(*a) && w.server_has_client(a)).count();
                                if pending_now >= 2 {
                                    overlapped = true;
                                }
                                if active_before >= c.max_active as usize {
                                    admitted_while_full = true;
                                }
                            }
                        }
                        Some(Frame::HandshakeErrorFrame(f)) if refused_version.contains(&r.to) => {
                            if f.error != HandshakeErrorType::Version {
                                return CaseResult::fail("oracle:c17:wrong_refusal", format!("a request with a foreign protocol version from {} was refused with {:?}", r.to, f.error));
                            }
                        }
                        Some(Frame::HandshakeErrorFrame(f)) => {
                            if f.error != HandshakeErrorType::ServerFull {
                                return CaseResult::fail("oracle:c17:wrong_refusal", format!("a compatible connection request from {} was refused with {:?}", r.to, f.error));
                            }
                            classes.push("refused_server_full");
                        }
                        _ => {}
                    }
                }
                let active = m.connected.iter().filter(|a| w.server_client_active(a)).count();
                peak_active = peak_active.max(active);
                if active > c.max_active as usize {
                    let key = if admitted_while_full { "oracle:c17:active_limit_exceeded:admitted_while_full" } else { "oracle:c17:active_limit_exceeded:overlapping_handshakes" };
                    if admitted_while_full || !tolerate_known(key) {
                        return CaseResult::fail(
                            key,
                            format!("at t={} us the server has {} established connections (Connect without terminal event or drop): max_active_connections is {} (max_total {})", w.now_us, active, c.max_active, c.max_total),
                        );
                    }
                    classes.push("known_overlapping_overshoot");
                }
                // a connection that was reported and has neither ended nor been dropped must still be known to the server
                if let Some(a) = m.connected.iter().find(|a| !w.server_has_client(a)) {
                    return CaseResult::fail(
                        "oracle:c17:connection_forgotten_without_terminal_event",
                        format!("at t={} us Server::client({a}) returns nothing although Connect({a}) was reported and no terminal event or drop followed: the connection is no longer counted against the limits", w.now_us),
                    );
                }
                // a connection ends by timeout as well: an established connection whose peer has been silent for
                // active_timeout_ms is reported (and its slot returned) by the first step after that - whatever
                // else the server is busy with; until it is, the dead peer counts against both limits
                for a in killed.iter() {
                    if m.connected.contains(a) && w.server_client_active(a) {
                        if let Some(t_rx) = last_rx_step.get(a) {
                            if w.now_us >= *t_rx + c.timeout_ms as u64 * 1000 + 2_000 {
                                return CaseResult::fail(
                                    "oracle:c17:silent_connection_keeps_its_slot",
                                    format!("at t={} us the connection of {a} is still established (no terminal event, is_active) although the last datagram from that address was read by the server step at t={} us and active_timeout_ms is {}: a connection that ended by timeout still occupies its slot against max_active_connections {} / max_total_connections {}", w.now_us, t_rx, c.timeout_ms, c.max_active, c.max_total),
                                );
                            }
                        }
                    }
                }
                // a refused request occupies nothing
                if let Some(a) = refused_version.iter().find(|a| w.server_has_client(a)) {
                    return CaseResult::fail(
                        "oracle:c17:refused_request_is_tracked",
                        format!("at t={} us the server tracks a connection for {a}, whose only requests carried a foreign protocol version and were refused (enable_handshake_errors = {}): refused handshakes count against max_total_connections {}", w.now_us, c.handshake_errors, c.max_total),
                    );
                }
                let tracked = all_addrs.iter().filter(|a| w.server_has_client(a) && !m.ended.contains(*a)).count();
                if tracked > c.max_total as usize {
                    return CaseResult::fail(
                        "oracle:c17:total_limit_exceeded",
                        format!("at t={} us the server tracks {} connections that have not ended (pending, established or closing): max_total_connections is {} (max_active {})", w.now_us, tracked, c.max_total, c.max_active),
                    );
                }
                for &ci in real.iter() {
                    let evs = w.step_client(ci);
                    for e in evs {
                        if let CEv::Error(err) = e {
                            if err != SErr::Timeout && err != SErr::ServerFull {
                                return CaseResult::fail("oracle:c17:client_wrong_error", format!("client {} reported Error({:?}); only ServerFull refusals are possible here", ci, err));
                            }
                            if err == SErr::ServerFull {
                                classes.push("client_saw_server_full");
                            }
                        }
                    }
                }
            }};
        }

        for op in c.ops.iter() {
            match op {
                Op::Tick { dt_us } => {
                    w.advance(*dt_us as u64);
                    step_all!();
                }
                Op::StartClient { latency_us } => {
                    if real.len() < 64 {
                        let link = LinkState { latency_us: [*latency_us, *latency_us], ..LinkState::default() };
                        let ci = w.add_client(&EpCfg { active_timeout_ms: c.timeout_ms, keepalive_interval_ms: 1000, ..EpCfg::default() }, link);
                        all_addrs.push(w.clients[ci].addr);
                        real.push(ci);
                        offered += 1;
                    }
                }
                Op::RawSyn { addr } => {
                    let a = raw_addr(*addr as u32);
                    if !all_addrs.contains(&a) {
                        all_addrs.push(a);
                    }
                    let nonce = 1000 + *addr as u32;
                    raw_nonce.insert(a, nonce);
                    let syn = Frame::HandshakeSynFrame(HandshakeSynFrame { version: 3, nonce, max_receive_rate: 1_000_000, max_packet_size: 1000, max_receive_alloc: 1_000_000 }).write();
                    w.send_raw(a, w.server_addr, &syn, 0);
                    offered += 1;
                }
                Op::RawAck { addr } => {
                    let a = raw_addr(*addr as u32);
                    if let Some(nonce) = synack_to.get(&a) {
                        let ack = Frame::HandshakeAckFrame(HandshakeAckFrame { nonce_ack: *nonce }).write();
                        w.send_raw(a, w.server_addr, &ack, 0);
                    }
                }
                Op::Reincarnate { addr, drop_closed } => {
                    let a = raw_addr(*addr as u32);
                    if !all_addrs.contains(&a) {
                        all_addrs.push(a);
                    }
                    for round in 0..2 {
                        let nonce = 5000 + *addr as u32 + round;
                        let syn = Frame::HandshakeSynFrame(HandshakeSynFrame { version: 3, nonce, max_receive_rate: 1_000_000, max_packet_size: 1000, max_receive_alloc: 1_000_000 }).write();
                        w.send_raw(a, w.server_addr, &syn, 0);
                        offered += 1;
                        w.advance(1000);
                        step_all!();
                        if let Some(n) = synack_to.get(&a) {
                            let ack = Frame::HandshakeAckFrame(HandshakeAckFrame { nonce_ack: *n }).write();
                            w.send_raw(a, w.server_addr, &ack, 0);
                        }
                        w.advance(1000);
                        step_all!();
                        if round == 0 {
                            w.send_raw(a, w.server_addr, &Frame::DisconnectFrame(DisconnectFrame {}).write(), 0);
                            w.advance(1000);
                            step_all!();
                            if *drop_closed && w.server_has_client(&a) {
                                if let Some(server) = w.server.as_mut() {
                                    server.drop(&a);
                                }
                                m.connected.remove(&a);
                                m.ended.insert(a);
                            }
                        }
                    }
                    classes.push("raw_peer_reincarnated");
                }
                Op::RawDisconnect { addr } => {
                    let a = raw_addr(*addr as u32);
                    w.send_raw(a, w.server_addr, &Frame::DisconnectFrame(DisconnectFrame {}).write(), 0);
                }
                Op::ClientDisconnect { k, now } => {
                    if !real.is_empty() {
                        let ci = real[*k as usize % real.len()];
                        if let Some(cl) = w.clients[ci].client.as_mut() {
                            if *now {
                                cl.disconnect_now()
                            } else {
                                cl.disconnect()
                            }
                        }
                    }
                }
                Op::CrossDisconnect { k, now_client, now_server } => {
                    if !real.is_empty() {
                        let ci = real[*k as usize % real.len()];
                        let a = w.clients[ci].addr;
                        if let Some(cl) = w.clients[ci].client.as_mut() {
                            if *now_client {
                                cl.disconnect_now()
                            } else {
                                cl.disconnect()
                            }
                        }
                        if let Some(server) = w.server.as_ref() {
                            if let Some(rc) = server.client(&a) {
                                if *now_server {
                                    rc.borrow_mut().disconnect_now()
                                } else {
                                    rc.borrow_mut().disconnect()
                                }
                            }
                        }
                    }
                }
                Op::RawSynWrongVersion { addr, version } => {
                    // (addresses of their own: nothing else ever comes from them)
                    let a = raw_addr(*addr as u32);
                    if !all_addrs.contains(&a) {
                        all_addrs.push(a);
                    }
                    refused_version.insert(a);
                    let syn = Frame::HandshakeSynFrame(HandshakeSynFrame { version: *version, nonce: 9000 + *addr as u32, max_receive_rate: 1_000_000, max_packet_size: 1000, max_receive_alloc: 1_000_000 }).write();
                    w.send_raw(a, w.server_addr, &syn, 0);
                    classes.push("request_with_foreign_protocol_version");
                }
                Op::ServerSendThenDisconnect { k, size } => {
                    if !real.is_empty() {
                        let ci = real[*k as usize % real.len()];
                        let a = w.clients[ci].addr;
                        if w.server_client_active(&a) {
                            if let Some(server) = w.server.as_ref() {
                                if let Some(rc) = server.client(&a) {
                                    rc.borrow_mut().send(vec![9u8; *size as usize].into_boxed_slice(), 0, uflow::SendMode::Reliable);
                                    rc.borrow_mut().disconnect();
                                    classes.push("server_send_then_graceful_disconnect");
                                }
                            }
                        }
                    }
                }
                Op::ServerDisconnect { k, now } => {
                    if !all_addrs.is_empty() {
                        let a = all_addrs[*k as usize % all_addrs.len()];
                        if let Some(server) = w.server.as_ref() {
                            if let Some(rc) = server.client(&a) {
                                if *now {
                                    rc.borrow_mut().disconnect_now()
                                } else {
                                    rc.borrow_mut().disconnect()
                                }
                            }
                        }
                    }
                }
                Op::ServerDrop { k } => {
                    if !all_addrs.is_empty() {
                        let a = all_addrs[*k as usize % all_addrs.len()];
                        if w.server_has_client(&a) {
                            if let Some(server) = w.server.as_mut() {
                                server.drop(&a);
                            }
                            m.connected.remove(&a);
                            m.ended.insert(a);
                            m.seen_api_drop.insert(a);
                            classes.push("server_drop");
                        }
                    }
                }
                Op::Kill { k } => {
                    if !real.is_empty() {
                        let ci = real[*k as usize % real.len()];
                        w.links[ci].blackout_until_us = [u64::MAX, u64::MAX];
                        killed.insert(w.clients[ci].addr);
                        classes.push("client_silenced");
                    }
                }
            }
        }
        // ---- recovery -------------------------------------------------------------------------------
        if c.check_recovery {
            // end everything: drop the connections that are still established (ended ones must leave by themselves), silence all clients; handshakes
            // that never completed must expire on their own within the 22 s budget
            for a in all_addrs.clone() {
                if w.server_has_client(&a) && m.connected.contains(&a) && !m.ended.contains(&a) {
                    if let Some(server) = w.server.as_mut() {
                        server.drop(&a);
                    }
                    m.connected.remove(&a);
                    m.ended.insert(a);
                }
            }
            for &ci in real.iter() {
                w.links[ci].blackout_until_us = [u64::MAX, u64::MAX];
                killed.insert(w.clients[ci].addr);
            }
            // raw peers' pending entries may have been re-created by in-flight SYNs: wait out the handshake budget
            // (a handshake whose last frame was already in the server's socket completes in the first of these steps:
            // such a connection is dropped as well)
            for _ in 0..250 {
                w.advance(100_000);
                step_all!();
                for a in all_addrs.clone() {
                    if w.server_has_client(&a) && m.connected.contains(&a) && !m.ended.contains(&a) {
                        if let Some(server) = w.server.as_mut() {
                            server.drop(&a);
                        }
                        m.connected.remove(&a);
                        m.ended.insert(a);
                    }
                }
            }
            // a connection that ended (disconnect from either side or both at once, timeout, refusal, abandoned
            // handshake) occupies its slot for at most the 20 s linger / 22 s retry budget; after 45 s of silence
            // the server must not be tracking anything
            for _ in 0..200 {
                w.advance(100_000);
                step_all!();
            }
            if std::env::var_os("VERIF_DEBUG").is_some() {
                eprintln!("server events: {:?}", w.server_events.iter().map(|e| (e.1, format!("{:?}", e.2).chars().take(60).collect::<String>())).collect::<Vec<_>>());
                for r in w.wire.iter() { eprintln!("  t={} {}->{} type {} {:?}", r.t_us, r.from.port(), r.to.port(), r.bytes.first().copied().unwrap_or(255), r.fate); }
            }
            for a in all_addrs.iter() {
                if w.server_has_client(a) {
                    return CaseResult::fail(
                        "oracle:c17:connection_tracked_after_it_ended",
                        format!("45 s after every peer fell silent and every established connection was dropped, the server still tracks a connection for {a} (is_active = {}); its slot is never returned", w.server_client_active(a)),
                    );
                }
            }
            let link = LinkState::default();
            let ci = w.add_client(&EpCfg { active_timeout_ms: c.timeout_ms, keepalive_interval_ms: 1000, ..EpCfg::default() }, link);
            all_addrs.push(w.clients[ci].addr);
            real.push(ci);
            let mut ok = false;
            for _ in 0..50 {
                w.advance(100_000);
                step_all!();
                if w.clients[ci].events.iter().any(|(_, _, e)| matches!(e, CEv::Connect)) {
                    ok = true;
                    break;
                }
            }
            if !ok {
                return CaseResult::fail(
                    "oracle:c17:capacity_not_released",
                    format!("after every connection had ended (dropped / silenced) and 25 s had passed, a fresh client was not admitted within 5 s; its events: {:?}; server tracks {} addresses", w.clients[ci].events.iter().map(|e| &e.2).collect::<Vec<_>>(), all_addrs.iter().filter(|a| w.server_has_client(a)).count()),
                );
            }
            classes.push("recovery_checked");
        }
        if peak_active == c.max_active as usize {
            classes.push("active_limit_reached");
        }
        if overlapped {
            classes.push("overlapping_handshakes");
        }
        classes.sort();
        classes.dedup();
        let over = offered > c.max_active as u32 || offered > c.max_total as u32;
        CaseResult::ok(over && overlapped, classes)
    }
}
