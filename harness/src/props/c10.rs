//! C10 — timeouts fire after, and only after, the configured silence.

use crate::engine::*;
use crate::sim::world::*;
use proptest::prelude::*;
use serde::{Deserialize, Serialize};
use uflow::verif::Frame;
use uflow::verif::Serialize as _;

#[derive(Clone, Debug, Serialize, Deserialize)]
pub enum Op {
    /// advance and step (server, client) as selected
    Tick { dt_us: u32, server: bool, client: bool },
    /// `count` ticks of the base period stepping both
    Run { count: u16 },
    Send { from_client: bool, size: u16, mode: u8 },
    /// drop everything in the given directions (bit 0 c->s, bit 1 s->c) for len_ms
    Blackout { dirs: u8, len_ms: u32 },
    /// the application asks to disconnect
    Disconnect { from_client: bool, now: bool },
}

#[derive(Clone, Debug, Serialize, Deserialize)]
pub struct Case {
    pub seed: u64,
    pub server_timeout_ms: u32,
    pub client_timeout_ms: u32,
    pub server_keepalive: Option<u32>,
    pub client_keepalive: Option<u32>,
    pub latency_us: [u32; 2],
    /// how many of the first SYNs / SYN-ACKs are lost
    pub syn_lost: u8,
    pub synack_lost: u8,
    pub period_us: u32,
    pub ops: Vec<Op>,
    /// keepalive clause: idle for this long on a loss-free link afterwards (0 = skip)
    pub idle_s: u32,
    /// undecodable datagrams (line noise, strangers' traffic) reach the sockets: 0 never, 1 before every server step,
    /// 2 before every client step, 3 both - each ahead of whatever genuine frames arrived in that interval
    #[serde(default)]
    pub noise: u8,
    /// another client of the same server: 0 none; 1 connects and disconnects before the observed client starts (its
    /// 20 s linger timer is then pending on the server); 2 does so again every few seconds during the script
    #[serde(default)]
    pub bystander: u8,
    /// 1: the observed client's address was used before - by a connection the server application dropped
    /// (Server::drop) while it was established; the observed client connects from that same address shortly afterwards
    #[serde(default)]
    pub predecessor: u8,
}

pub struct C10;

const HS_BUDGET_US: u64 = 22_000_000;

fn proof_of_life(bytes: &[u8]) -> bool {
    matches!(Frame::read(bytes), Some(Frame::DataFrame(_)) | Some(Frame::SyncFrame(_)) | Some(Frame::AckFrame(_)))
}

impl Check for C10 {
    type Case = Case;

    fn id(&self) -> &'static str {
        "C10"
    }

    fn strategy(&self, tier: Tier) -> BoxedStrategy<Case> {
        let timeout = || prop_oneof![2 => 1_000u32..4_000, 3 => 4_000u32..25_000, 1 => 25_000u32..60_000];
        let ka = || proptest::option::weighted(0.6, prop_oneof![Just(500u32), Just(1000u32), Just(5000u32), 100u32..10_000]);
        let op = prop_oneof![
            6 => (prop_oneof![1 => Just(0u32), 6 => 1_000u32..60_000, 3 => 60_000u32..1_000_000, 2 => 1_000_000u32..8_000_000], prop_oneof![6 => Just(true), 1 => Just(false)], prop_oneof![6 => Just(true), 1 => Just(false)]).prop_map(|(dt_us, server, client)| Op::Tick { dt_us, server, client }),
            4 => (1u16..200).prop_map(|count| Op::Run { count }),
            4 => (any::<bool>(), 5u16..2000, 0u8..4).prop_map(|(from_client, size, mode)| Op::Send { from_client, size, mode }),
            2 => (1u8..4, prop_oneof![3 => 100u32..5_000, 2 => 5_000u32..70_000]).prop_map(|(dirs, len_ms)| Op::Blackout { dirs, len_ms }),
            1 => (any::<bool>(), any::<bool>()).prop_map(|(from_client, now)| Op::Disconnect { from_client, now }),
        ];
        (
            (any::<u64>(), timeout(), timeout(), ka(), ka()),
            (prop_oneof![Just(0u32), 0u32..30_000, 30_000u32..300_000], prop_oneof![Just(0u32), 0u32..30_000, 30_000u32..300_000]),
            (prop_oneof![4 => Just(0u8), 3 => 1u8..4, 2 => 4u8..11, 1 => Just(12u8)], prop_oneof![5 => Just(0u8), 3 => 1u8..4, 1 => 4u8..11, 1 => Just(12u8)]),
            prop_oneof![Just(1_000u32), Just(5_000u32), Just(16_000u32), Just(30_000u32), Just(100_000u32), Just(400_000u32)],
            proptest::collection::vec(op, 1..tier.pick(50, 150)),
            (prop_oneof![3 => Just(0u32), 2 => 30u32..600, 1 => 600u32..tier.pick(3600, 7200)], prop_oneof![3 => Just(0u8), 1 => 1u8..4]),
        )
            .prop_map(|((seed, server_timeout_ms, client_timeout_ms, server_keepalive, client_keepalive), (l0, l1), (syn_lost, synack_lost), period_us, ops, (idle_s, noise))| Case { seed, server_timeout_ms, client_timeout_ms, server_keepalive, client_keepalive, latency_us: [l0, l1], syn_lost, synack_lost, period_us, ops, idle_s, noise, bystander: match seed % 5 { 0 => 1, 1 => 2, _ => 0 }, predecessor: ((seed >> 8) % 5 == 0) as u8 })
            .boxed()
    }

    fn cases(&self, tier: Tier) -> u64 {
        tier.pick(40_000, 600_000)
    }

    fn max_shrink_iters(&self) -> u32 {
        2000
    }

    fn rule(&self) -> String {
        "case = World with one observed real Client and a Server (1 case in 5: the client's address was used shortly before by a connection that the server application dropped with Server::drop while it was established; 2 cases in 5 with bystanders: other clients that connect and disconnect before, or every few seconds during, the script - their 20 s linger timers sit in the server's timer queue): generated active_timeout_ms (1..60 s) and keepalive settings on both sides, link latencies 0..300 ms, the first 0..12 SYNs and / or SYN-ACKs lost, a base step cadence of 1 ms..400 ms, then a generated sequence of ticks (0..8 s apart, either endpoint sometimes not stepping), runs of regular stepping, sends in both directions, and blackouts of 0.1..70 s in either or both directions (placing last-frame arrivals and deadlines at arbitrary offsets from the steps), optionally with an undecodable datagram first in line before every server and / or client step, optionally followed by an idle period of up to an hour (two in thorough) on a loss-free link. Oracle per endpoint, with e the time it became active and p the time of the step in which it last processed a valid data / sync / ack frame from its peer: (a) a Timeout on an active connection at step time t requires t - max(e, p) >= active_timeout_ms; (b) the first step with t - max(e, p) >= active_timeout_ms must report it; (c) with keepalive on, on loss-free links and 3*max(interval, 2 s) + 4*(latency + largest step gap) <= active_timeout_ms, no timeout during the idle period; (d) a client whose handshake never completes reports Error(Timeout) no earlier than 22 000 ms after connect() and no later than that plus 12 step gaps, having sent exactly 11 SYNs; the server sends at most 1 + 10 SYN-ACKs per pending entry and reports its handshake timeout (enable_handshake_errors is on in half of the cases) no earlier than 22 000 ms after the SYN, and - told or not - no longer tracks the address once budget plus 12 step gaps have passed; (d') SYN-ACK repeats of one pending entry are 2 s apart - not earlier, and not later than 2 s plus two step gaps; (e) a disconnect attempt (disconnect() / disconnect_now() from either side at a generated moment) sends at most 1 + 10 Disconnect frames, 2 s apart (not earlier; not later than 2 s plus two step gaps), and gives up with Error(Timeout) no earlier than 22 000 ms after the first. Non-trivial = a deadline fell within two step gaps of a frame arrival, or the handshake needed at least one retry. Distinct = distinct serialised case.".into()
    }

    fn assumptions(&self) -> Vec<String> {
        vec![
            "only data / sync / ack frames count as proof of life; whether handshake duplicates refresh the timer is not asserted".into(),
            "the keepalive clause is claimed only in the comfortable region stated in (c), where neither the 2 s sync floor nor the step cadence can exceed the timeout by themselves".into(),
        ]
    }

    fn sample(&self, case: &Case) -> serde_json::Value {
        truncate_value(serde_json::to_value(case).unwrap(), 1)
    }

    fn run(&self, c: &Case) -> CaseResult {
        let mut classes: Vec<&'static str> = Vec::new();
        let scfg = ServerCfg {
            // (whether the server application is told about failed handshakes: both settings, derived from the seed)
            handshake_errors: (c.seed >> 12) % 2 == 0,
            ep: EpCfg { active_timeout_ms: c.server_timeout_ms, keepalive: c.server_keepalive.is_some(), keepalive_interval_ms: c.server_keepalive.unwrap_or(5000), ..EpCfg::default() },
            ..ServerCfg::default()
        };
        let ccfg = EpCfg { active_timeout_ms: c.client_timeout_ms, keepalive: c.client_keepalive.is_some(), keepalive_interval_ms: c.client_keepalive.unwrap_or(5000), ..EpCfg::default() };
        let mut w = World::new(c.seed, &scfg);
        // bystanders: other clients of the same server whose timers sit in the server's queue
        let mut bystanders: Vec<usize> = Vec::new();
        // (returns the server steps it made, as (event seq right after the step, time))
        let run_bystander = |w: &mut World, bystanders: &mut Vec<usize>| -> Vec<(u64, u64)> {
            let mut steps = Vec::new();
            let b = w.add_client(&EpCfg::default(), LinkState::default());
            bystanders.push(b);
            for round in 0..12 {
                if round == 6 {
                    if let Some(cl) = w.clients[b].client.as_mut() {
                        cl.disconnect_now();
                    }
                }
                w.advance(5_000);
                w.step_server();
                steps.push((w.ev, w.now_us));
                w.step_client(b);
            }
            steps
        };
        if c.bystander > 0 {
            let _ = run_bystander(&mut w, &mut bystanders);
        }
        let mut link = LinkState { latency_us: c.latency_us, ..LinkState::default() };
        link.fates[0] = (0..c.syn_lost).map(|_| Fate::Drop).collect();
        link.fates[1] = (0..c.synack_lost).map(|_| Fate::Drop).collect();
        let ci = if c.predecessor == 1 {
            // an earlier connection from the same address, dropped by the server application while established; the
            // logs are cleared afterwards, so that everything below sees the observed connection only
            let p = w.add_client(&ccfg, LinkState { latency_us: c.latency_us, ..LinkState::default() });
            let paddr = w.clients[p].addr;
            for _ in 0..40 {
                w.advance(25_000);
                w.step_server();
                w.step_client(p);
            }
            w.client_send(p, world_payload(c.seed, 7, 0, 200), 0, 3);
            w.server_send(p, world_payload(c.seed, 8, 0, 200), 0, 3);
            for _ in 0..20 {
                w.advance(25_000);
                w.step_server();
                w.step_client(p);
            }
            let was_active = w.server_client_active(&paddr);
            if let Some(server) = w.server.as_mut() {
                server.drop(&paddr);
            }
            w.clients[p].client = None;
            w.advance(400_000);
            w.step_server();
            w.discard_undeliverable();
            w.wire.clear();
            w.delivered.clear();
            w.server_events.clear();
            w.server_steps.clear();
            if was_active {
                classes.push("address_of_a_dropped_connection");
            }
            w.reincarnate_client(p, &ccfg, link)
        } else {
            w.add_client(&ccfg, link)
        };
        let caddr = w.clients[ci].addr;
        let t_conn = w.clients[ci].t_connect_us;
        let period = c.period_us.max(1000) as u64;
        let mut steps_c: Vec<(u64, u64)> = Vec::new();
        let mut steps_s: Vec<(u64, u64)> = Vec::new();
        let mut idx = [0u32; 2];
        let mut blackouts: Vec<(u64, u64)> = Vec::new();
        let mut client_cancelled = false;

        let noise = c.noise;
        let mut tick = |w: &mut World, dt: u64, server: bool, client: bool, steps_c: &mut Vec<(u64, u64)>, steps_s: &mut Vec<(u64, u64)>| {
            w.advance(dt);
            // an undecodable datagram from a stranger is first in line in this interval (delivery order = order of
            // arrival time, then of insertion; it is stamped one microsecond into the past)
            if server && noise & 1 != 0 {
                w.send_raw_front(raw_addr(900), w.server_addr, &[0x55]);
            }
            if client && noise & 2 != 0 {
                w.send_raw_front(w.server_addr, caddr, &[0x00, 0x01, 0x02]);
            }
            if server {
                w.step_server();
                steps_s.push((w.ev, w.now_us));
            }
            if client {
                w.step_client(ci);
                steps_c.push((w.ev, w.now_us));
            }
        };

        let mut last_bystander_us = w.now_us;
        for op in c.ops.iter() {
            if c.bystander == 2 && w.now_us > last_bystander_us + 7_000_000 && bystanders.len() < 12 {
                // (the bystander's own steps also step the server: record them)
                let made = run_bystander(&mut w, &mut bystanders);
                steps_s.extend(made);
                last_bystander_us = w.now_us;
            }
            match op {
                Op::Tick { dt_us, server, client } => tick(&mut w, *dt_us as u64, *server, *client, &mut steps_c, &mut steps_s),
                Op::Run { count } => {
                    for _ in 0..*count {
                        tick(&mut w, period, true, true, &mut steps_c, &mut steps_s);
                    }
                }
                Op::Send { from_client, size, mode } => {
                    if *from_client {
                        w.client_send(ci, world_payload(c.seed, 0, idx[0], *size as usize), 0, *mode);
                        idx[0] += 1;
                    } else {
                        w.server_send(ci, world_payload(c.seed, 100, idx[1], *size as usize), 0, *mode);
                        idx[1] += 1;
                    }
                }
                Op::Disconnect { from_client, now } => {
                    if *from_client {
                        if let Some(cl) = w.clients[ci].client.as_mut() {
                            if !cl.is_active() {
                                // disconnecting a pending client abandons the attempt silently (documented)
                                client_cancelled = true;
                            }
                            if *now {
                                cl.disconnect_now()
                            } else {
                                cl.disconnect()
                            }
                        }
                    } else if let Some(server) = w.server.as_ref() {
                        if let Some(rc) = server.client(&caddr) {
                            if *now {
                                rc.borrow_mut().disconnect_now()
                            } else {
                                rc.borrow_mut().disconnect()
                            }
                        }
                    }
                }
                Op::Blackout { dirs, len_ms } => {
                    for d in 0..2 {
                        if dirs & (1 << d) != 0 {
                            w.links[ci].blackout_until_us[d] = w.now_us + *len_ms as u64 * 1000;
                        }
                    }
                    blackouts.push((w.now_us, w.now_us + *len_ms as u64 * 1000));
                }
            }
        }
        // let pending timers (handshake 22 s, blackouts) play out at the base cadence, capped
        let settle_end = w.now_us + 30_000_000;
        let settle_step = period.max(10_000);
        while w.now_us < settle_end {
            tick(&mut w, settle_step, true, true, &mut steps_c, &mut steps_s);
        }
        // ---- keepalive idle clause ----------------------------------------------------------------
        let t_idle_start = w.now_us;
        let client_active_before_idle = w.clients[ci].client.as_ref().map_or(false, |cl| cl.is_active());
        let server_active_before_idle = w.server_client_active(&caddr);
        let idle_step = period.max(20_000);
        let mut idle_checked = false;
        // the RTO that paces each endpoint's sync / keepalive frames: the value the rate controller last computed
        // (it is refreshed only by feedback or by a no-feedback expiry), and never below max(4 * RTT estimate, 2 * s / X)
        let rto_of = |rtt: Option<f64>, st: Option<uflow::verif::VerifStats>| -> u64 {
            let a = rtt.map_or(0.0, |r| 4.0 * r);
            let b = st.as_ref().map_or(0.0, |v| 2.0 * 1472.0 / v.send_rate.max(1.0));
            let cached = st.as_ref().and_then(|v| v.rto_ms).unwrap_or(0) * 1000;
            ((a.max(b) * 1e6) as u64).max(cached)
        };
        let sample_rto = |w: &World| -> (u64, u64) {
            (
                w.clients[ci].client.as_ref().map_or(0, |cl| rto_of(cl.rtt_s(), cl.verif_stats())),
                w.server.as_ref().and_then(|s| s.client(&caddr).map(|rc| rto_of(rc.borrow().rtt_s(), rc.borrow().verif_stats()))).unwrap_or(0),
            )
        };
        // largest value seen from the start of the idle phase on (the allowed rate can keep falling while idle)
        let (mut rto_client_us, mut rto_server_us) = sample_rto(&w);
        // The known finding (D23) is the pacing of keepalives by an RTO that is already long when the idle phase
        // begins (earlier loss, multi-second RTT samples), or that keeps growing because the endpoint never obtained
        // an RTT estimate (every expiry halves the rate in that state). An endpoint *with* an estimate must not
        // lose rate while idle beyond the recover rate (RFC 5348 4.4), so for it the value at the start counts.
        let rto_start = (rto_client_us, rto_server_us);
        let has_rtt_at_idle_start = (
            w.clients[ci].client.as_ref().map_or(false, |cl| cl.rtt_s().is_some()),
            w.server.as_ref().and_then(|s| s.client(&caddr).map(|rc| rc.borrow().rtt_s().is_some())).unwrap_or(false),
        );
        if c.idle_s > 0 && client_active_before_idle && server_active_before_idle {
            w.links[ci].blackout_until_us = [0, 0];
            let end = w.now_us + c.idle_s as u64 * 1_000_000;
            while w.now_us < end {
                tick(&mut w, idle_step, true, true, &mut steps_c, &mut steps_s);
                let (a, b) = sample_rto(&w);
                if std::env::var_os("VERIF_DEBUG").is_some() && (w.now_us / idle_step) % 250 == 0 {
                    let st = w.server.as_ref().and_then(|s| s.client(&caddr).map(|rc| (rc.borrow().verif_stats(), rc.borrow().rtt_s())));
                    eprintln!("t={} server {:?} client {:?}", w.now_us, st, w.clients[ci].client.as_ref().map(|cl| (cl.verif_stats(), cl.rtt_s())));
                }
                rto_client_us = rto_client_us.max(a);
                rto_server_us = rto_server_us.max(b);
            }
            idle_checked = true;
        }
        // (the time from creation to the first step counts as a gap as well)
        let max_gap = |steps: &Vec<(u64, u64)>, from: u64| -> u64 { steps.windows(2).filter(|p| p[1].1 >= from).map(|p| p[1].1 - p[0].1).max().unwrap_or(0).max(if from == 0 { steps.first().map_or(0, |p| p.1) } else { 0 }) };

        if std::env::var_os("VERIF_DEBUG").is_some() {
            eprintln!("idle start {} client events {:?}", t_idle_start, w.clients[ci].events.iter().map(|e| (e.1, format!("{:?}", e.2).chars().take(30).collect::<String>())).collect::<Vec<_>>());
            eprintln!("server events {:?}", w.server_events.iter().map(|e| (e.1, format!("{:?}", e.2).chars().take(40).collect::<String>())).collect::<Vec<_>>());
            for r in w.wire.iter() {
                eprintln!("wire t={} {}->{} type={} len={} {:?}", r.t_us, r.from.port(), r.to.port(), r.bytes[0], r.bytes.len(), r.fate);
            }
        }
        // ---- (d) handshake budget -------------------------------------------------------------------
        let syns: Vec<u64> = w.wire.iter().filter(|r| r.from == caddr && r.bytes.first() == Some(&0)).map(|r| r.t_us).collect();
        let c_connect = w.clients[ci].events.iter().find(|(_, _, e)| matches!(e, CEv::Connect)).map(|p| (p.0, p.1));
        let c_events = &w.clients[ci].events;
        if c_connect.is_none() {
            if let Some((_, t, e)) = c_events.first() {
                if matches!(e, CEv::Error(SErr::Timeout)) {
                    let gap = max_gap(&steps_c, 0).max(1000);
                    if *t + 1000 < t_conn + HS_BUDGET_US {
                        return CaseResult::fail("oracle:c10:handshake_timeout_early:client", format!("client reported handshake Error(Timeout) at t={t} us, before the 22 000 ms retry budget had elapsed ({} SYNs sent)", syns.len()));
                    }
                    if *t > t_conn + HS_BUDGET_US + 12 * (gap + 1000) + 1000 {
                        return CaseResult::fail("oracle:c10:handshake_timeout_late:client", format!("client reported handshake Error(Timeout) only at t={t} us (largest step gap {gap} us)"));
                    }
                    if syns.len() != 11 {
                        return CaseResult::fail("oracle:c10:syn_count", format!("client sent {} SYNs before giving up; the retry budget is 1 + 10", syns.len()));
                    }
                    classes.push("client_handshake_timeout");
                }
            } else if !client_cancelled && w.now_us > t_conn + HS_BUDGET_US + 12 * max_gap(&steps_c, 0).max(1000) + 1_000_000 && steps_c.last().map_or(false, |l| l.1 > t_conn + HS_BUDGET_US + 12 * max_gap(&steps_c, 0) + 1_000_000) {
                return CaseResult::fail("oracle:c10:handshake_never_times_out:client", format!("client neither connected nor reported a timeout by t={} us ({} SYNs sent)", w.now_us, syns.len()));
            }
        }
        // largest gap between consecutive steps of an endpoint that overlaps [t0, t1] (a timer cannot fire between steps)
        let gap_between = |steps: &Vec<(u64, u64)>, t0: u64, t1: u64| -> u64 {
            let mut g = 0u64;
            let mut prev = 0u64;
            for (_, t) in steps.iter() {
                if *t >= t0 && prev <= t1 {
                    g = g.max(*t - prev);
                }
                prev = *t;
                if prev > t1 {
                    break;
                }
            }
            g.max(1000)
        };
        // server: SYN-ACK count per attempt (same nonce)
        let mut synack_by_nonce: std::collections::HashMap<u32, Vec<u64>> = std::collections::HashMap::new();
        for r in w.wire.iter().filter(|r| r.to == caddr) {
            if let Some(Frame::HandshakeSynAckFrame(f)) = Frame::read(&r.bytes) {
                synack_by_nonce.entry(f.nonce).or_default().push(r.t_us);
            }
        }
        let s_connect = w.server_events.iter().find(|(_, _, e)| matches!(e, SEv::Connect(a) if *a == caddr)).map(|p| (p.0, p.1));
        for (nonce, times) in synack_by_nonce.iter() {
            // duplicate ACK handling may re-send a SYN-ACK? no: the server only resends on its timer
            if times.len() > 11 {
                return CaseResult::fail("oracle:c10:synack_count", format!("server sent {} SYN-ACKs (nonce {nonce}) for one pending entry; the budget is 1 + 10", times.len()));
            }
            // ... and 2 s apart, not later (whatever other connections' timers the server is keeping)
            for p in times.windows(2) {
                let allowed = 2_000_000 + 2 * gap_between(&steps_s, p[0], p[1]) + 2000;
                if p[1] > p[0] + allowed {
                    return CaseResult::fail("oracle:c10:synack_resend_late", format!("server repeated its SYN-ACK (nonce {nonce}) {} us after the previous copy (t={} us) although it stepped at least every {} us in between; repeats are 2 s apart", p[1] - p[0], p[1], gap_between(&steps_s, p[0], p[1])));
                }
            }
        }
        for (_, t, e) in w.server_events.iter() {
            if let SEv::Error(a, SErr::Timeout) = e {
                if *a == caddr && s_connect.map_or(true, |sc| *t < sc.1) {
                    // handshake timeout of a pending entry: not before 22 s after the entry was created
                    let first_synack = synack_by_nonce.values().flat_map(|v| v.iter()).filter(|x| **x <= *t).min().copied().unwrap_or(0);
                    let created = synack_by_nonce.values().filter(|v| v.iter().all(|x| *x <= *t)).map(|v| v[0]).max().unwrap_or(first_synack);
                    if *t + 1000 < created + HS_BUDGET_US {
                        return CaseResult::fail("oracle:c10:handshake_timeout_early:server", format!("server reported a handshake timeout for {a} at t={t} us, only {} us after it first answered the SYN", *t - created));
                    }
                    classes.push("server_handshake_timeout");
                }
            }
        }
        // a handshake attempt ENDS after its budget, whether or not the application is told: the server must not go on
        // tracking an address that never completed the exchange
        if s_connect.is_none() {
            if let Some(t0) = synack_by_nonce.values().map(|v| v[0]).max() {
                let gap = gap_between(&steps_s, t0, t0 + HS_BUDGET_US);
                let last_step = steps_s.last().map_or(0, |p| p.1);
                if last_step > t0 + HS_BUDGET_US + 12 * gap + 1_000_000 && w.server_has_client(&caddr) {
                    return CaseResult::fail(
                        "oracle:c10:handshake_attempt_never_ends:server",
                        format!("the server first answered the (latest) connection request of {caddr} at t={t0} us and never saw it completed; at t={last_step} us, {} us later, it still tracks that address (enable_handshake_errors = {}): the attempt outlives its 22 000 ms retry budget", last_step - t0, scfg.handshake_errors),
                    );
                }
                classes.push(if scfg.handshake_errors { "server_attempt_abandoned_errors_on" } else { "server_attempt_abandoned_errors_off" });
            }
        }
        if syns.len() > 1 {
            classes.push("handshake_retried");
        }

        // ---- (e) disconnect retry budget ---------------------------------------------------------------
        let c_disc: Vec<(u64, u64)> = w.wire.iter().filter(|r| r.from == caddr && r.bytes.first() == Some(&4)).map(|r| (r.seq, r.t_us)).collect();
        let s_disc: Vec<(u64, u64)> = w.wire.iter().filter(|r| r.to == caddr && r.from == w.server_addr && r.bytes.first() == Some(&4)).map(|r| (r.seq, r.t_us)).collect();
        for (name, frames, timeout_ev) in [
            ("client", &c_disc, c_events.iter().find(|(s, _, e)| c_disc.first().map_or(false, |f| *s > f.0) && matches!(e, CEv::Error(SErr::Timeout))).map(|p| p.1)),
            ("server", &s_disc, w.server_events.iter().find(|(s, _, e)| s_disc.first().map_or(false, |f| *s > f.0) && matches!(e, SEv::Error(a, SErr::Timeout) if *a == caddr)).map(|p| p.1)),
        ] {
            if frames.is_empty() {
                continue;
            }
            classes.push("disconnect_attempt");
            if frames.len() > 11 {
                return CaseResult::fail(format!("oracle:c10:disconnect_count:{name}"), format!("{name} sent {} Disconnect frames for one attempt; the budget is 1 + 10", frames.len()));
            }
            for p in frames.windows(2) {
                let steps = if name == "client" { &steps_c } else { &steps_s };
                let allowed = 2_000_000 + 2 * gap_between(steps, p[0].1, p[1].1) + 2000;
                if p[1].1 > p[0].1 + allowed {
                    return CaseResult::fail(format!("oracle:c10:disconnect_resend_late:{name}"), format!("{name} re-sent its disconnect request {} us after the previous one (at t={} us) although it stepped at least every {} us in between; resends are 2 s apart", p[1].1 - p[0].1, p[1].1, gap_between(steps, p[0].1, p[1].1)));
                }
                if p[1].1 + 1000 < p[0].1 + 2_000_000 {
                    return CaseResult::fail(format!("oracle:c10:disconnect_resend_spacing:{name}"), format!("{name} re-sent its disconnect request {} us after the previous one (at t={} us); resends are 2 s apart", p[1].1 - p[0].1, p[1].1));
                }
            }
            if let Some(t) = timeout_ev {
                let steps = if name == "client" { &steps_c } else { &steps_s };
                if t > frames[0].1 + HS_BUDGET_US + 12 * gap_between(steps, frames[0].1, t) + 2000 {
                    return CaseResult::fail(format!("oracle:c10:disconnect_timeout_late:{name}"), format!("{name} gave up its disconnect attempt only at t={t} us, {} us after the request was first sent; the retry budget is 22 000 ms", t - frames[0].1));
                }
                if t + 1000 < frames[0].1 + HS_BUDGET_US {
                    return CaseResult::fail(
                        format!("oracle:c10:disconnect_timeout_early:{name}"),
                        format!("{name} gave up its disconnect attempt with Error(Timeout) at t={t} us, only {} us after the request was first sent at t={} us ({} Disconnect frames sent); the retry budget is 22 000 ms", t - frames[0].1, frames[0].1, frames.len()),
                    );
                }
                classes.push("disconnect_attempt_timed_out");
            }
        }
        // ---- (a) (b) active timeouts --------------------------------------------------------------------
        let mut near_deadline = false;
        // client side
        if let Some((cseq, e_time)) = c_connect {
            let timeout = c.client_timeout_ms as u64 * 1000;
            // proof-of-life deliveries to the client after it became active
            let pol: Vec<(u64, u64)> = w.delivered.iter().filter(|d| d.to == caddr && d.seq > first_delivery_seq_enabling_connect(&w, caddr, cseq) && proof_of_life(&d.bytes)).map(|d| (d.seq, d.t_us)).collect();
            let term = c_events.iter().find(|(s, _, e)| *s > cseq && matches!(e, CEv::Disconnect | CEv::Error(_))).map(|p| (p.0, p.2.clone()));
            let (e_seq, e_time) = (cseq, e_time);
            if let Some(v) = check_active(&steps_c, e_seq, e_time, &pol, timeout, term, c_disc.first().map(|f| f.0), "client", &mut near_deadline) {
                return CaseResult { violation: Some(v), nontrivial: true, classes };
            }
        }
        // server side
        if let Some((sseq, e_time)) = s_connect {
            let timeout = c.server_timeout_ms as u64 * 1000;
            let pol: Vec<(u64, u64)> = w.delivered.iter().filter(|d| d.from == caddr && d.seq > first_delivery_seq_enabling_server_connect(&w, caddr, sseq) && proof_of_life(&d.bytes)).map(|d| (d.seq, d.t_us)).collect();
            let (e_seq, e_time) = (sseq, e_time);
            let term = w.server_events.iter().find(|(s, _, e)| *s > sseq && matches!(e, SEv::Disconnect(a) | SEv::Error(a, _) if *a == caddr)).map(|p| {
                (p.0, match &p.2 {
                    SEv::Disconnect(_) => CEv::Disconnect,
                    SEv::Error(_, e) => CEv::Error(*e),
                    _ => CEv::Connect,
                })
            });
            if let Some(v) = check_active(&steps_s, e_seq, e_time, &pol, timeout, term, s_disc.first().map(|f| f.0), "server", &mut near_deadline) {
                return CaseResult { violation: Some(v), nontrivial: true, classes };
            }
        }
        if std::env::var_os("VERIF_DEBUG").is_some() {
            eprintln!("idle starts at {} us; client events {:?}", t_idle_start, w.clients[ci].events);
            eprintln!("server events {:?}", w.server_events);
            let mut last = (0u64, String::new(), 0u32);
            for r in w.wire.iter() {
                let kind = match Frame::read(&r.bytes) { Some(Frame::DataFrame(_)) => "data", Some(Frame::SyncFrame(_)) => "sync", Some(Frame::AckFrame(_)) => "ack", Some(Frame::DisconnectFrame(_)) => "disc", Some(Frame::DisconnectAckFrame(_)) => "discack", Some(_) => "hs", None => "?" };
                let who = if r.from == caddr { "c" } else { "s" };
                let tag = format!("{who}:{kind}");
                if tag == last.1 && r.t_us - last.0 < 100_000 { last.2 += 1; last.0 = r.t_us; continue; }
                if last.2 > 0 { eprintln!("    ... {} more", last.2); }
                eprintln!("  t={} {tag} len={}", r.t_us, r.bytes.len());
                last = (r.t_us, tag, 0);
            }
        }
        // ---- (c) keepalive ---------------------------------------------------------------------------
        if idle_checked {
            let gap = max_gap(&steps_c, t_idle_start).max(max_gap(&steps_s, t_idle_start)).max(idle_step);
            let lat = (c.latency_us[0].max(c.latency_us[1])) as u64;
            // a timeout only counts while the peer is still alive
            let c_first_term = c_events.iter().find(|(_, _, e)| matches!(e, CEv::Disconnect | CEv::Error(_))).map(|p| p.1);
            let s_first_term = w.server_events.iter().find(|(_, _, e)| matches!(e, SEv::Disconnect(a) | SEv::Error(a, _) if *a == caddr)).map(|p| p.1);
            let peer_dead_first = [s_first_term.zip(c_first_term).map_or(false, |(s, c)| s < c), c_first_term.zip(s_first_term).map_or(false, |(c, s)| c < s)];
            for (which, (name, ka_self, ka_peer, timeout_ms, timed_out)) in [
                // only a timeout whose whole silence window lies inside the loss-free idle phase counts
                ("client", c.client_keepalive, c.server_keepalive, c.client_timeout_ms, c_events.iter().any(|(_, t, e)| *t >= t_idle_start + c.client_timeout_ms as u64 * 1000 && matches!(e, CEv::Error(SErr::Timeout)))),
                ("server", c.server_keepalive, c.client_keepalive, c.server_timeout_ms, w.server_events.iter().any(|(_, t, e)| *t >= t_idle_start + c.server_timeout_ms as u64 * 1000 && matches!(e, SEv::Error(_, SErr::Timeout)))),
            ]
            .into_iter()
            .enumerate()
            {
                if peer_dead_first[which] {
                    continue;
                }
                // an endpoint hears from its peer if the peer sends keepalives (or if it sends them itself: they are acknowledged)
                let interval = match (ka_peer, ka_self) {
                    (Some(p), Some(s)) => Some(p.min(s)),
                    (Some(p), None) => Some(p),
                    (None, Some(s)) => Some(s),
                    (None, None) => None,
                };
                if let Some(iv) = interval {
                    let comfortable = 3 * (iv as u64 * 1000).max(2_000_000) + 4 * (lat + gap) <= timeout_ms as u64 * 1000;
                    // sync / keepalive frames are documented to be paced by the TFRC RTO: with the RTO of the
                    // endpoints that send them (as it stood when the idle phase began) the spacing may be this long
                    // (the acknowledgement that answers a keepalive is subject to the answering side's credit, i.e.
                    // to its rate, as well: take the larger of the two)
                    let _ = (ka_peer, ka_self, which);
                    let pace = (if has_rtt_at_idle_start.0 { rto_start.0 } else { rto_client_us }).max(if has_rtt_at_idle_start.1 { rto_start.1 } else { rto_server_us });
                    let comfortable_rto = 3 * pace.max(iv as u64 * 1000).max(2_000_000) + 4 * (lat + gap) <= timeout_ms as u64 * 1000;
                    if comfortable {
                        classes.push("keepalive_clause_checked");
                        if timed_out {
                            let key = if comfortable_rto { format!("oracle:c10:keepalive_timeout:{name}") } else { format!("oracle:c10:keepalive_timeout_paced_by_rto:{name}") };
                            if comfortable_rto || !tolerate_known(&key) {
                                return CaseResult::fail(
                                    key,
                                    format!("{name} timed out during {} s of idling on a loss-free link although keepalive (interval {iv} ms) is enabled and the timeout is {timeout_ms} ms (latency {lat} us, largest step gap {gap} us; largest RTO lower bounds during the idle phase: client {rto_client_us} us, server {rto_server_us} us)", c.idle_s),
                                );
                            }
                            classes.push("known_keepalive_paced_by_rto");
                        }
                    }
                }
            }
        }
        if near_deadline {
            classes.push("deadline_near_frame_arrival");
        }
        if c.idle_s >= 600 && idle_checked {
            classes.push("idle_10min_plus");
        }
        classes.sort();
        classes.dedup();
        CaseResult::ok(near_deadline || syns.len() > 1, classes)
    }
}

/// Sequence number (in the delivery log) of the SYN-ACK that made the client connect: frames
/// delivered before it were ignored by a pending client.
fn first_delivery_seq_enabling_connect(w: &World, caddr: std::net::SocketAddr, connect_seq: u64) -> u64 {
    w.delivered.iter().filter(|d| d.to == caddr && d.seq < connect_seq && matches!(Frame::read(&d.bytes), Some(Frame::HandshakeSynAckFrame(_)))).map(|d| d.seq).max().unwrap_or(0)
}

fn first_delivery_seq_enabling_server_connect(w: &World, caddr: std::net::SocketAddr, connect_seq: u64) -> u64 {
    w.delivered.iter().filter(|d| d.from == caddr && d.seq < connect_seq && matches!(Frame::read(&d.bytes), Some(Frame::HandshakeAckFrame(_)))).map(|d| d.seq).max().unwrap_or(0)
}

/// Checks clauses (a) and (b) for one endpoint. `steps` are (event seq right after the step, time)
/// of its steps, `e` the event seq / time at which it became active, `pol` the (delivery seq, time)
/// of proof-of-life frames handed to it, `term` its terminal event (event seq, event).
fn check_active(steps: &[(u64, u64)], e_seq: u64, e: u64, pol: &[(u64, u64)], timeout: u64, term: Option<(u64, CEv)>, closing_from: Option<u64>, name: &str, near: &mut bool) -> Option<Violation> {
    let mut pi = 0usize;
    let mut p = e;
    let mut prev_t = e;
    for &(s_after, t) in steps.iter() {
        if s_after < e_seq {
            prev_t = t;
            continue;
        }
        // once the endpoint has sent its own disconnect request it is closing, not active
        if closing_from.map_or(false, |c| c <= s_after) {
            return None;
        }
        while pi < pol.len() && pol[pi].0 <= s_after {
            p = p.max(pol[pi].1);
            pi += 1;
        }
        let silent = t.saturating_sub(p);
        let gap = t - prev_t.min(t);
        prev_t = t;
        if silent + 2 * gap >= timeout && silent < timeout + 2 * gap && p > e {
            *near = true;
        }
        if let Some((tseq, ev)) = term.as_ref() {
            if *tseq <= s_after {
                // the terminal event was produced by this step
                if matches!(ev, CEv::Error(SErr::Timeout)) && silent + 1000 < timeout {
                    // the endpoints keep time in whole milliseconds
                    return Some(Violation::new(
                        format!("oracle:c10:timeout_too_early:{name}"),
                        format!("{name} reported Error(Timeout) at t={t} us although it became active at {e} us and last processed a frame from its peer at {p} us: only {silent} us of silence, active_timeout is {timeout} us"),
                    ));
                }
                return None;
            }
        }
        if silent >= timeout + 1000 {
            // must be reported at this step
            return Some(Violation::new(
                format!("oracle:c10:timeout_not_reported:{name}"),
                format!("{name}: at the step at t={t} us, {silent} us had passed since it last heard from its peer (active since {e} us, active_timeout {timeout} us), yet no timeout was reported at this step (terminal event: {:?})", term),
            ));
        }
    }
    None
}
