//! C06 — receiver memory stays within max_receive_alloc; senders respect the peer's limits.

use crate::alloc;
use crate::engine::*;
use crate::props::c02::{CAP_US, STALL_US};
use crate::props::c12::force_identity_sizes;
use crate::sim::gen::*;
use crate::sim::ledger::*;
use crate::sim::pair::*;
use crate::sim::wiremodel::*;
use proptest::prelude::*;
use serde::{Deserialize, Serialize};
use std::collections::BTreeMap;
use uflow::verif::Serialize as _;
use uflow::verif::{DataFrame, Datagram, Frame, FrameSink, HalfConnection, HalfConnectionConfig, PacketSink, SyncFrame};

#[derive(Clone, Debug, Serialize, Deserialize)]
pub struct RDatagram {
    /// packet id relative to the receiver's current window base
    pub lead: i32,
    pub ch: u8,
    pub w: u16,
    pub h: u16,
    pub frag: u16,
    pub last: u16,
    /// payload length for single-fragment / last fragments (others are full)
    pub len: u16,
}

#[derive(Clone, Debug, Serialize, Deserialize)]
pub enum ROp {
    /// one data frame; `gap` is the distance of its frame id from the previous one
    Data { gap: u32, dgs: Vec<RDatagram> },
    /// `count` data frames, each `gap` ids after the previous, each carrying one copy of the
    /// datagram with its packet lead advanced by `lead_step` per frame
    Flood { count: u32, gap: u32, dg: RDatagram, lead_step: i32 },
    Sync { frame_lead: Option<i32>, packet_lead: Option<i32> },
    Receive,
    /// step() + flush(): lets the receiver emit acks (and lets the harness learn its window bases)
    StepFlush { dt_ms: u32 },
}

#[derive(Clone, Debug, Serialize, Deserialize)]
pub struct RxCase {
    pub limit: u32,
    pub win_log2: u8,
    pub fwin_log2: u8,
    pub pkt_base: u32,
    pub frm_base: u32,
    pub ops: Vec<ROp>,
}

#[derive(Clone, Debug, Serialize, Deserialize)]
pub enum Case {
    Receiver(RxCase),
    Sender(PairScenario),
    /// like Sender, but the data link may lose / duplicate / reorder frames too
    SenderLossy(PairScenario),
    /// real Client / Server with different max_receive_alloc settings, optionally a hostile raw peer
    Endpoints(EpCase),
}

struct AckSink {
    last: Option<(u32, u32)>,
    bytes: u64,
}
impl FrameSink for AckSink {
    fn send(&mut self, frame_data: &[u8]) {
        self.bytes += frame_data.len() as u64;
        if let Some(Frame::AckFrame(a)) = Frame::read(frame_data) {
            self.last = Some((a.frame_window_base_id, a.packet_window_base_id));
        }
    }
}
struct DropSink {
    bytes: u64,
    count: u64,
}
impl PacketSink for DropSink {
    fn send(&mut self, packet_data: Box<[u8]>) {
        self.bytes += packet_data.len() as u64;
        self.count += 1;
    }
}

pub struct C06;

fn rdatagram() -> impl Strategy<Value = RDatagram> {
    (
        prop_oneof![6 => 0i32..8, 2 => 0i32..4100, 1 => -5i32..0, 1 => 4090i32..4200, 1 => any::<i32>()],
        prop_oneof![4 => 0u8..4, 1 => 0u8..64],
        prop_oneof![5 => Just(0u16), 2 => 1u16..6, 1 => any::<u16>()],
        prop_oneof![5 => Just(0u16), 2 => 1u16..6, 1 => any::<u16>()],
        prop_oneof![4 => Just(0u16), 2 => 0u16..8, 1 => any::<u16>()],
        prop_oneof![3 => Just(0u16), 3 => 1u16..8, 2 => 8u16..200, 1 => 200u16..4000, 1 => Just(65535u16), 1 => any::<u16>()],
        prop_oneof![2 => Just(1448u16), 2 => 0u16..64, 2 => 0u16..=1448],
    )
        .prop_map(|(lead, ch, w, h, frag, last, len)| RDatagram { lead, ch, w, h, frag, last, len })
}

fn rop(flood_max: u32) -> impl Strategy<Value = ROp> {
    prop_oneof![
        8 => (prop_oneof![4 => Just(1u32), 2 => Just(33u32), 1 => 1u32..100, 1 => 2000u32..5000], proptest::collection::vec(rdatagram(), 1..4)).prop_map(|(gap, dgs)| ROp::Data { gap, dgs }),
        2 => (1u32..flood_max, prop_oneof![2 => Just(1u32), 3 => Just(33u32), 1 => Just(64u32)], rdatagram(), prop_oneof![3 => Just(1i32), 2 => Just(0i32), 1 => Just(2i32)]).prop_map(|(count, gap, dg, lead_step)| ROp::Flood { count, gap, dg, lead_step }),
        1 => (proptest::option::of(prop_oneof![0i32..10, 0i32..5000]), proptest::option::of(prop_oneof![0i32..10, 0i32..5000])).prop_map(|(frame_lead, packet_lead)| ROp::Sync { frame_lead, packet_lead }),
        3 => Just(ROp::Receive),
        2 => prop_oneof![Just(0u32), 1u32..50, 50u32..3000].prop_map(|dt_ms| ROp::StepFlush { dt_ms }),
    ]
}

/// Complete packets that can never be delivered (their channel parent lead names a packet of another channel)
/// wedged between packets that are delivered at once, over and over: whatever the receiver does with such a packet,
/// its data must stay inside the allocation. The wedged packet is as large as the allocation permits.
fn park_case(tier: Tier) -> BoxedStrategy<RxCase> {
    (5usize..tier.pick(80, 400), 1448u32..60_000, 0u8..3, any::<bool>(), prop_oneof![Just(0u32), (0u32..50).prop_map(|d| PKT_MASK - d), 0u32..=PKT_MASK], prop_oneof![Just(0u32), any::<u32>()])
        .prop_map(|(n, limit, a, receive_each, pkt_base, frm_base)| {
            let b = (a + 1) % 3;
            let frags = ((limit as usize / FRAG).max(1)).min(24) as u16;
            let mut ops = Vec::new();
            for _ in 0..n {
                let y0 = RDatagram { lead: 0, ch: b, w: 0, h: 0, frag: 0, last: 0, len: 5 };
                ops.push(ROp::Data { gap: 1, dgs: vec![y0] });
                // it names the packet in front of it as its window parent (delivered, so satisfied) and as its channel parent
                for f in 0..frags {
                    let x = RDatagram { lead: 1, ch: a, w: 1, h: 1, frag: f, last: frags - 1, len: 1448 };
                    ops.push(ROp::Data { gap: 1, dgs: vec![x] });
                }
                let y1 = RDatagram { lead: 2, ch: b, w: 0, h: 0, frag: 0, last: 0, len: 5 };
                ops.push(ROp::Data { gap: 1, dgs: vec![y1] });
                if receive_each {
                    ops.push(ROp::Receive);
                }
                // (step + flush: the receiver acknowledges, and the harness learns its window bases)
                ops.push(ROp::StepFlush { dt_ms: 5 });
            }
            ops.push(ROp::Receive);
            ops.push(ROp::StepFlush { dt_ms: 5 });
            RxCase { limit, win_log2: 12, fwin_log2: 12, pkt_base, frm_base, ops }
        })
        .boxed()
}

/// The same idea with a sync frame: a complete packet whose channel parent (the packet right in front of it) never
/// arrives, nothing else waiting, then a sync frame that names a packet id beyond it - over and over. Wherever the
/// receive window goes, the packet's data must stay inside the allocation or be released.
fn sync_park_case(tier: Tier) -> BoxedStrategy<RxCase> {
    (5usize..tier.pick(80, 400), 1448u32..60_000, 0u8..3, prop_oneof![Just(0u8), Just(1u8), Just(2u8)], prop_oneof![Just(0u32), (0u32..50).prop_map(|d| PKT_MASK - d), 0u32..=PKT_MASK], prop_oneof![Just(0u32), any::<u32>()], prop_oneof![Just(2i32), 2i32..6], any::<bool>())
        .prop_map(|(n, limit, a, receive_when, pkt_base, frm_base, sync_lead, with_frame_id)| {
            let frags = ((limit as usize / FRAG).max(1)).min(24) as u16;
            let mut ops = Vec::new();
            for _ in 0..n {
                for f in 0..frags {
                    let x = RDatagram { lead: 1, ch: a, w: 1, h: 1, frag: f, last: frags - 1, len: 1448 };
                    ops.push(ROp::Data { gap: 1, dgs: vec![x] });
                }
                if receive_when == 1 {
                    ops.push(ROp::Receive);
                }
                ops.push(ROp::Sync { frame_lead: if with_frame_id { Some(0) } else { None }, packet_lead: Some(sync_lead) });
                if receive_when == 2 {
                    ops.push(ROp::Receive);
                }
                ops.push(ROp::StepFlush { dt_ms: 5 });
            }
            ops.push(ROp::Receive);
            ops.push(ROp::StepFlush { dt_ms: 5 });
            RxCase { limit, win_log2: 12, fwin_log2: 12, pkt_base, frm_base, ops }
        })
        .boxed()
}

fn rx_case(tier: Tier) -> BoxedStrategy<RxCase> {
    let flood_max = tier.pick(6_000u32, 400_000u32);
    let ops = proptest::collection::vec(rop(flood_max), 1..tier.pick(60, 200));
    (
        prop_oneof![2 => Just(1u32), 2 => Just(1448u32), 2 => 1449u32..20_000, 3 => 20_000u32..1_000_000, 1 => 1_000_000u32..4_000_000],
        prop_oneof![1 => 0u8..4, 1 => 4u8..12, 3 => Just(12u8)],
        prop_oneof![1 => 0u8..4, 1 => 4u8..12, 3 => Just(12u8)],
        prop_oneof![Just(0u32), (0u32..50).prop_map(|d| PKT_MASK - d), 0u32..=PKT_MASK],
        prop_oneof![Just(0u32), (0u32..50).prop_map(|d| u32::MAX - d), any::<u32>()],
        ops,
    )
        .prop_map(|(limit, win_log2, fwin_log2, pkt_base, frm_base, ops)| RxCase { limit, win_log2, fwin_log2, pkt_base, frm_base, ops })
        .boxed()
}

pub fn ceil_frag(n: usize) -> usize {
    ((n + FRAG - 1) / FRAG) * FRAG
}

/// Budget for receive-side bookkeeping that protocol constants bound: a full frame window's worth
/// of ack groups (4096 x 12 B, doubled for ring capacity growth) plus slack.
pub const K_BOOKKEEPING: i64 = 160 * 1024;

fn run_receiver(c: &RxCase) -> CaseResult {
    let mut classes: Vec<&'static str> = Vec::new();
    uflow::verif::time::set_ns(0);
    uflow::verif::rand::seed(1);
    let win = 1u32 << c.win_log2.min(12);
    let fwin = 1u32 << c.fwin_log2.min(12);
    let cfg = HalfConnectionConfig {
        tx_frame_base_id: 0,
        rx_frame_base_id: c.frm_base,
        tx_frame_window_size: 4096,
        rx_frame_window_size: fwin,
        tx_packet_base_id: 0,
        rx_packet_base_id: c.pkt_base & PKT_MASK,
        tx_packet_window_size: 4096,
        rx_packet_window_size: win,
        tx_bandwidth_limit: 1_000_000,
        tx_alloc_limit: 1_000_000,
        rx_alloc_limit: c.limit.max(1) as usize,
        keepalive_interval_ms: None,
    };
    let limit = ceil_frag(c.limit.max(1) as usize) as i64;
    // proportional allowance for reassembly bitmaps: 8 bytes per 64 fragments = 8/(64*1448)
    let allowance = limit / 400 + K_BOOKKEEPING;
    let mut rx = HalfConnection::new(cfg);
    let mut now_ns: u64 = 0;
    let mut frame_id = c.frm_base;
    let mut pkt_base = c.pkt_base & PKT_MASK;
    let mut frm_base = c.frm_base;
    let mut frames_fed: u64 = 0;
    let mut near_limit = false;
    let mut dsink = DropSink { bytes: 0, count: 0 };
    let mut asink = AckSink { last: None, bytes: 0 };
    let baseline = alloc::live();
    let mut worst: i64 = 0;

    let make = |d: &RDatagram, pkt_base: u32, extra_lead: i32| -> Datagram {
        let last = d.last;
        let frag = if last == 0 { 0 } else { d.frag.min(last) };
        let len = if frag < last { FRAG } else { (d.len as usize).min(FRAG) };
        Datagram {
            sequence_id: (pkt_base as i64 + d.lead as i64 + extra_lead as i64) as u32 & PKT_MASK,
            channel_id: d.ch & 63,
            window_parent_lead: d.w,
            channel_parent_lead: d.h,
            fragment_id: frag,
            fragment_id_last: last,
            data: vec![0x77u8; len].into_boxed_slice(),
        }
    };

    macro_rules! check {
        ($what:expr) => {{
            let held = alloc::live() - baseline;
            if held > worst {
                worst = held;
            }
            let st = rx.verif_stats();
            if st.rx_alloc as i64 + FRAG as i64 >= limit {
                near_limit = true;
            }
            if held > limit + allowance {
                let key = if (st.ack_queue_len as i64) * 12 > K_BOOKKEEPING / 2 { "oracle:c06:receive_state_unbounded:ack_groups" } else if st.rx_alloc as i64 > limit { "oracle:c06:alloc_counter_over_limit" } else { "oracle:c06:heap_over_limit" };
                return CaseResult::fail(
                    key,
                    format!(
                        "after {} ({} frames fed): connection holds {} bytes of heap beyond its construction baseline; limit max_receive_alloc={} (rounded {}), allowance for bookkeeping {} bytes. Attribution: receive allocation counter {} bytes, {} ack groups queued",
                        $what, frames_fed, held, c.limit, limit, allowance, st.rx_alloc, st.ack_queue_len
                    ),
                );
            }
        }};
    }

    for op in c.ops.iter() {
        match op {
            ROp::Data { gap, dgs } => {
                frame_id = frame_id.wrapping_add(*gap);
                let datagrams: Vec<Datagram> = dgs.iter().map(|d| make(d, pkt_base, 0)).collect();
                let bytes = Frame::DataFrame(DataFrame { sequence_id: frame_id, nonce: false, datagrams }).write();
                if let Some(Frame::DataFrame(df)) = Frame::read(&bytes) {
                    rx.handle_data_frame(df);
                }
                drop(bytes);
                frames_fed += 1;
                check!("a data frame");
            }
            ROp::Flood { count, gap, dg, lead_step } => {
                for k in 0..*count {
                    frame_id = frame_id.wrapping_add(*gap);
                    let d = make(dg, pkt_base, (k as i64 * *lead_step as i64).min(i32::MAX as i64) as i32);
                    let bytes = Frame::DataFrame(DataFrame { sequence_id: frame_id, nonce: false, datagrams: vec![d] }).write();
                    if let Some(Frame::DataFrame(df)) = Frame::read(&bytes) {
                        rx.handle_data_frame(df);
                    }
                    drop(bytes);
                    frames_fed += 1;
                    if k % 64 == 0 {
                        check!("a flood of data frames");
                    }
                }
                check!("a flood of data frames");
                classes.push("flood");
            }
            ROp::Sync { frame_lead, packet_lead } => {
                let f = SyncFrame { next_frame_id: frame_lead.map(|l| (frm_base as i64 + l as i64) as u32), next_packet_id: packet_lead.map(|l| (pkt_base as i64 + l as i64) as u32 & PKT_MASK) };
                rx.handle_sync_frame(f);
                check!("a sync frame");
            }
            ROp::Receive => {
                rx.receive(&mut dsink);
                check!("receive()");
            }
            ROp::StepFlush { dt_ms } => {
                now_ns += *dt_ms as u64 * 1_000_000;
                uflow::verif::time::set_ns(now_ns);
                rx.step();
                rx.flush(&mut asink);
                if let Some((fb, pb)) = asink.last {
                    frm_base = fb;
                    pkt_base = pb & PKT_MASK;
                    // keep feeding frames inside the receiver's frame window
                    if frame_id.wrapping_sub(frm_base) > fwin {
                        frame_id = frm_base;
                    }
                }
                check!("step()+flush()");
            }
        }
    }
    if near_limit {
        classes.push("allocation_counter_near_limit");
    }
    if frames_fed >= 10_000 {
        classes.push("fed_10k_frames");
    }
    if dsink.count > 0 {
        classes.push("delivered_something");
    }
    classes.push("receiver_half");
    let _ = worst;
    CaseResult::ok(near_limit || frames_fed >= 10_000, classes)
}

fn run_sender(sc: &PairScenario, lossy: bool) -> CaseResult {
    let mut sc = sc.clone();
    // one-way traffic 0 -> 1; acks (link 1) may be lost / delayed / duplicated; the data link is loss-free
    // unless `lossy`
    for t in sc.ticks.iter_mut() {
        t.acts[1].sends.clear();
    }
    if !lossy {
        sc.links[0].fates.clear();
    }
    force_identity_sizes(&mut sc);
    sc.normalize();
    let mut sim = SimPair::new(&sc);
    for t in sc.ticks.iter() {
        sim.run_tick(t);
    }
    let step_us = sc.tail.as_ref().map(|t| t.step_us as u64).unwrap_or(10_000);
    let outcome = {
        let o = sim.run_tail_progress(step_us, 5_000_000, 20_000_000);
        if o == TailOutcome::Quiescent {
            o
        } else {
            sim.record_stats = false;
            sim.run_tail_progress(step_us, STALL_US, CAP_US)
        }
    };
    let end_stats = [sim.hc[0].verif_stats(), sim.hc[1].verif_stats()];
    let trace = sim.finish();
    let mut classes: Vec<&'static str> = vec![if lossy { "sender_half_lossy" } else { "sender_half" }];
    let s = 0usize;
    let window = 1u32 << sc.dirs[s].pkt_win_log2;
    let peer_limit = ceil_frag(sc.dirs[s].alloc_limit as usize) as u64;
    let evs = sender_events(&trace, s);
    let mut base = sc.dirs[s].pkt_base & PKT_MASK;
    let mut next_id = base;
    let mut outstanding: BTreeMap<u32, u64> = BTreeMap::new(); // lead-from-origin -> alloc size
    let origin = base;
    let mut total_alloc: u64 = 0;
    let mut blocked = false;
    for (_, ev) in evs.iter() {
        match ev {
            Ev::Data { dgs, .. } => {
                for (pkt, _frag, last, len) in dgs.iter() {
                    let lead = pkt.wrapping_sub(base) & PKT_MASK;
                    if lead >= 0x80000 {
                        continue; // already passed (C12's business)
                    }
                    if (pkt.wrapping_sub(next_id) & PKT_MASK) < 0x80000 {
                        next_id = (pkt + 1) & PKT_MASK;
                    }
                    let key = pkt.wrapping_sub(origin) & PKT_MASK;
                    if !outstanding.contains_key(&key) {
                        let a = if *last == 0 { *len as u64 } else { (*last as u64 + 1) * FRAG as u64 };
                        outstanding.insert(key, a);
                        total_alloc += a;
                        if outstanding.len() as u32 > window.min(4096) {
                            return CaseResult::fail(
                                "oracle:c06:sender_exceeds_packet_window",
                                format!("sender has {} packets outstanding beyond the newest packet-window base it was told ({base}); window size {window}", outstanding.len()),
                            );
                        }
                        if total_alloc > peer_limit {
                            return CaseResult::fail(
                                "oracle:c06:sender_exceeds_peer_allocation",
                                format!("sender has {total_alloc} fragment-rounded bytes outstanding in {} packets beyond base {base}; the peer advertised max_receive_alloc={} (rounded {peer_limit})", outstanding.len(), sc.dirs[s].alloc_limit),
                            );
                        }
                    }
                }
            }
            Ev::Ack { packet_base, .. } => {
                if *packet_base <= PKT_MASK {
                    let delta = packet_base.wrapping_sub(base) & PKT_MASK;
                    let span = next_id.wrapping_sub(base) & PKT_MASK;
                    if delta <= span && delta != 0 {
                        base = *packet_base;
                        let cut = base.wrapping_sub(origin) & PKT_MASK;
                        let keep = outstanding.split_off(&cut);
                        for (_, a) in outstanding.iter() {
                            total_alloc -= *a;
                        }
                        outstanding = keep;
                    }
                }
            }
            _ => {}
        }
    }
    // receiver never over its limit, never discards
    let rlimit = ceil_frag(sc.dirs[s].alloc_limit as usize);
    for st in trace.stats[1].iter() {
        if st.v.rx_alloc > rlimit {
            return CaseResult::fail("oracle:c06:receiver_alloc_counter_over_limit", format!("receiver allocation counter {} exceeds its limit {} (rounded {rlimit}) at t={} us", st.v.rx_alloc, sc.dirs[s].alloc_limit, st.t_us));
        }
    }
    for st in trace.stats[0].iter() {
        if st.v.send_queue_len > 0 && st.v.pending_queue_len == 0 && st.v.flush_alloc >= 0 {
            blocked = true;
        }
    }
    if outcome == TailOutcome::Quiescent {
        // with everything acknowledged and nothing in flight, neither side may still hold allocation
        if end_stats[0].tx_alloc != 0 || end_stats[1].rx_alloc != 0 {
            return CaseResult::fail(
                "oracle:c06:allocation_held_at_quiescence",
                format!("everything is acknowledged and delivered, yet the sender counts {} bytes as outstanding and the receiver still holds {} bytes of its receive allocation (limit {})", end_stats[0].tx_alloc, end_stats[1].rx_alloc, sc.dirs[s].alloc_limit),
            );
        }
        match match_direction(&sc, &trace, 0) {
            Ok(m) => {
                for sub in trace.subs[0].iter() {
                    // on a lossy data link only Reliable packets are owed
                    if lossy && sub.mode != 3 {
                        continue;
                    }
                    if sub.mode != 0 && m.sub_delivered[sub.idx as usize].is_none() {
                        return CaseResult::fail(
                            "oracle:c06:packet_discarded",
                            format!("data link loss-free or Reliable packet, yet submission {} (mode {}, {} bytes) was never delivered: discarded by the receiver (allocation {} bytes)?", sub.idx, sub.mode, sub.size, sc.dirs[s].alloc_limit),
                        );
                    }
                }
            }
            Err(mut v) => {
                v.key = v.key.replace("oracle:c01:", "oracle:c06:ledger:");
                return CaseResult { violation: Some(v), nontrivial: true, classes };
            }
        }
        classes.push("quiescent");
    }
    if blocked {
        classes.push("sender_blocked_by_window_or_allocation");
    }
    CaseResult::ok(blocked, classes)
}

impl Check for C06 {
    type Case = Case;

    fn id(&self) -> &'static str {
        "C06"
    }

    fn strategy(&self, tier: Tier) -> BoxedStrategy<Case> {
        let p = GenParams { max_ticks: tier.pick(150, 400), max_sends: 10, max_frags: tier.pick(6, 20), tail: true, tight_alloc: true, modes: [1, 2, 2, 3], ..GenParams::default() };
        prop_oneof![4 => rx_case(tier).prop_map(Case::Receiver), 1 => park_case(tier).prop_map(Case::Receiver), 1 => sync_park_case(tier).prop_map(Case::Receiver), 1 => scenario_strategy(&p).prop_map(Case::Sender), 1 => scenario_strategy(&p).prop_map(Case::SenderLossy), 2 => ep_case(tier).prop_map(Case::Endpoints)].boxed()
    }

    fn cases(&self, tier: Tier) -> u64 {
        tier.pick(6_000, 200_000)
    }

    fn max_shrink_iters(&self) -> u32 {
        800
    }

    fn case_timeout_s(&self) -> u64 {
        120
    }

    fn rule(&self) -> String {
        "four case kinds. Endpoints: a real Client and Server with independently generated max_receive_alloc (1448 B .. 1 MB, multiples of the fragment size and their neighbours) and max_packet_size settings exchange bursts in both directions on loss-free links, either side sometimes not stepping; optionally a raw peer completes the handshake by hand advertising an allocation of its own choice and floods first fragments of packets that never complete. Oracle: the allocation each endpoint holds for received data never exceeds ITS OWN rounded max_receive_alloc whatever the peer advertised; from the wire, neither sender has more fragment-rounded bytes outstanding than the peer advertised; once both send buffers have drained every Reliable packet has been delivered (nothing discarded for lack of receive memory). Receiver: a lone receiving HalfConnection (limit 1 B .. 4 MB, windows 2^k) is fed hostile data-frame streams - datagrams with packet ids inside / at the edge of / outside the window, claimed fragment counts up to 65536, packets that never complete, arbitrary parent leads, frame ids spaced 1 / 33 / 64 / thousands apart (to defeat ack-group merging), floods of up to 6*10^3 (quick) or 4*10^5 (thorough) frames, sync frames, with receive() and step()+flush() called at generated points or never; one receiver case in five repeats a 'wedge' pattern: a complete packet as large as the allocation permits which can never be delivered (its channel parent lead names a packet of another channel) between packets that are delivered at once, and one in seven a complete packet whose channel parent (the packet right in front of it) never arrives, followed by a sync frame naming a packet id beyond it. Oracle after every op (every 64 frames inside a flood): live heap bytes of the case's thread minus the post-construction baseline <= max_receive_alloc rounded up to a fragment + 0.25% (reassembly bitmaps) + 160 KiB (bookkeeping bounded by protocol constants: a frame window's worth of ack groups). Sender: one-way SimPair transfer over a loss-free data link with lossy / delayed / duplicated acks and generated peer limits; from the wire alone, packets emitted beyond the newest packet-window base handed to the sender number <= window and sum (fragment-rounded) <= the peer's rounded limit; the receiver's allocation counter never exceeds its limit and, at quiescence, every non-TimeSensitive packet was delivered (none discarded for lack of memory) and neither side still counts any allocation; a lossy variant adds loss / duplication / reordering on the data link (partially received packets that the window passes) and owes every Reliable packet. Non-trivial = receiver: allocation counter came within one fragment of the limit or >= 10^4 frames were fed; sender: the sender was blocked by window or allocation at least once.".into()
    }

    fn assumptions(&self) -> Vec<String> {
        vec![
            "heap attribution relies on the harness's per-thread counting allocator; harness temporaries are released before each measurement and delivered packets are dropped by the sink".into(),
            "K = 160 KiB + 0.25% of the limit is the concrete meaning given to \"bounded by protocol constants\"".into(),
        ]
    }

    fn sample(&self, case: &Case) -> serde_json::Value {
        truncate_value(serde_json::to_value(case).unwrap(), 1)
    }

    fn run(&self, case: &Case) -> CaseResult {
        match case {
            Case::Receiver(c) => run_receiver(c),
            Case::Sender(sc) => run_sender(sc, false),
            Case::SenderLossy(sc) => run_sender(sc, true),
            Case::Endpoints(c) => run_endpoints(c),
        }
    }
}

// ---------------------------------------------------------------------------------------------------
// Endpoints variant: a real Client and Server whose max_receive_alloc settings differ, plus (optionally)
// a raw peer that completes the handshake by hand advertising an allocation of its own choice and then
// floods first fragments of packets that never complete.
// ---------------------------------------------------------------------------------------------------

#[derive(Clone, Debug, Serialize, Deserialize)]
pub enum EOp {
    Tick { dt_us: u32, server: bool, client: bool },
    Send { from_client: bool, mode: u8, ch: u8, size: u32, count: u8 },
    /// the raw peer sends `count` data frames, each carrying fragment 0 of a new packet claiming `last`+1 fragments
    Flood { last: u16, count: u16 },
}

#[derive(Clone, Debug, Serialize, Deserialize)]
pub struct EpCase {
    pub seed: u64,
    pub server_alloc: u32,
    pub client_alloc: u32,
    pub server_pkt: u32,
    pub client_pkt: u32,
    /// what the raw peer advertises as its own max_receive_alloc (None = no raw peer)
    pub hostile_alloc: Option<u32>,
    pub latency_us: [u32; 2],
    pub ops: Vec<EOp>,
}

fn ep_case(tier: Tier) -> BoxedStrategy<EpCase> {
    let alloc = || prop_oneof![2 => (1u32..40).prop_map(|k| k * FRAG as u32), 2 => (1u32..40, 1u32..FRAG as u32).prop_map(|(k, d)| k * FRAG as u32 - d), 2 => 1_448u32..200_000, 1 => Just(1_000_000u32)];
    let op = prop_oneof![
        8 => (prop_oneof![Just(0u32), 1_000u32..30_000, 30_000u32..300_000], prop_oneof![5 => Just(true), 1 => Just(false)], prop_oneof![5 => Just(true), 1 => Just(false)]).prop_map(|(dt_us, server, client)| EOp::Tick { dt_us, server, client }),
        4 => (any::<bool>(), prop_oneof![1 => 1u8..3, 2 => Just(3u8)], 0u8..3, prop_oneof![3 => 5u32..3000, 3 => 3000u32..60_000, 1 => Just(u32::MAX)], prop_oneof![3 => Just(1u8), 1 => 2u8..30]).prop_map(|(from_client, mode, ch, size, count)| EOp::Send { from_client, mode, ch, size, count }),
        2 => (prop_oneof![Just(1u16), 1u16..200, Just(65535u16)], 1u16..300).prop_map(|(last, count)| EOp::Flood { last, count }),
    ];
    (
        any::<u64>(),
        (alloc(), alloc()),
        (any::<u32>(), any::<u32>()),
        proptest::option::weighted(0.5, prop_oneof![Just(u32::MAX), Just(1_000_000_000u32), 1_448u32..10_000_000]),
        (prop_oneof![Just(0u32), 0u32..40_000], prop_oneof![Just(0u32), 0u32..40_000]),
        proptest::collection::vec(op, 1..tier.pick(60, 200)),
    )
        .prop_map(|(seed, (server_alloc, client_alloc), (sp, cp), hostile_alloc, (l0, l1), ops)| {
            // the handshake demands: each side's packets fit the other side's allocation
            let server_pkt = 1 + sp % client_alloc.min(60_000);
            let client_pkt = 1 + cp % server_alloc.min(60_000);
            EpCase { seed, server_alloc, client_alloc, server_pkt, client_pkt, hostile_alloc, latency_us: [l0, l1], ops }
        })
        .boxed()
}

fn run_endpoints(c: &EpCase) -> CaseResult {
    use crate::sim::world::*;
    use uflow::verif::{DataFrame, Datagram, Frame, HandshakeAckFrame, HandshakeSynFrame};
    let mut classes: Vec<&'static str> = Vec::new();
    let scfg = ServerCfg { ep: EpCfg { max_receive_alloc: c.server_alloc, max_packet_size: c.server_pkt, ..EpCfg::default() }, ..ServerCfg::default() };
    let ccfg = EpCfg { max_receive_alloc: c.client_alloc, max_packet_size: c.client_pkt, ..EpCfg::default() };
    let mut w = World::new(c.seed, &scfg);
    let ci = w.add_client(&ccfg, LinkState { latency_us: c.latency_us, ..LinkState::default() });
    let caddr = w.clients[ci].addr;
    let s_limit = ceil_frag(c.server_alloc as usize);
    let c_limit = ceil_frag(c.client_alloc as usize);
    let haddr = raw_addr(77);
    let hostile_nonce = 0x0123_4567u32;
    let mut hostile_up = false;
    let mut hostile_frame = hostile_nonce;
    let mut hostile_pkt = hostile_nonce & PKT_MASK;
    let mut near_limit = false;
    let mut sent: [Vec<(u32, u8, usize)>; 2] = [Vec::new(), Vec::new()]; // (idx, mode, size) per direction (0 = client -> server)

    macro_rules! check_rx {
        () => {
            if let Some(server) = w.server.as_ref() {
                for a in [caddr, haddr] {
                    if let Some(rc) = server.client(&a) {
                        if let Some(st) = rc.borrow().verif_stats() {
                            if st.rx_alloc + FRAG > s_limit {
                                near_limit = true;
                            }
                            if st.rx_alloc > s_limit {
                                return CaseResult::fail(
                                    "oracle:c06:endpoints:server_receive_allocation_exceeded",
                                    format!("the server holds {} bytes of received packet data for {a} although its max_receive_alloc is {} (rounded {s_limit}); that peer advertised {:?}", st.rx_alloc, c.server_alloc, if a == caddr { Some(c.client_alloc) } else { c.hostile_alloc }),
                                );
                            }
                        }
                    }
                }
            }
            if let Some(st) = w.clients[ci].client.as_ref().and_then(|cl| cl.verif_stats()) {
                if st.rx_alloc + FRAG > c_limit {
                    near_limit = true;
                }
                if st.rx_alloc > c_limit {
                    return CaseResult::fail("oracle:c06:endpoints:client_receive_allocation_exceeded", format!("the client holds {} bytes of received packet data although its max_receive_alloc is {} (rounded {c_limit})", st.rx_alloc, c.client_alloc));
                }
            }
        };
    }

    // connect (and let the raw peer shake hands by hand)
    if let Some(ha) = c.hostile_alloc {
        let f = Frame::HandshakeSynFrame(HandshakeSynFrame { version: 3, nonce: hostile_nonce, max_receive_rate: 10_000_000, max_packet_size: 1, max_receive_alloc: ha.max(c.server_pkt) });
        w.send_raw(haddr, w.server_addr, &f.write(), 0);
    }
    for _ in 0..40 {
        w.advance(20_000);
        w.step_server();
        w.step_client(ci);
        if c.hostile_alloc.is_some() && !hostile_up {
            if let Some(n) = w.wire.iter().rev().find_map(|r| if r.to == haddr { if let Some(Frame::HandshakeSynAckFrame(f)) = Frame::read(&r.bytes) { Some(f.nonce) } else { None } } else { None }) {
                w.send_raw(haddr, w.server_addr, &Frame::HandshakeAckFrame(HandshakeAckFrame { nonce_ack: n }).write(), 0);
                hostile_up = true;
            }
        }
    }
    let connected = w.clients[ci].events.iter().any(|e| matches!(e.2, CEv::Connect)) && w.server_client_active(&caddr);
    if !connected {
        // refused by the documented configuration rule or still shaking hands: nothing to check
        return CaseResult::ok(false, classes);
    }
    if hostile_up && w.server_client_active(&haddr) {
        classes.push("raw_peer_connected");
    }

    let mut idx = [0u32; 2];
    for op in c.ops.iter() {
        match op {
            EOp::Tick { dt_us, server, client } => {
                w.advance(*dt_us as u64);
                if *server {
                    w.step_server();
                }
                if *client {
                    w.step_client(ci);
                }
                check_rx!();
            }
            EOp::Send { from_client, mode, ch, size, count } => {
                let d = if *from_client { 0 } else { 1 };
                let max = if *from_client { c.client_pkt } else { c.server_pkt } as usize;
                let size = (*size as usize).min(max).max(5.min(max));
                if size < 5 {
                    continue;
                }
                for _ in 0..*count {
                    let payload = world_payload(c.seed, d as u8 * 100, idx[d], size);
                    if *from_client {
                        w.client_send(ci, payload, *ch, *mode);
                    } else if !w.server_send(ci, payload, *ch, *mode) {
                        continue;
                    }
                    sent[d].push((idx[d], *mode % 4, size));
                    idx[d] += 1;
                }
            }
            EOp::Flood { last, count } => {
                if !(hostile_up && w.server_client_active(&haddr)) {
                    continue;
                }
                classes.push("raw_peer_flood");
                for _ in 0..*count {
                    let len = if *last == 0 { 100 } else { FRAG };
                    let dg = Datagram { sequence_id: hostile_pkt, channel_id: 0, window_parent_lead: 0, channel_parent_lead: 0, fragment_id: 0, fragment_id_last: *last, data: vec![0x42u8; len].into_boxed_slice() };
                    let f = Frame::DataFrame(DataFrame { sequence_id: hostile_frame, nonce: false, datagrams: vec![dg] });
                    hostile_frame = hostile_frame.wrapping_add(1);
                    hostile_pkt = (hostile_pkt + 1) & PKT_MASK;
                    w.send_raw(haddr, w.server_addr, &f.write(), 0);
                }
                w.step_server();
                check_rx!();
            }
        }
    }
    // settle on the (loss-free) links until both send buffers are empty
    let mut waited = 0u64;
    loop {
        let c_empty = w.clients[ci].client.as_ref().map_or(true, |cl| cl.send_buffer_size() == 0);
        let s_empty = w.server.as_ref().and_then(|s| s.client(&caddr).map(|rc| rc.borrow().send_buffer_size() == 0)).unwrap_or(true);
        if (c_empty && s_empty && waited > 1_000_000) || waited > 1_800_000_000 {
            break;
        }
        let dt = if waited < 10_000_000 { 10_000 } else { 100_000 };
        w.advance(dt);
        waited += dt;
        w.step_server();
        w.step_client(ci);
        check_rx!();
        if !w.server_client_active(&caddr) {
            break;
        }
    }
    let alive = w.server_client_active(&caddr) && w.clients[ci].client.as_ref().map_or(false, |cl| cl.is_active());
    // senders respect the limit their peer advertised (judged from the wire) ...
    for d in 0..2 {
        let (from, to, limit, nonce) = if d == 0 {
            (caddr, w.server_addr, s_limit as u64, w.wire.iter().find_map(|r| if r.from == caddr { if let Some(Frame::HandshakeSynFrame(f)) = Frame::read(&r.bytes) { Some(f.nonce) } else { None } } else { None }))
        } else {
            (w.server_addr, caddr, c_limit as u64, w.wire.iter().rev().find_map(|r| if r.to == caddr { if let Some(Frame::HandshakeSynAckFrame(f)) = Frame::read(&r.bytes) { Some(f.nonce) } else { None } } else { None }))
        };
        let Some(nonce) = nonce else { continue };
        let mut tr = crate::sim::wiremodel::OutstandingTracker::new(nonce);
        let mut evs: Vec<(u64, bool, usize)> = Vec::new();
        for (i, r) in w.wire.iter().enumerate() {
            if r.from == from && r.to == to && r.bytes.first() == Some(&10) {
                evs.push((r.seq, true, i));
            }
        }
        for (i, dl) in w.delivered.iter().enumerate() {
            if dl.from == to && dl.to == from && dl.bytes.first() == Some(&12) {
                evs.push((dl.seq, false, i));
            }
        }
        evs.sort();
        for (_, is_data, i) in evs {
            if is_data {
                if let Some(Frame::DataFrame(df)) = Frame::read(&w.wire[i].bytes) {
                    for dg in df.datagrams.iter() {
                        let (count, total) = tr.on_datagram(dg.sequence_id, dg.fragment_id_last, dg.data.len() as u32);
                        if total > limit || count > 4096 {
                            return CaseResult::fail(
                                "oracle:c06:endpoints:sender_exceeds_peer_allocation",
                                format!("{} has {total} fragment-rounded bytes in {count} packets outstanding although its peer advertised max_receive_alloc = {} (rounded {limit})", if d == 0 { "the client" } else { "the server" }, if d == 0 { c.server_alloc } else { c.client_alloc }),
                            );
                        }
                    }
                }
            } else if let Some(Frame::AckFrame(af)) = Frame::read(&w.delivered[i].bytes) {
                tr.on_ack_base(af.packet_window_base_id);
            }
        }
    }
    // ... and therefore nothing is ever discarded for lack of receive memory: every Reliable packet arrives
    if alive && waited <= 1_800_000_000 {
        for d in 0..2 {
            let got: std::collections::HashSet<u32> = if d == 0 {
                w.server_events.iter().filter_map(|(_, _, e)| if let SEv::Receive(a, data) = e { if *a == caddr { parse_world_payload(data).filter(|p| p.0 == 0).map(|p| p.1) } else { None } } else { None }).collect()
            } else {
                w.clients[ci].events.iter().filter_map(|(_, _, e)| if let CEv::Receive(data) = e { parse_world_payload(data).filter(|p| p.0 == 100).map(|p| p.1) } else { None }).collect()
            };
            for (i, mode, size) in sent[d].iter() {
                if *mode == 3 && !got.contains(i) {
                    return CaseResult::fail(
                        "oracle:c06:endpoints:reliable_packet_discarded",
                        format!("{} sent Reliable packet #{i} ({size} bytes, within the limits both sides advertised: server alloc {} / packet {}, client alloc {} / packet {}); both send buffers drained on a loss-free link but the packet was never delivered", if d == 0 { "the client" } else { "the server" }, c.server_alloc, c.server_pkt, c.client_alloc, c.client_pkt),
                    );
                }
            }
        }
        classes.push("endpoints_drained");
    }
    if c.server_alloc != c.client_alloc {
        classes.push("endpoints_asymmetric_limits");
    }
    let bulk = sent.iter().any(|v| v.iter().map(|s| s.2).sum::<usize>() > s_limit.min(c_limit));
    if bulk {
        classes.push("endpoints_sent_more_than_one_allocation");
    }
    classes.push("endpoints");
    CaseResult::ok(near_limit || bulk, classes)
}
