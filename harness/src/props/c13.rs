//! C13 — wire rate never exceeds the negotiated ceiling.

use crate::engine::*;
use crate::sim::gen::*;
use crate::sim::pair::*;
use proptest::prelude::*;

pub struct C13;

/// Checks the leaky-bucket bound over every interval of frames emitted by endpoint `s`.
/// `ceiling` in bytes per second. Returns the worst excess (bytes) or a violation.
pub fn check_rate_bound(trace: &Trace, s: usize, ceiling: f64) -> Result<f64, Violation> {
    let frames: Vec<(u64, u64, u64)> = trace.wire[s].iter().map(|w| (w.seq, w.t_us, w.bytes.len() as u64)).collect();
    if frames.is_empty() {
        return Ok(0.0);
    }
    // rtt_s as reported at each snapshot, in event order
    let snaps: Vec<(u64, f64)> = trace.stats[s].iter().map(|st| (st.seq, st.rtt_s.unwrap_or(0.0))).collect();
    let steps: Vec<u64> = trace.steps[s].iter().map(|(seq, _)| *seq).collect();
    // for each frame: index of the last snapshot before it (rtt "just before")
    let mut worst = f64::MIN;
    for i in 0..frames.len() {
        let (seq_i, t_i, _) = frames[i];
        // snapshot index just before frame i
        let mut sp = match snaps.binary_search_by(|p| p.0.cmp(&seq_i)) {
            Ok(k) => k,
            Err(k) => k.saturating_sub(1),
        };
        let mut rmax = snaps.get(sp).map_or(0.0, |p| if p.0 <= seq_i { p.1 } else { 0.0 });
        let mut stp = steps.partition_point(|x| *x < seq_i);
        let steps_before = stp;
        // the credit available at frame i was capped by the step() before it, which used the RTT
        // estimate as it stood before that step: include that snapshot as well
        if steps_before > 0 {
            let step_seq = steps[steps_before - 1];
            let k = snaps.partition_point(|p| p.0 < step_seq);
            if k > 0 {
                rmax = rmax.max(snaps[k - 1].1);
            }
        }
        let mut sum = 0u64;
        for j in i..frames.len() {
            let (seq_j, t_j, n_j) = frames[j];
            sum += n_j;
            while sp + 1 < snaps.len() && snaps[sp + 1].0 <= seq_j {
                sp += 1;
                rmax = rmax.max(snaps[sp].1);
            }
            while stp < steps.len() && steps[stp] <= seq_j {
                stp += 1;
            }
            let nsteps = (stp - steps_before + 1) as f64;
            let dt = (t_j - t_i) as f64 / 1e6;
            let bound = ceiling * (dt + rmax) + 1472.0 + nsteps;
            let excess = sum as f64 - bound;
            if excess > worst {
                worst = excess;
            }
            if excess > 0.0 {
                // How long before frame i did this endpoint last refill its credit (step())? The
                // flush at the start of a step spends credit before the refill for the elapsed gap
                // is applied, so the mechanism guarantees the bound only with that gap added.
                let t_prev_step = trace.steps[s][..steps_before].last().map_or(0, |p| p.1);
                let gap = (t_i.saturating_sub(t_prev_step)) as f64 / 1e6;
                let key = if excess <= ceiling * gap + 1.0 { "oracle:c13:rate_exceeded:within_preceding_step_gap" } else { "oracle:c13:rate_exceeded:beyond_step_gap" };
                if excess <= ceiling * gap + 1.0 && tolerate_known(key) {
                    continue;
                }
                return Err(Violation::new(
                    key,
                    format!(
                        "endpoint {s}: frames {i}..={j} ({} frames) carry {sum} bytes between t={t_i} us and t={t_j} us; ceiling {ceiling} B/s allows {:.0} (interval {dt:.6} s + largest RTT estimate {rmax:.6} s, + one frame + {nsteps} rounding bytes): excess {:.0} bytes; the endpoint's previous step() was {gap:.6} s before the first of these frames",
                        j - i + 1,
                        bound,
                        excess
                    ),
                ));
            }
        }
    }
    Ok(worst)
}

impl Check for C13 {
    type Case = PairScenario;

    fn id(&self) -> &'static str {
        "C13"
    }

    fn strategy(&self, tier: Tier) -> BoxedStrategy<PairScenario> {
        let p = GenParams { max_ticks: tier.pick(200, 500), max_sends: 8, max_frags: tier.pick(6, 20), low_bandwidth: true, tail: false, tight_alloc: false, small_windows: false, modes: [1, 2, 2, 3], ..GenParams::default() };
        let q = GenParams { small_windows: true, tight_alloc: true, ..p.clone() };
        // acknowledgement backlog shape: endpoint 0 has a tight ceiling, owes many ack groups (endpoint 1 sends
        // a lot, its frames suffer loss bursts so that the received ids are sparse) and flushes often
        let r = GenParams { max_sends: 14, max_frags: 3, modes: [1, 3, 1, 2], ..p.clone() };
        let backlog = (scenario_strategy(&r), 1472u32..6000, proptest::collection::vec((0usize..400, 33usize..120), 0..4)).prop_map(|(mut sc, bw, bursts)| {
            sc.dirs[0].bw_limit = bw;
            sc.dirs[1].bw_limit = sc.dirs[1].bw_limit.max(2_000_000);
            for (at, len) in bursts {
                let f = &mut sc.links[1].fates;
                if f.len() < at + len {
                    f.resize(at + len, Fate::Deliver(0));
                }
                for k in at..at + len {
                    f[k] = Fate::Drop;
                }
            }
            for t in sc.ticks.iter_mut() {
                t.acts[0].flushes = t.acts[0].flushes.max(2);
                t.dt_us = t.dt_us.min(30_000);
            }
            sc.normalize();
            sc
        });
        prop_oneof![3 => scenario_strategy(&p), 1 => scenario_strategy(&q), 2 => backlog].boxed()
    }

    fn cases(&self, tier: Tier) -> u64 {
        tier.pick(24_000, 800_000)
    }

    fn rule(&self) -> String {
        "case = SimPair scenario with bandwidth ceilings log-spread over [1472 B/s, 20 MB/s] (and 2^32-1) on either side, backlogs from nothing to hundreds of kB, cadences with several flush() per step, dt = 0 and long pauses, loss / duplication / delay patterns that walk the rate controller through slow start, equation mode and no-feedback expiries. Oracle: for every pair of emitted frames i <= j of an endpoint, bytes(i..=j) <= C * ((t_j - t_i) + max rtt_s() reported in or just before the interval) + 1472 + one rounding byte per step in the interval. Non-trivial = the sender was credit-limited in at least one snapshot (negative credit with data queued). Distinct = distinct serialised scenario.".into()
    }

    fn assumptions(&self) -> Vec<String> {
        vec![
            "C is the HalfConnection's configured ceiling; that Client/Server configure it as min(local max_send_rate, peer max_receive_rate) is checked with the handshake (C07)".into(),
            "\"current RTT estimate\" is read leniently as the largest rtt_s() observed in (or just before) the interval, which is what the leaky bucket actually guarantees".into(),
        ]
    }

    fn run(&self, sc: &PairScenario) -> CaseResult {
        let mut sc = sc.clone();
        sc.normalize();
        let trace = SimPair::run(&sc);
        let mut classes: Vec<&'static str> = Vec::new();
        let mut limited = false;
        for s in 0..2 {
            if trace.wire[s].len() > 4000 {
                classes.push("skipped_oversize_history");
                continue;
            }
            match check_rate_bound(&trace, s, sc.dirs[s].bw_limit as f64) {
                Ok(w) => {
                    if w > -1472.0 {
                        classes.push("bound_within_one_frame");
                    }
                }
                Err(v) => return CaseResult { violation: Some(v), nontrivial: true, classes },
            }
            if trace.stats[s].iter().any(|st| st.v.flush_alloc < 0 && (st.v.pending_queue_len > 0 || st.v.send_queue_len > 0 || st.v.resend_queue_len > 0)) {
                limited = true;
            }
            if trace.stats[s].iter().any(|st| (st.v.send_rate - sc.dirs[s].bw_limit as f64).abs() < 0.5) {
                classes.push("rate_at_ceiling");
            }
        }
        if limited {
            classes.push("credit_limited");
        }
        if trace.stats[0].iter().chain(trace.stats[1].iter()).any(|st| st.v.ack_queue_len >= 2) {
            classes.push("two_or_more_ack_groups_owed");
        }
        CaseResult::ok(limited, classes)
    }
}
