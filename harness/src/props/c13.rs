//! C13 — wire rate never exceeds the negotiated ceiling.

use crate::engine::*;
use crate::sim::gen::*;
use crate::sim::pair::*;
use proptest::prelude::*;

pub struct C13;

/// Endpoints variant: a real Client and Server with independently generated rate settings and backlogs in both
/// directions; the ceiling of each direction is min(sender's max_send_rate, receiver's max_receive_rate).
#[derive(Clone, Debug, serde::Serialize, serde::Deserialize)]
pub struct EpRate {
    pub seed: u64,
    /// (max_send_rate, max_receive_rate) of the server / of the client
    pub server_rates: (u32, u32),
    pub client_rates: (u32, u32),
    pub latency_us: [u32; 2],
    pub period_us: u32,
    pub flushes: u8,
    /// (tick, from_client, size, count)
    pub sends: Vec<(u16, bool, u16, u8)>,
    pub ticks: u16,
}

#[derive(Clone, Debug, serde::Serialize, serde::Deserialize)]
#[serde(untagged)]
pub enum Case {
    Pair(PairScenario),
    Endpoints { endpoints: EpRate },
    /// a Pair scenario during which one endpoint is handed `per_tick` copies of a keepalive sync frame after
    /// each of `ticks` ticks starting at `from_tick` (every sync frame is owed a reply)
    SyncFlood { sc: PairScenario, ep: u8, from_tick: u16, ticks: u16, per_tick: u8 },
    /// after a Pair scenario one endpoint is handed `frames` empty data frames whose ids lie `spacing` apart (ack
    /// groups span 32 ids: hundreds of groups are owed at once, more than one ack frame holds), then it flushes
    /// `flushes` times at one instant and keeps stepping
    AckFlood { sc: PairScenario, ep: u8, frames: u16, spacing: u8, flushes: u8 },
}

fn run_endpoints(c: &EpRate) -> CaseResult {
    use crate::sim::world::*;
    let mut classes: Vec<&'static str> = vec!["endpoints"];
    let scfg = ServerCfg { ep: EpCfg { max_send_rate: c.server_rates.0.max(1472), max_receive_rate: c.server_rates.1.max(1472), ..EpCfg::default() }, ..ServerCfg::default() };
    let ccfg = EpCfg { max_send_rate: c.client_rates.0.max(1472), max_receive_rate: c.client_rates.1.max(1472), ..EpCfg::default() };
    let mut w = World::new(c.seed, &scfg);
    let ci = w.add_client(&ccfg, LinkState { latency_us: c.latency_us, ..LinkState::default() });
    let caddr = w.clients[ci].addr;
    let period = c.period_us.max(1000) as u64;
    let mut rmax = [0.0f64; 2]; // largest RTT estimate seen: [client as sender, server as sender]
    let mut idx = [0u32; 2];
    let mut backlog = [0usize; 2];
    for tick in 0..c.ticks {
        w.advance(period);
        for (at, from_client, size, count) in c.sends.iter() {
            if crate::engine::pick_index(*at, c.ticks as usize) == tick as usize {
                for _ in 0..*count {
                    let d = if *from_client { 0 } else { 1 };
                    let payload = world_payload(c.seed, d as u8 * 100, idx[d], (*size as usize).max(5));
                    idx[d] += 1;
                    backlog[d] += payload.len();
                    if *from_client {
                        w.client_send(ci, payload, 0, 3);
                    } else {
                        w.server_send(ci, payload, 0, 3);
                    }
                }
            }
        }
        w.step_server();
        w.step_client(ci);
        for _ in 0..c.flushes {
            w.flush_server();
            w.flush_client(ci);
        }
        if let Some(r) = w.clients[ci].client.as_ref().and_then(|cl| cl.rtt_s()) {
            rmax[0] = rmax[0].max(r);
        }
        if let Some(r) = w.server.as_ref().and_then(|s| s.client(&caddr).and_then(|rc| rc.borrow().rtt_s())) {
            rmax[1] = rmax[1].max(r);
        }
    }
    let gap = period as f64 / 1e6;
    let mut nontrivial = false;
    for d in 0..2 {
        let (from, ceiling) = if d == 0 { (caddr, (ccfg.max_send_rate as f64).min(scfg.ep.max_receive_rate as f64)) } else { (w.server_addr, (scfg.ep.max_send_rate as f64).min(ccfg.max_receive_rate as f64)) };
        let frames: Vec<(u64, u64)> = w.wire.iter().filter(|r| r.from == from && r.bytes.first().map_or(false, |b| *b >= 10)).map(|r| (r.t_us, r.bytes.len() as u64)).collect();
        if frames.len() > 6000 {
            classes.push("skipped_oversize_history");
            continue;
        }
        let total: u64 = frames.iter().map(|f| f.1).sum();
        if backlog[d] as f64 > 2.0 * ceiling * (rmax[d] + 2.0 * gap) + 4.0 * 1472.0 && total as f64 > ceiling * (rmax[d] + 2.0 * gap) + 2.0 * 1472.0 {
            nontrivial = true;
            classes.push("endpoints_backlog_beyond_burst_allowance");
        }
        for i in 0..frames.len() {
            let mut sum = 0u64;
            for j in i..frames.len() {
                sum += frames[j].1;
                let dt = (frames[j].0 - frames[i].0) as f64 / 1e6;
                // the bound of the statement, widened by two step gaps (credit is refilled per step; the known finding
                // D21 spends up to one gap's worth early) and one more frame
                let bound = ceiling * (dt + rmax[d] + 2.0 * gap) + 2.0 * 1472.0;
                if sum as f64 > bound {
                    return CaseResult::fail(
                        "oracle:c13:endpoints:negotiated_ceiling_exceeded",
                        format!(
                            "{} put {sum} bytes on the wire within {dt:.3} s (from t={} us); min(its max_send_rate, the peer's max_receive_rate) = {ceiling} B/s allows {bound:.0} (largest RTT estimate {:.3} s, step gap {gap:.3} s); server rates (send, receive) {:?}, client rates {:?}",
                            if d == 0 { "the client" } else { "the server" }, frames[i].0, rmax[d], c.server_rates, c.client_rates
                        ),
                    );
                }
            }
        }
    }
    if c.server_rates.1 < c.client_rates.0.min(c.client_rates.1) || c.client_rates.1 < c.server_rates.0.min(c.server_rates.1) {
        classes.push("endpoints_peer_receive_rate_is_the_binding_limit");
    }
    CaseResult::ok(nontrivial, classes)
}

fn run_ack_flood(sc: &PairScenario, ep: usize, frames: u16, spacing: u8, flushes: u8) -> CaseResult {
    use uflow::verif::Serialize as _;
    let mut sc = sc.clone();
    sc.normalize();
    let mut classes: Vec<&'static str> = vec!["ack_flood"];
    let mut sim = SimPair::new(&sc);
    for t in sc.ticks.iter() {
        sim.run_tick(t);
    }
    // quiet stepping: the bucket fills
    let idle = EpAct { step: true, sends: Vec::new(), flushes: 1 };
    for _ in 0..100 {
        sim.run_tick(&Tick { dt_us: 20_000, acts: [idle.clone(), idle.clone()] });
    }
    // the next frame id the endpoint expects from its peer, judged from what the peer has put on the wire
    let mut next = sc.dirs[1 - ep].frm_base;
    for w in sim.trace.wire[1 - ep].iter() {
        if let Some(uflow::verif::Frame::DataFrame(df)) = uflow::verif::Frame::read(&w.bytes) {
            if df.sequence_id.wrapping_sub(next) < 0x8000_0000 {
                next = df.sequence_id.wrapping_add(1);
            }
        }
    }
    for j in 0..frames as u32 {
        let f = uflow::verif::Frame::DataFrame(uflow::verif::DataFrame { sequence_id: next.wrapping_add(j * spacing.max(32) as u32), nonce: j % 2 == 0, datagrams: Vec::new() });
        sim.handle_bytes(ep, &f.write());
    }
    let mut burst = [idle.clone(), idle.clone()];
    burst[ep].flushes = flushes.max(1);
    sim.run_tick(&Tick { dt_us: 0, acts: burst.clone() });
    sim.run_tick(&Tick { dt_us: 0, acts: burst });
    for _ in 0..60 {
        sim.run_tick(&Tick { dt_us: 10_000, acts: [idle.clone(), idle.clone()] });
    }
    let owed = sim.trace.stats[ep].iter().map(|st| st.v.ack_queue_len).max().unwrap_or(0);
    if owed > 161 {
        classes.push("more_ack_groups_owed_than_one_frame_holds");
    }
    let trace = sim.finish();
    if trace.wire[ep].len() <= 4000 {
        if let Err(v) = check_rate_bound(&trace, ep, sc.dirs[ep].bw_limit as f64) {
            return CaseResult { violation: Some(v), nontrivial: true, classes };
        }
    }
    CaseResult::ok(owed > 161, classes)
}

/// Checks the leaky-bucket bound over every interval of frames emitted by endpoint `s`.
/// `ceiling` in bytes per second. Returns the worst excess (bytes) or a violation.
pub fn check_rate_bound(trace: &Trace, s: usize, ceiling: f64) -> Result<f64, Violation> {
    let frames: Vec<(u64, u64, u64)> = trace.wire[s].iter().map(|w| (w.seq, w.t_us, w.bytes.len() as u64)).collect();
    if frames.is_empty() {
        return Ok(0.0);
    }
    // rtt_s as reported at each snapshot, in event order
    let snaps: Vec<(u64, f64)> = trace.stats[s].iter().map(|st| (st.seq, st.rtt_s.unwrap_or(0.0))).collect();
    let steps: Vec<u64> = trace.steps[s].iter().map(|(seq, _)| *seq).collect();
    // for each frame: index of the last snapshot before it (rtt "just before")
    let mut worst = f64::MIN;
    for i in 0..frames.len() {
        let (seq_i, t_i, _) = frames[i];
        // snapshot index just before frame i
        let mut sp = match snaps.binary_search_by(|p| p.0.cmp(&seq_i)) {
            Ok(k) => k,
            Err(k) => k.saturating_sub(1),
        };
        let mut rmax = snaps.get(sp).map_or(0.0, |p| if p.0 <= seq_i { p.1 } else { 0.0 });
        let mut stp = steps.partition_point(|x| *x < seq_i);
        let steps_before = stp;
        // the credit available at frame i was capped by the step() before it, which used the RTT
        // estimate as it stood before that step: include that snapshot as well
        if steps_before > 0 {
            let step_seq = steps[steps_before - 1];
            let k = snaps.partition_point(|p| p.0 < step_seq);
            if k > 0 {
                rmax = rmax.max(snaps[k - 1].1);
            }
        }
        let mut sum = 0u64;
        for j in i..frames.len() {
            let (seq_j, t_j, n_j) = frames[j];
            sum += n_j;
            while sp + 1 < snaps.len() && snaps[sp + 1].0 <= seq_j {
                sp += 1;
                rmax = rmax.max(snaps[sp].1);
            }
            while stp < steps.len() && steps[stp] <= seq_j {
                stp += 1;
            }
            let nsteps = (stp - steps_before + 1) as f64;
            let dt = (t_j - t_i) as f64 / 1e6;
            let bound = ceiling * (dt + rmax) + 1472.0 + nsteps;
            let excess = sum as f64 - bound;
            if excess > worst {
                worst = excess;
            }
            if excess > 0.0 {
                // How long before frame i did this endpoint last refill its credit (step())? The
                // flush at the start of a step spends credit before the refill for the elapsed gap
                // is applied, so the mechanism guarantees the bound only with that gap added.
                let t_prev_step = trace.steps[s][..steps_before].last().map_or(0, |p| p.1);
                let gap = (t_i.saturating_sub(t_prev_step)) as f64 / 1e6;
                let key = if excess <= ceiling * gap + 1.0 { "oracle:c13:rate_exceeded:within_preceding_step_gap" } else { "oracle:c13:rate_exceeded:beyond_step_gap" };
                if excess <= ceiling * gap + 1.0 && tolerate_known(key) {
                    continue;
                }
                return Err(Violation::new(
                    key,
                    format!(
                        "endpoint {s}: frames {i}..={j} ({} frames) carry {sum} bytes between t={t_i} us and t={t_j} us; ceiling {ceiling} B/s allows {:.0} (interval {dt:.6} s + largest RTT estimate {rmax:.6} s, + one frame + {nsteps} rounding bytes): excess {:.0} bytes; the endpoint's previous step() was {gap:.6} s before the first of these frames",
                        j - i + 1,
                        bound,
                        excess
                    ),
                ));
            }
        }
    }
    Ok(worst)
}

fn pair_strategy(tier: Tier) -> BoxedStrategy<PairScenario> {
        let p = GenParams { max_ticks: tier.pick(200, 500), max_sends: 8, max_frags: tier.pick(6, 20), low_bandwidth: true, tail: false, tight_alloc: false, small_windows: false, modes: [1, 2, 2, 3], ..GenParams::default() };
        let q = GenParams { small_windows: true, tight_alloc: true, ..p.clone() };
        // acknowledgement backlog shape: endpoint 0 has a tight ceiling, owes many ack groups (endpoint 1 sends
        // a lot, its frames suffer loss bursts so that the received ids are sparse) and flushes often
        let r = GenParams { max_sends: 14, max_frags: 3, modes: [1, 3, 1, 2], ..p.clone() };
        let backlog = (scenario_strategy(&r), 1472u32..6000, proptest::collection::vec((0usize..400, 33usize..120), 0..4)).prop_map(|(mut sc, bw, bursts)| {
            sc.dirs[0].bw_limit = bw;
            sc.dirs[1].bw_limit = sc.dirs[1].bw_limit.max(2_000_000);
            for (at, len) in bursts {
                let f = &mut sc.links[1].fates;
                if f.len() < at + len {
                    f.resize(at + len, Fate::Deliver(0));
                }
                for k in at..at + len {
                    f[k] = Fate::Drop;
                }
            }
            for t in sc.ticks.iter_mut() {
                t.acts[0].flushes = t.acts[0].flushes.max(2);
                t.dt_us = t.dt_us.min(30_000);
            }
            sc.normalize();
            sc
        });
        prop_oneof![3 => scenario_strategy(&p), 1 => scenario_strategy(&q), 2 => backlog].boxed()
}

impl Check for C13 {
    type Case = Case;

    fn id(&self) -> &'static str {
        "C13"
    }

    fn strategy(&self, tier: Tier) -> BoxedStrategy<Case> {
        let rate = || prop_oneof![3 => 1_472u32..60_000, 2 => 60_000u32..2_000_000, 1 => Just(2_000_000u32), 1 => Just(u32::MAX)];
        let endpoints = (
            any::<u64>(),
            (rate(), rate()),
            (rate(), rate()),
            (prop_oneof![Just(0u32), 0u32..50_000], prop_oneof![Just(0u32), 0u32..50_000]),
            prop_oneof![Just(1_000u32), Just(5_000u32), Just(16_000u32), Just(50_000u32)],
            0u8..3,
            proptest::collection::vec((any::<u16>(), any::<bool>(), prop_oneof![5u16..1500, 1500u16..20_000], 1u8..40), 1..12),
            tier.pick(100u16, 300u16)..tier.pick(600u16, 2000u16),
        )
            .prop_map(|(seed, server_rates, client_rates, (l0, l1), period_us, flushes, sends, ticks)| Case::Endpoints { endpoints: EpRate { seed, server_rates, client_rates, latency_us: [l0, l1], period_us, flushes, sends, ticks } });
        // sync flood: tight ceiling, fast cadence, a backlog that keeps the bucket in debt
        let p = GenParams { max_ticks: tier.pick(300, 800), max_sends: 6, max_frags: 3, low_bandwidth: true, tail: false, modes: [1, 2, 2, 3], ..GenParams::default() };
        let flood = (scenario_strategy(&p), 0u8..2, any::<u16>(), 50u16..600, 1u8..4, 1472u32..6000, prop_oneof![Just(1_000u64), Just(2_000u64), Just(5_000u64)]).prop_map(|(mut sc, ep, from_tick, ticks, per_tick, bw, dt)| {
            sc.dirs[ep as usize % 2].bw_limit = bw;
            for t in sc.ticks.iter_mut() {
                t.dt_us = t.dt_us.min(dt);
                for a in t.acts.iter_mut() {
                    a.step = true;
                }
            }
            sc.normalize();
            Case::SyncFlood { sc, ep, from_tick, ticks, per_tick }
        });
        let ack_flood = (pair_strategy(tier), 0u8..2, prop_oneof![170u16..400, 400u16..1500], prop_oneof![Just(32u8), Just(33u8), 32u8..64], 1u8..6).prop_map(|(mut sc, ep, frames, spacing, flushes)| {
            // (a short history first, so that an RTT estimate exists and the bucket can be full)
            sc.ticks.truncate(40);
            for t in sc.ticks.iter_mut() {
                for a in t.acts.iter_mut() {
                    a.step = true;
                }
            }
            sc.normalize();
            Case::AckFlood { sc, ep, frames, spacing, flushes }
        });
        prop_oneof![20 => pair_strategy(tier).prop_map(Case::Pair), 4 => endpoints, 2 => flood, 1 => ack_flood].boxed()
    }

    fn cases(&self, tier: Tier) -> u64 {
        tier.pick(48_000, 800_000)
    }

    fn rule(&self) -> String {
        "case kinds. AckFlood (1 in 27): after a short Pair history and two quiet seconds one endpoint is handed 170-1500 empty data frames whose ids lie 32-63 apart (every one of them is owed an ack group of its own: more than one ack frame holds), flushes one to five times at that instant and keeps stepping; the same bound applies to what it emits. Endpoints (1 in 6): a real Client and Server with independently generated max_send_rate / max_receive_rate (1472 B/s .. 2 MB/s, 2^32-1), Reliable backlogs in both directions, 0-2 extra flushes per step; for every pair of frames of a sender, bytes <= min(its max_send_rate, the PEER's max_receive_rate) * (dt + largest RTT estimate + 2 step gaps) + 2 * 1472. SyncFlood (1 in 13): a Pair scenario with a ceiling of 1472-6000 B/s and steps 1-5 ms apart during which one endpoint is handed 1-3 keepalive sync frames after each of 50-600 consecutive ticks (each is owed a reply). Pair: SimPair scenario with bandwidth ceilings log-spread over [1472 B/s, 20 MB/s] (and 2^32-1) on either side, backlogs from nothing to hundreds of kB, cadences with several flush() per step, dt = 0 and long pauses, loss / duplication / delay patterns that walk the rate controller through slow start, equation mode and no-feedback expiries. Oracle: for every pair of emitted frames i <= j of an endpoint, bytes(i..=j) <= C * ((t_j - t_i) + max rtt_s() reported in or just before the interval) + 1472 + one rounding byte per step in the interval. Non-trivial = the sender was credit-limited in at least one snapshot (negative credit with data queued). Distinct = distinct serialised scenario.".into()
    }

    fn assumptions(&self) -> Vec<String> {
        vec![
            "in the Pair cases C is the HalfConnection's configured ceiling; that Client and Server configure it as min(local max_send_rate, peer max_receive_rate) is what the Endpoints cases check (with a bound two step gaps and one frame wider, which the per-step refill and the known finding D21 can use up)".into(),
            "\"current RTT estimate\" is read leniently as the largest rtt_s() observed in (or just before) the interval, which is what the leaky bucket actually guarantees".into(),
        ]
    }

    fn run(&self, case: &Case) -> CaseResult {
        let (sc, flood) = match case {
            Case::Pair(sc) => (sc, None),
            Case::Endpoints { endpoints } => return run_endpoints(endpoints),
            Case::SyncFlood { sc, ep, from_tick, ticks, per_tick } => (sc, Some((*ep as usize % 2, *from_tick, *ticks, *per_tick))),
            Case::AckFlood { sc, ep, frames, spacing, flushes } => return run_ack_flood(sc, *ep as usize % 2, *frames, *spacing, *flushes),
        };
        let mut sc = sc.clone();
        sc.normalize();
        let mut classes: Vec<&'static str> = Vec::new();
        let trace = if let Some((ep, from_tick, ticks, per_tick)) = flood {
            use uflow::verif::Serialize as _;
            let sync = uflow::verif::Frame::SyncFrame(uflow::verif::SyncFrame { next_frame_id: None, next_packet_id: None }).write();
            let first = crate::engine::pick_index(from_tick, sc.ticks.len().max(1));
            let mut sim = SimPair::new(&sc);
            for (k, t) in sc.ticks.iter().enumerate() {
                sim.run_tick(t);
                if k >= first && k < first + ticks as usize {
                    for _ in 0..per_tick {
                        sim.handle_bytes(ep, &sync);
                    }
                }
            }
            classes.push("sync_flood");
            sim.finish()
        } else {
            SimPair::run(&sc)
        };
        let mut limited = false;
        for s in 0..2 {
            if trace.wire[s].len() > 4000 {
                classes.push("skipped_oversize_history");
                continue;
            }
            match check_rate_bound(&trace, s, sc.dirs[s].bw_limit as f64) {
                Ok(w) => {
                    if w > -1472.0 {
                        classes.push("bound_within_one_frame");
                    }
                }
                Err(v) => return CaseResult { violation: Some(v), nontrivial: true, classes },
            }
            if trace.stats[s].iter().any(|st| st.v.flush_alloc < 0 && (st.v.pending_queue_len > 0 || st.v.send_queue_len > 0 || st.v.resend_queue_len > 0)) {
                limited = true;
            }
            if trace.stats[s].iter().any(|st| (st.v.send_rate - sc.dirs[s].bw_limit as f64).abs() < 0.5) {
                classes.push("rate_at_ceiling");
            }
        }
        if limited {
            classes.push("credit_limited");
        }
        if trace.stats[0].iter().chain(trace.stats[1].iter()).any(|st| st.v.ack_queue_len >= 2) {
            classes.push("two_or_more_ack_groups_owed");
        }
        CaseResult::ok(limited, classes)
    }
}
