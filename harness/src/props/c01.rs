//! C01 — per-channel delivery is in order, at most once, and byte-exact.

use crate::engine::*;
use crate::sim::gen::*;
use crate::sim::ledger::*;
use crate::sim::pair::*;
use proptest::prelude::*;

pub struct C01;

/// Long-haul shape: one connection carries more than 2^20 packets, so that the 20-bit packet ids come round once,
/// and network duplicates of frames from an early phase (sent while acknowledgements were lost, hence including
/// sync frames that name ids) arrive only afterwards - at a moment at which the ids they carry are current again.
#[derive(Clone, Debug, serde::Serialize, serde::Deserialize)]
pub struct LongHaul {
    pub seed: u64,
    pub pkt_base: u32,
    pub frm_base: u32,
    pub latency_us: u32,
    /// how long acknowledgements are lost early on (the frames of that phase are the ones duplicated), ms
    pub hold_ms: u16,
    /// the late duplicates carry packets this far ahead of the receiver's window base at the time they arrive
    pub delta: u16,
    /// percentage of Reliable packets (the rest is Unreliable), channels used
    pub reliable_pct: u8,
    pub channels: u8,
    /// variant: a network duplicate of an ACK frame of the warm-up phase reaches the sender when the packet ids have
    /// come round once and the packet window base it names is `delta` (1..1000) ahead of the sender's window base
    /// again - while the packets in between have just been lost in transit (ack frames carry no sequence number)
    #[serde(default)]
    pub stale_ack: bool,
}

#[derive(Clone, Debug, serde::Serialize, serde::Deserialize)]
#[serde(untagged)]
pub enum Case {
    Pair(PairScenario),
    LongHaul { long_haul: LongHaul },
    /// a real Client and Server; packets submitted through the public API, also while the handshake is pending
    Endpoints { endpoints: crate::sim::epstream::EpStream },
}

fn run_endpoints(c: &crate::sim::epstream::EpStream) -> CaseResult {
    let out = crate::sim::epstream::run_epstream(c);
    let mut classes: Vec<&'static str> = vec!["endpoints"];
    for d in 0..2 {
        if let Err(v) = crate::sim::epstream::check_order(c, &out, d) {
            return CaseResult { violation: Some(v), nontrivial: true, classes };
        }
    }
    if c.pre_sends.len() >= 2 && out.connected {
        classes.push("endpoints_packets_submitted_before_the_connection_was_established");
    }
    let n = out.delivs[0].len() + out.delivs[1].len();
    CaseResult::ok(out.faulted > 0 && n >= 2, classes)
}

/// What the stale-ack history left behind (shared with C02).
pub struct StaleAckRun {
    pub sc: PairScenario,
    pub trace: Trace,
    pub classes: Vec<&'static str>,
    /// the history ran to the end (warm-up acknowledged, ids came round, burst lost, old ack delivered)
    pub complete: bool,
    pub end_send_buffer: usize,
    pub end_pending: bool,
    pub end_window: (u32, u32),
}

fn run_stale_ack(c: &LongHaul) -> CaseResult {
    let r = stale_ack_history(c);
    for s in 0..2 {
        if let Err(v) = match_direction(&r.sc, &r.trace, s) {
            return CaseResult { violation: Some(v), nontrivial: true, classes: r.classes };
        }
    }
    CaseResult::ok(r.complete, r.classes)
}

pub fn stale_ack_history(c: &LongHaul) -> StaleAckRun {
    use uflow::verif::Serialize as _;
    let mut classes: Vec<&'static str> = vec!["long_haul", "long_haul_stale_ack"];
    let dir = DirCfg { pkt_win_log2: 12, frm_win_log2: 12, pkt_base: c.pkt_base & PKT_MASK, frm_base: c.frm_base, alloc_limit: 4_000_000, bw_limit: 400_000_000 };
    let sc = PairScenario {
        dirs: [dir.clone(), dir],
        keepalive_ms: None,
        seed: c.seed,
        zero_ch: 0,
        zero_mode: 1,
        links: [LinkCfg { latency_us: c.latency_us.min(20_000), fates: vec![] }, LinkCfg { latency_us: c.latency_us.min(20_000), fates: vec![] }],
        ticks: vec![],
        tail: None,
        premature_acks: Vec::new(),
    };
    let mut sim = SimPair::new(&sc);
    sim.record_stats = false;
    let channels = c.channels.clamp(1, 8);
    let mut submitted: u32 = 0;
    let force_reliable = std::cell::Cell::new(false);
    let tick = |sim: &mut SimPair, dt_us: u64, count: u32, submitted: &mut u32| {
        let mut sends = Vec::with_capacity(count as usize);
        for k in 0..count {
            let i = *submitted;
            let mode = if (force_reliable.get() && k < 3) || (i.wrapping_mul(2654435761) >> 8) % 100 < c.reliable_pct as u32 { 3 } else { 1 };
            sends.push(SendSpec { ch: (i % channels as u32) as u8, mode, size: 8 });
            *submitted += 1;
        }
        let t = Tick { dt_us, acts: [EpAct { step: true, sends, flushes: 1 }, EpAct { step: true, sends: vec![], flushes: 1 }] };
        sim.run_tick(&t);
    };
    let drain = |sim: &mut SimPair, submitted: &mut u32, quiet: u32| {
        let mut idle = 0;
        let mut last = (sim.trace.delivs[1].len(), sim.hc[0].send_buffer_size());
        let mut guard = 0;
        while idle < quiet && guard < 100_000 {
            guard += 1;
            tick(sim, 5_000, 0, submitted);
            let now = (sim.trace.delivs[1].len(), sim.hc[0].send_buffer_size());
            if now != last {
                last = now;
                idle = 0;
            } else {
                idle += 1;
            }
        }
    };
    // A: warm-up, then everything is delivered and acknowledged; the last ack frame names the id after the warm-up
    for _ in 0..60 {
        tick(&mut sim, 5_000, 20, &mut submitted);
    }
    drain(&mut sim, &mut submitted, 200);
    let ack_copy: Option<(Box<[u8]>, u32)> = sim.trace.wire[1].iter().rev().find_map(|w| match uflow::verif::Frame::read(&w.bytes) {
        Some(uflow::verif::Frame::AckFrame(a)) => Some((w.bytes.clone(), a.packet_window_base_id)),
        _ => None,
    });
    let incomplete = |sim: SimPair, sc: &PairScenario, classes: Vec<&'static str>| -> StaleAckRun {
        let (b, p, w) = (sim.hc[0].send_buffer_size(), sim.hc[0].is_send_pending(), sim.hc[0].verif_packet_window());
        StaleAckRun { sc: sc.clone(), trace: sim.finish(), classes, complete: false, end_send_buffer: b, end_pending: p, end_window: w }
    };
    let Some((ack_bytes, x)) = ack_copy else { return incomplete(sim, &sc, classes) };
    if x != (c.pkt_base.wrapping_add(submitted)) & PKT_MASK || sim.hc[0].send_buffer_size() != 0 {
        // (the warm-up did not end fully acknowledged: nothing to learn from this case)
        classes.push("long_haul_stale_ack_warmup_incomplete");
        return incomplete(sim, &sc, classes);
    }
    // C: carry on until the ids have come round and the next id lies m before the id the old ack names
    let m = 1 + (c.delta as u32 % 1000);
    let target = (1u32 << 20) + submitted - m;
    let mut guard = 0;
    while submitted < target && guard < 200_000 {
        guard += 1;
        let room = sim.hc[0].send_buffer_size() < 300_000;
        let n = if room { (target - submitted).min(1000) } else { 0 };
        tick(&mut sim, 2_000, n, &mut submitted);
    }
    drain(&mut sim, &mut submitted, 200);
    if sim.hc[0].send_buffer_size() != 0 {
        classes.push("long_haul_stale_ack_not_drained");
        return incomplete(sim, &sc, classes);
    }
    classes.push("long_haul_packet_ids_came_round");
    // D: a burst whose data frames are all lost in transit (the first packets of it are Reliable) ...
    sim.blackout[0] = (sim.now_us + 150_000, 1);
    force_reliable.set(true);
    tick(&mut sim, 5_000, m + 40, &mut submitted);
    force_reliable.set(false);
    for _ in 0..10 {
        tick(&mut sim, 5_000, 0, &mut submitted);
    }
    // E: ... and the year-old duplicate of the ack frame arrives: its packet window base lies inside the sender's window
    let base_before = sim.hc[0].verif_packet_window().0;
    sim.handle_bytes(0, &ack_bytes);
    if sim.hc[0].verif_packet_window().0 != base_before {
        classes.push("long_haul_stale_ack_moved_the_sender_window");
    }
    if std::env::var_os("VERIF_DEBUG").is_some() {
        eprintln!("stale ack names {x}; sender window before {:?} after {:?}; delivered so far {} of {submitted}", base_before, sim.hc[0].verif_packet_window(), sim.trace.delivs[1].len());
    }
    while sim.now_us < sim.blackout[0].0 {
        tick(&mut sim, 5_000, 0, &mut submitted);
    }
    // F: traffic goes on, well past one window
    for _ in 0..60 {
        tick(&mut sim, 5_000, 150, &mut submitted);
    }
    drain(&mut sim, &mut submitted, 400);
    if std::env::var_os("VERIF_DEBUG").is_some() {
        eprintln!("end: sender window {:?} sbs {} pending {} stats {:?}; receiver stats {:?}", sim.hc[0].verif_packet_window(), sim.hc[0].send_buffer_size(), sim.hc[0].is_send_pending(), sim.hc[0].verif_stats(), sim.hc[1].verif_stats());
    }
    let (end_send_buffer, end_pending, end_window) = (sim.hc[0].send_buffer_size(), sim.hc[0].is_send_pending(), sim.hc[0].verif_packet_window());
    let trace = sim.finish();
    StaleAckRun { sc, trace, classes, complete: true, end_send_buffer, end_pending, end_window }
}

fn run_long_haul(c: &LongHaul) -> CaseResult {
    use uflow::verif::Serialize as _;
    if c.stale_ack {
        return run_stale_ack(c);
    }
    let mut classes: Vec<&'static str> = vec!["long_haul"];
    let dir = DirCfg { pkt_win_log2: 12, frm_win_log2: 12, pkt_base: c.pkt_base & PKT_MASK, frm_base: c.frm_base, alloc_limit: 4_000_000, bw_limit: 400_000_000 };
    let sc = PairScenario {
        dirs: [dir.clone(), dir],
        keepalive_ms: None,
        seed: c.seed,
        zero_ch: 0,
        zero_mode: 1,
        links: [LinkCfg { latency_us: c.latency_us.min(20_000), fates: vec![] }, LinkCfg { latency_us: c.latency_us.min(20_000), fates: vec![] }],
        ticks: vec![],
        tail: None,
        premature_acks: Vec::new(),
    };
    let mut sim = SimPair::new(&sc);
    sim.record_stats = false;
    let channels = c.channels.clamp(1, 8);
    let mut submitted: u32 = 0;
    // (phase B uses Unreliable packets only: retransmissions would keep the sender from ever being silent)
    let phase_b = std::cell::Cell::new(false);
    let tick = |sim: &mut SimPair, dt_us: u64, count: u32, submitted: &mut u32| {
        let mut sends = Vec::with_capacity(count as usize);
        for _ in 0..count {
            let i = *submitted;
            let mode = if !phase_b.get() && (i.wrapping_mul(2654435761) >> 8) % 100 < c.reliable_pct as u32 { 3 } else { 1 };
            sends.push(SendSpec { ch: (i % channels as u32) as u8, mode, size: 8 });
            *submitted += 1;
        }
        let t = Tick { dt_us, acts: [EpAct { step: true, sends, flushes: 1 }, EpAct { step: true, sends: vec![], flushes: 1 }] };
        sim.run_tick(&t);
    };
    // A: warm-up
    for _ in 0..60 {
        tick(&mut sim, 5_000, 20, &mut submitted);
    }
    // let everything sent so far be delivered and acknowledged (Reliable packets of the warm-up included)
    for _ in 0..200 {
        tick(&mut sim, 5_000, 0, &mut submitted);
    }
    phase_b.set(true);
    // B: acknowledgements are lost for a while; copies of everything the sender emits meanwhile are held back
    let hold_us = c.hold_ms.clamp(2_200, 6_000) as u64 * 1000;
    let b_first_wire = sim.trace.wire[0].len();
    sim.stash_until_us[0] = sim.now_us + hold_us + 300_000;
    sim.blackout[1] = (sim.now_us + hold_us, 2);
    // a burst, then silence: with nothing acknowledged and nothing new to send, the sender emits sync frames that name
    // its next frame and packet ids; when acknowledgements flow again it sends some more (all of it held back as well)
    let b_quiet_end = sim.now_us + hold_us;
    let b_end = b_quiet_end + 300_000;
    tick(&mut sim, 20_000, 30, &mut submitted);
    while sim.now_us < b_quiet_end {
        tick(&mut sim, 20_000, 0, &mut submitted);
    }
    while sim.now_us < b_end {
        tick(&mut sim, 20_000, 3, &mut submitted);
    }
    let b_last_wire = sim.trace.wire[0].len();
    phase_b.set(false);
    // which packets travel in held-back data frames that follow a held-back sync frame naming a frame id?
    let mut seen_sync = false;
    let mut p_star: Option<u32> = None;
    for w in sim.trace.wire[0][b_first_wire..b_last_wire].iter() {
        match uflow::verif::Frame::read(&w.bytes) {
            Some(uflow::verif::Frame::SyncFrame(sf)) if sf.next_frame_id.is_some() => seen_sync = true,
            Some(uflow::verif::Frame::DataFrame(df)) if seen_sync => {
                for dg in df.datagrams.iter() {
                    if dg.data.len() >= 4 && p_star.is_none() {
                        p_star = Some(u32::from_be_bytes([dg.data[0], dg.data[1], dg.data[2], dg.data[3]]));
                    }
                }
            }
            _ => {}
        }
    }
    if seen_sync {
        classes.push("long_haul_sync_with_frame_id_duplicated");
    }
    let p_star = p_star.unwrap_or(submitted.saturating_sub(10));
    // C: carry on until the ids have come round: in the end the receiver's window base lies `delta` before p*
    let target = (1u32 << 20) + p_star.saturating_sub(c.delta.min(3000) as u32);
    let mut guard = 0;
    while submitted < target && guard < 200_000 {
        guard += 1;
        let room = sim.hc[0].send_buffer_size() < 300_000;
        let n = if room { (target - submitted).min(1000) } else { 0 };
        tick(&mut sim, 2_000, n, &mut submitted);
    }
    // drain
    let mut idle = 0;
    let mut last = sim.trace.delivs[1].len();
    while idle < 200 {
        tick(&mut sim, 5_000, 0, &mut submitted);
        if sim.trace.delivs[1].len() != last {
            last = sim.trace.delivs[1].len();
            idle = 0;
        } else {
            idle += 1;
        }
    }
    if submitted >= target {
        classes.push("long_haul_packet_ids_came_round");
    }
    // D: the long-delayed duplicates arrive
    let released = sim.release_stash(0);
    for _ in 0..100 {
        tick(&mut sim, 5_000, 0, &mut submitted);
    }
    let trace = sim.finish();
    if std::env::var_os("VERIF_DEBUG").is_some() {
        eprintln!("long haul: submitted {submitted} target {target} delivered {} frames {} released {released} seen_sync {seen_sync} p* {p_star} end t={} us", trace.delivs[1].len(), trace.wire[0].len(), trace.end_us);
    }
    for s in 0..2 {
        if let Err(v) = match_direction(&sc, &trace, s) {
            return CaseResult { violation: Some(v), nontrivial: true, classes };
        }
    }
    CaseResult::ok(released > 0 && submitted >= target && seen_sync, classes)
}

pub fn wrap_classes(sc: &PairScenario, trace: &Trace, classes: &mut Vec<&'static str>) {
    if sc.ticks.iter().any(|t| t.dt_us >= 60_000_000) {
        classes.push(if trace.end_us >= (1u64 << 32) * 1000 { "old_connection_clock_crossed_2_pow_32_ms" } else { "old_connection_clock_near_a_power_of_two" });
    }
    for d in 0..2 {
        let n_pkts = trace.subs[d].len() as u32;
        let n_frames = trace.wire[d].len() as u32;
        let pb = sc.dirs[d].pkt_base & PKT_MASK;
        if n_pkts > 0 && (PKT_MASK - pb) < n_pkts {
            classes.push("packet_id_wrap_crossed");
        }
        if n_frames > 0 && (u32::MAX - sc.dirs[d].frm_base) < n_frames {
            classes.push("frame_id_wrap_crossed");
        }
        if n_pkts >= 2 * (1u32 << sc.dirs[d].pkt_win_log2) {
            classes.push("packet_window_cycled_2x");
        }
        if n_frames >= 2 * (1u32 << sc.dirs[d].frm_win_log2) {
            classes.push("frame_window_cycled_2x");
        }
    }
}

fn pair_strategy(tier: Tier) -> BoxedStrategy<PairScenario> {
        let p = GenParams { max_ticks: tier.pick(400, 1000), max_sends: tier.pick(6, 10), max_frags: tier.pick(4, 12), tail: false, stall_weight: 8, ..GenParams::default() };
        let bulk = bulk_scenario_strategy(tier.pick(120, 300), tier.pick(80, 250), true, false);
        prop_oneof![5 => scenario_strategy(&p), 1 => bulk].boxed()
}

impl Check for C01 {
    type Case = Case;

    fn id(&self) -> &'static str {
        "C01"
    }

    fn strategy(&self, tier: Tier) -> BoxedStrategy<Case> {
        let long_haul = (any::<u64>(), prop_oneof![Just(0u32), 0u32..=PKT_MASK], prop_oneof![Just(0u32), (0u32..100_000).prop_map(|d| u32::MAX - d), any::<u32>()], prop_oneof![Just(0u32), 0u32..20_000], 2_200u16..5_000, 0u16..3000, prop_oneof![Just(0u8), 0u8..50], 1u8..6)
            .prop_map(|(seed, pkt_base, frm_base, latency_us, hold_ms, delta, reliable_pct, channels)| Case::LongHaul { long_haul: LongHaul { seed, pkt_base, frm_base, latency_us, hold_ms, delta, reliable_pct, channels, stale_ack: seed % 3 == 0 } });
        // (a long-haul case moves more than a million packets: seconds each, hence few)
        let endpoints = crate::sim::epstream::epstream_strategy(tier.pick(150, 400)).prop_map(|endpoints| Case::Endpoints { endpoints });
        prop_oneof![tier.pick(2000, 3000) => pair_strategy(tier).prop_map(Case::Pair), 1 => long_haul, tier.pick(300, 450) => endpoints].boxed()
    }

    fn extra(&self, tier: Tier, seed: u64) -> ExtraResult {
        if tier != Tier::Thorough {
            return ExtraResult::default();
        }
        // coverage-guided search over the same scenario space with the same oracle (harness/fuzz, target pair_oracles)
        crate::props::pairfuzz::pair_fuzz_extra("C01", seed, 600_000, &|sc| self.run(&Case::Pair(sc.clone())), &|sc| serde_json::to_value(Case::Pair(sc.clone())).unwrap_or_default())
    }

    fn cases(&self, tier: Tier) -> u64 {
        tier.pick(12_000, 600_000)
    }

    fn rule(&self) -> String {
        "three case kinds. Endpoints (about one in eight): a real Client and Server on a link with per-datagram fates (delay, drop, duplicate); the client application submits 0-11 packets right after connect(), before its first step (Client::send queues them while the handshake is pending), then both applications submit packets of all modes on up to 64 channels through the public API; what each application is handed must be byte-exact submissions of its peer, at most once, per channel in submission order. LongHaul (a few per run): one connection carries 2^20 + k tiny packets (Unreliable with 0-50% Reliable, 1-5 channels) over a loss-free link, so that the 20-bit packet ids come round once; early on acknowledgements are lost for 2.2-5 s, and network duplicates of every frame the sender emits in that phase (data frames, and sync frames naming frame / packet ids) are delivered only at the very end, timed so that the packet ids they carry lie 0-3000 ahead of the receiver's window base again. Pair: SimPair scenario (two HalfConnections under a virtual clock): window sizes 2^k, base ids biased to within 9000 of the 20-bit / 32-bit wrap, traffic in both directions on up to 64 channels in all four modes with sizes 0..several fragments, per-frame fates on both links (deliver with extra delay / drop / duplicate / 1-4 bit corruption, loss bursts), arbitrary tick cadence incl. dt=0, skipped steps and repeated flushes. Non-trivial = at least one frame dropped, duplicated, corrupted or overtaken AND at least two deliveries. Distinct = distinct serialised scenario.".into()
    }

    fn assumptions(&self) -> Vec<String> {
        vec![
            "payload identity convention: >=4 bytes carry a unique index + PRF; 1-3 bytes carry mode and channel in the first byte; zero-length packets share one per-case channel and mode (greedy subsequence matching is then exact)".into(),
            "sender and receiver window sizes of a direction are equal (as Client/Server always configure them)".into(),
        ]
    }

    fn run(&self, case: &Case) -> CaseResult {
        let sc = match case {
            Case::Pair(sc) => sc,
            Case::LongHaul { long_haul } => return run_long_haul(long_haul),
            Case::Endpoints { endpoints } => return run_endpoints(endpoints),
        };
        let mut sc = sc.clone();
        sc.normalize();
        let trace = SimPair::run(&sc);
        let mut classes = Vec::new();
        for s in 0..2 {
            if let Err(v) = match_direction(&sc, &trace, s) {
                return CaseResult { violation: Some(v), nontrivial: true, classes };
            }
        }
        let faults = trace.frames_dropped + trace.frames_duplicated + trace.frames_corrupted + trace.frames_overtaken;
        let deliveries = trace.delivs[0].len() + trace.delivs[1].len();
        if trace.frames_dropped > 0 {
            classes.push("frame_dropped");
        }
        if trace.frames_duplicated > 0 {
            classes.push("frame_duplicated");
        }
        if trace.frames_corrupted > 0 {
            classes.push("frame_corrupted");
        }
        if trace.frames_overtaken > 0 {
            classes.push("frame_overtaken");
        }
        if trace.subs[0].iter().chain(trace.subs[1].iter()).any(|s| s.size as usize > FRAG) {
            classes.push("multi_fragment_packet");
        }
        wrap_classes(&sc, &trace, &mut classes);
        if trace.subs[0].len().max(trace.subs[1].len()) >= 1000 {
            classes.push("bulk_1000_plus_packets");
        }
        classes.push(match deliveries {
            0 => "deliveries_0",
            1..=9 => "deliveries_1_9",
            10..=49 => "deliveries_10_49",
            _ => "deliveries_50_plus",
        });
        CaseResult::ok(faults > 0 && deliveries >= 2, classes)
    }
}
