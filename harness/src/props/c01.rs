//! C01 — per-channel delivery is in order, at most once, and byte-exact.

use crate::engine::*;
use crate::sim::gen::*;
use crate::sim::ledger::*;
use crate::sim::pair::*;
use proptest::prelude::*;

pub struct C01;

pub fn wrap_classes(sc: &PairScenario, trace: &Trace, classes: &mut Vec<&'static str>) {
    for d in 0..2 {
        let n_pkts = trace.subs[d].len() as u32;
        let n_frames = trace.wire[d].len() as u32;
        let pb = sc.dirs[d].pkt_base & PKT_MASK;
        if n_pkts > 0 && (PKT_MASK - pb) < n_pkts {
            classes.push("packet_id_wrap_crossed");
        }
        if n_frames > 0 && (u32::MAX - sc.dirs[d].frm_base) < n_frames {
            classes.push("frame_id_wrap_crossed");
        }
        if n_pkts >= 2 * (1u32 << sc.dirs[d].pkt_win_log2) {
            classes.push("packet_window_cycled_2x");
        }
        if n_frames >= 2 * (1u32 << sc.dirs[d].frm_win_log2) {
            classes.push("frame_window_cycled_2x");
        }
    }
}

impl Check for C01 {
    type Case = PairScenario;

    fn id(&self) -> &'static str {
        "C01"
    }

    fn strategy(&self, tier: Tier) -> BoxedStrategy<PairScenario> {
        let p = GenParams { max_ticks: tier.pick(400, 1000), max_sends: tier.pick(6, 10), max_frags: tier.pick(4, 12), tail: false, ..GenParams::default() };
        let bulk = bulk_scenario_strategy(tier.pick(120, 300), tier.pick(80, 250), true, false);
        prop_oneof![5 => scenario_strategy(&p), 1 => bulk].boxed()
    }

    fn cases(&self, tier: Tier) -> u64 {
        tier.pick(12_000, 600_000)
    }

    fn rule(&self) -> String {
        "case = SimPair scenario (two HalfConnections under a virtual clock): window sizes 2^k, base ids biased to within 9000 of the 20-bit / 32-bit wrap, traffic in both directions on up to 64 channels in all four modes with sizes 0..several fragments, per-frame fates on both links (deliver with extra delay / drop / duplicate / 1-4 bit corruption, loss bursts), arbitrary tick cadence incl. dt=0, skipped steps and repeated flushes. Non-trivial = at least one frame dropped, duplicated, corrupted or overtaken AND at least two deliveries. Distinct = distinct serialised scenario.".into()
    }

    fn assumptions(&self) -> Vec<String> {
        vec![
            "payload identity convention: >=4 bytes carry a unique index + PRF; 1-3 bytes carry mode and channel in the first byte; zero-length packets share one per-case channel and mode (greedy subsequence matching is then exact)".into(),
            "sender and receiver window sizes of a direction are equal (as Client/Server always configure them)".into(),
        ]
    }

    fn run(&self, sc: &PairScenario) -> CaseResult {
        let mut sc = sc.clone();
        sc.normalize();
        let trace = SimPair::run(&sc);
        let mut classes = Vec::new();
        for s in 0..2 {
            if let Err(v) = match_direction(&sc, &trace, s) {
                return CaseResult { violation: Some(v), nontrivial: true, classes };
            }
        }
        let faults = trace.frames_dropped + trace.frames_duplicated + trace.frames_corrupted + trace.frames_overtaken;
        let deliveries = trace.delivs[0].len() + trace.delivs[1].len();
        if trace.frames_dropped > 0 {
            classes.push("frame_dropped");
        }
        if trace.frames_duplicated > 0 {
            classes.push("frame_duplicated");
        }
        if trace.frames_corrupted > 0 {
            classes.push("frame_corrupted");
        }
        if trace.frames_overtaken > 0 {
            classes.push("frame_overtaken");
        }
        if trace.subs[0].iter().chain(trace.subs[1].iter()).any(|s| s.size as usize > FRAG) {
            classes.push("multi_fragment_packet");
        }
        wrap_classes(&sc, &trace, &mut classes);
        if trace.subs[0].len().max(trace.subs[1].len()) >= 1000 {
            classes.push("bulk_1000_plus_packets");
        }
        classes.push(match deliveries {
            0 => "deliveries_0",
            1..=9 => "deliveries_1_9",
            10..=49 => "deliveries_10_49",
            _ => "deliveries_50_plus",
        });
        CaseResult::ok(faults > 0 && deliveries >= 2, classes)
    }
}
