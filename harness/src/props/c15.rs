//! C15 — only genuine, fresh acknowledgements change sender state.
//!
//! Twin runs of one scenario (identical because clock and RNG are owned by the harness): run 1 as
//! generated, run 2 additionally hands the senders ack frames that must be inert.

use crate::engine::*;
use crate::sim::gen::*;
use crate::sim::pair::*;
use proptest::prelude::*;
use serde::{Deserialize, Serialize};
use uflow::verif::Serialize as _;
use uflow::verif::{AckFrame, AckGroup, Frame};

#[derive(Clone, Debug, Serialize, Deserialize)]
pub enum InjKind {
    /// replay the groups of the k-th most recent genuine ack frame this endpoint has handled
    Replay { back: u8 },
    /// a group over frames this endpoint really sent (bitfield as given), with the nonce inverted
    WrongNonce { back: u16, bitfield: u32 },
    /// a group whose base id lies beyond anything sent
    Unknown { ahead: u32, bitfield: u32 },
    /// a group starting at a sent frame whose bitfield reaches past the newest frame sent
    Mixed { back: u8 },
    /// a group far behind the log
    Stale { behind: u32, bitfield: u32 },
    /// the network duplicates the nth genuine ack frame travelling to this endpoint; the copy arrives
    /// `delay_us` after the original (0 = in the same interval, right behind it)
    DupAck { nth: u16, delay_us: u32 },
    /// the nth genuine ack frame handed to this endpoint additionally claims frames the endpoint has already seen
    /// acknowledged (a repeated acknowledgement bundled with fresh ones; selector bits choose which; nth = 0xFFFF: every ack frame)
    ExtendAck { nth: u16, sel: u32 },
    /// a group that uses all 32 positions: its last position claims a frame that was never sent (`unknown`), or a
    /// really-sent frame whose nonce makes the group's parity wrong; the lower claims (selected by `low`) are
    /// really-sent frames with the right parity among themselves
    FullWidth { unknown: bool, low: u32 },
    /// a group over frame ids that differ from really-sent, still-logged frames by a multiple of a power of two
    /// (2^16, 2^20, 2^24, 2^31): never sent, but equal to sent ids under any narrower arithmetic. The nonce is the
    /// parity of the frames it would alias.
    Alias { back: u16, bitfield: u32, shift: u8, k: u8 },
    /// an ack frame without groups whose frame window base claims frames that were never sent (`ahead` beyond the
    /// newest frame sent) or lies `ahead` behind the base the endpoint has already been told (`behind`); the packet
    /// window base is the genuine one
    Base { ahead: u32, behind: bool },
    /// an ack frame without groups whose PACKET window base names a packet that has not been sent yet (`ahead` beyond
    /// the next packet id the endpoint will use): an acknowledgement of nothing; the frame window base is the genuine one
    PacketBase { ahead: u16 },
    /// an ack frame without groups whose FRAME window base claims frames that were never sent (1..=`ahead` beyond the next
    /// frame id: bogus, whatever the window size) and whose packet window base acknowledges `take` of the packets that
    /// are outstanding - plausible by itself, but carried by a frame that cannot be genuine
    BogusBaseWithPackets { ahead: u16, take: u16 },
}

#[derive(Clone, Debug, Serialize, Deserialize)]
pub struct Injection {
    pub after_tick: u16,
    pub ep: u8,
    pub kind: InjKind,
}

#[derive(Clone, Debug, Serialize, Deserialize)]
pub struct Case {
    pub sc: PairScenario,
    pub inj: Vec<Injection>,
}

pub struct C15;

fn kind_strategy() -> impl Strategy<Value = InjKind> {
    prop_oneof![
        4 => (0u8..6).prop_map(|back| InjKind::Replay { back }),
        3 => (any::<u16>(), prop_oneof![Just(1u32), Just(3u32), Just(2u32), Just(6u32), Just(u32::MAX), Just(u32::MAX - 1), any::<u32>()]).prop_map(|(back, bitfield)| InjKind::WrongNonce { back, bitfield: if bitfield == 0 { 2 } else { bitfield } }),
        1 => (0u32..5000, any::<u32>()).prop_map(|(ahead, bitfield)| InjKind::Unknown { ahead, bitfield: bitfield | 1 }),
        2 => (0u8..8).prop_map(|back| InjKind::Mixed { back }),
        1 => (1u32..100_000, any::<u32>()).prop_map(|(behind, bitfield)| InjKind::Stale { behind, bitfield: bitfield | 1 }),
        5 => (prop_oneof![2 => 0u16..10, 2 => 0u16..60, 1 => 0u16..300], prop_oneof![3 => Just(0u32), 2 => 1u32..30_000, 1 => 30_000u32..2_000_000]).prop_map(|(nth, delay_us)| InjKind::DupAck { nth, delay_us }),
        5 => (prop_oneof![2 => Just(0xFFFFu16), 1 => 0u16..10, 1 => 0u16..60], prop_oneof![Just(u32::MAX), any::<u32>()]).prop_map(|(nth, sel)| InjKind::ExtendAck { nth, sel }),
        3 => (any::<bool>(), prop_oneof![Just(1u32), Just(0x7FFF_FFFFu32), any::<u32>()]).prop_map(|(unknown, low)| InjKind::FullWidth { unknown, low }),
        3 => (prop_oneof![3 => 0u16..4, 1 => any::<u16>()], prop_oneof![Just(1u32), Just(3u32), Just(7u32), any::<u32>()], prop_oneof![Just(16u8), Just(20u8), Just(24u8), Just(31u8)], 1u8..4).prop_map(|(back, bitfield, shift, k)| InjKind::Alias { back, bitfield: bitfield | 1, shift, k }),
        2 => (prop_oneof![3 => 1u32..5, 3 => 1u32..70, 2 => 1u32..5000, 1 => (1u32..4, prop_oneof![Just(16u32), Just(20u32), Just(31u32)]).prop_map(|(k, s)| k << s)], prop_oneof![4 => Just(false), 1 => Just(true)]).prop_map(|(ahead, behind)| InjKind::Base { ahead, behind }),
        3 => prop_oneof![5 => Just(1u16), 3 => 2u16..4, 1 => 4u16..3000].prop_map(|ahead| InjKind::PacketBase { ahead }),
        3 => (prop_oneof![3 => Just(1u16), 3 => 1u16..8, 2 => 8u16..4096], any::<u16>()).prop_map(|(ahead, take)| InjKind::BogusBaseWithPackets { ahead, take }),
    ]
}

struct Observer {
    /// (frame id, nonce, t_us) of data frames sent by endpoint e
    sent: [Vec<(u32, bool, u64)>; 2],
    seen_wire: [usize; 2],
    /// genuine ack frames handled by endpoint e
    acks: [Vec<AckFrame>; 2],
    seen_handled: [usize; 2],
}

impl Observer {
    fn update(&mut self, sim: &SimPair) {
        for e in 0..2 {
            let w = &sim.trace.wire[e];
            while self.seen_wire[e] < w.len() {
                if let Some(Frame::DataFrame(d)) = Frame::read(&w[self.seen_wire[e]].bytes) {
                    self.sent[e].push((d.sequence_id, d.nonce, w[self.seen_wire[e]].t_us));
                }
                self.seen_wire[e] += 1;
            }
            let h = &sim.trace.handled[e];
            while self.seen_handled[e] < h.len() {
                let r = &h[self.seen_handled[e]];
                if r.accepted && !r.corrupted {
                    if let Some(Frame::AckFrame(a)) = Frame::read(&sim.trace.wire[1 - e][r.wire_idx as usize].bytes) {
                        self.acks[e].push(a);
                    }
                }
                self.seen_handled[e] += 1;
            }
        }
    }
}

struct RunOut {
    trace: Trace,
    injected: u32,
    recent: u32,
    classes: Vec<&'static str>,
}

fn run_once(sc: &PairScenario, inj: Option<&[Injection]>) -> RunOut {
    let mut sim = SimPair::new(sc);
    if let Some(list) = inj {
        for i in list.iter() {
            if let InjKind::DupAck { nth, delay_us } = &i.kind {
                // acks travelling to endpoint e are put on the link of endpoint 1 - e
                let e = (i.ep % 2) as usize;
                sim.dup_acks[1 - e].push((*nth as u32, *delay_us));
            }
            if let InjKind::ExtendAck { nth, sel } = &i.kind {
                sim.ext_acks[(i.ep % 2) as usize].push((*nth as u32, *sel));
            }
        }
    }
    let mut obs = Observer { sent: [Vec::new(), Vec::new()], seen_wire: [0, 0], acks: [Vec::new(), Vec::new()], seen_handled: [0, 0] };
    let mut injected = 0;
    let mut recent = 0;
    let mut classes = Vec::new();
    let n = sc.ticks.len();
    let mut full_width_done: std::collections::HashSet<usize> = std::collections::HashSet::new();
    for (k, t) in sc.ticks.iter().enumerate() {
        sim.run_tick(t);
        if let Some(list) = inj {
            obs.update(&sim);
            for (ii, i) in list.iter().enumerate() {
                // full-width groups need 31 logged frames: they wait for the first tick from theirs on where that holds
                let waiting_full_width = matches!(i.kind, InjKind::FullWidth { .. }) && pick_index(i.after_tick, n) <= k && !full_width_done.contains(&ii);
                if pick_index(i.after_tick, n) != k && !waiting_full_width {
                    continue;
                }
                let e = (i.ep % 2) as usize;
                // window bases: exactly those of the latest genuine ack this endpoint handled, or
                // its own initial bases (both can not move a window)
                let (fb, pb) = match obs.acks[e].last() {
                    Some(a) => (a.frame_window_base_id, a.packet_window_base_id),
                    None => (sc.dirs[e].frm_base, sc.dirs[e].pkt_base & PKT_MASK),
                };
                let nonce_of = |id: u32| obs.sent[e].iter().rev().find(|s| s.0 == id).map(|s| s.1);
                let mut fb = fb;
                let mut pb = pb;
                let groups: Vec<AckGroup> = match &i.kind {
                    InjKind::BogusBaseWithPackets { ahead, take } => {
                        let (base, next_pkt) = sim.hc[e].verif_packet_window();
                        let span = next_pkt.wrapping_sub(base) & PKT_MASK;
                        if span == 0 {
                            continue;
                        }
                        // frames up to `newest` have been sent: the next frame id plus something is a frame never sent
                        let next = obs.sent[e].last().map_or(sc.dirs[e].frm_base, |s| s.0.wrapping_add(1));
                        fb = next.wrapping_add((*ahead as u32).max(1));
                        pb = base.wrapping_add(1 + pick_index(*take, span as usize) as u32) & PKT_MASK;
                        classes.push("bogus_frame_base_with_plausible_packet_base");
                        Vec::new()
                    }
                    InjKind::PacketBase { ahead } => {
                        let (base, next) = sim.hc[e].verif_packet_window();
                        let span = next.wrapping_sub(base) & PKT_MASK;
                        if span + (*ahead as u32).max(1) >= 0x40000 {
                            continue;
                        }
                        classes.push("packet_base_beyond_packets_sent");
                        pb = next.wrapping_add((*ahead as u32).max(1)) & PKT_MASK;
                        Vec::new()
                    }
                    InjKind::Base { ahead, behind } => {
                        let next = obs.sent[e].last().map_or(sc.dirs[e].frm_base, |s| s.0.wrapping_add(1));
                        if *behind {
                            classes.push("window_base_behind");
                            fb = fb.wrapping_sub((*ahead).max(1));
                        } else {
                            classes.push("window_base_beyond_frames_sent");
                            fb = next.wrapping_add((*ahead).max(1));
                        }
                        Vec::new()
                    }
                    InjKind::Replay { back } => {
                        if obs.acks[e].is_empty() {
                            continue;
                        }
                        let k = obs.acks[e].len() - 1 - (*back as usize).min(obs.acks[e].len() - 1);
                        classes.push("replay");
                        obs.acks[e][k].frame_acks.clone()
                    }
                    InjKind::WrongNonce { back, bitfield } => {
                        if obs.sent[e].is_empty() {
                            continue;
                        }
                        let k = obs.sent[e].len() - 1 - pick_index(*back, obs.sent[e].len());
                        let base_id = obs.sent[e][k].0;
                        let mut true_nonce = false;
                        let mut all_known = true;
                        for b in 0..32u32 {
                            if bitfield & (1 << b) != 0 {
                                match nonce_of(base_id.wrapping_add(b)) {
                                    Some(nn) => true_nonce ^= nn,
                                    None => all_known = false,
                                }
                            }
                        }
                        classes.push(if all_known { "wrong_nonce_all_frames_known" } else { "wrong_nonce_some_unknown" });
                        vec![AckGroup { base_id, bitfield: *bitfield, nonce: !true_nonce }]
                    }
                    InjKind::Unknown { ahead, bitfield } => {
                        let next = obs.sent[e].last().map_or(sc.dirs[e].frm_base, |s| s.0.wrapping_add(1));
                        classes.push("unknown_ahead");
                        vec![AckGroup { base_id: next.wrapping_add(*ahead), bitfield: *bitfield, nonce: bitfield.count_ones() % 2 == 1 }]
                    }
                    InjKind::Mixed { back } => {
                        if obs.sent[e].is_empty() {
                            continue;
                        }
                        let k = obs.sent[e].len() - 1 - (*back as usize).min(obs.sent[e].len() - 1);
                        let base_id = obs.sent[e][k].0;
                        // covers frames k.. and at least one id that was never sent
                        let span = (obs.sent[e].len() - k) as u32;
                        if span >= 32 {
                            continue;
                        }
                        let bitfield = (1u32 << (span + 1)) - 1;
                        let mut nonce = false;
                        for b in 0..span {
                            nonce ^= nonce_of(base_id.wrapping_add(b)).unwrap_or(false);
                        }
                        classes.push("mixed_known_unknown");
                        vec![AckGroup { base_id, bitfield, nonce }]
                    }
                    InjKind::FullWidth { unknown, low } => {
                        let Some(newest) = obs.sent[e].last().map(|s| s.0) else { continue };
                        // the 31 (or 32) really-sent frames the group spans must still be in the sender's log, or the
                        // group is rejected for that reason alone
                        let base_id = if *unknown { newest.wrapping_sub(30) } else { newest.wrapping_sub(31) };
                        let known = if *unknown { 31 } else { 32 };
                        let states: Vec<Option<(bool, bool, bool)>> = (0..known).map(|b| sim.hc[e].verif_sent_frame(base_id.wrapping_add(b))).collect();
                        if states.iter().any(|s| s.is_none()) {
                            continue;
                        }
                        if *unknown && sim.hc[e].verif_sent_frame(base_id.wrapping_add(31)).is_some() {
                            continue;
                        }
                        let lowbits = (*low & 0x7FFF_FFFF).max(1);
                        let mut p_low = false;
                        for b in 0..31u32 {
                            if lowbits & (1 << b) != 0 {
                                p_low ^= states[b as usize].unwrap().1;
                            }
                        }
                        if !*unknown && !states[31].unwrap().1 {
                            // with a nonce bit of 0 in the last position the group would be a VALID acknowledgement
                            continue;
                        }
                        full_width_done.insert(ii);
                        classes.push(if *unknown { "full_width_last_unknown" } else { "full_width_wrong_parity" });
                        vec![AckGroup { base_id, bitfield: 0x8000_0000 | lowbits, nonce: p_low }]
                    }
                    InjKind::Alias { back, bitfield, shift, k } => {
                        if obs.sent[e].is_empty() {
                            continue;
                        }
                        let n_sent = obs.sent[e].len();
                        let idx = n_sent - 1 - (*back as usize).min(n_sent - 1);
                        let real_base = obs.sent[e][idx].0;
                        let offset = (*k as u32).wrapping_shl(*shift as u32);
                        if offset == 0 {
                            continue;
                        }
                        // parity of the really-sent frames the group would alias (unsent positions count as 0)
                        let mut nonce = false;
                        for b in 0..32u32 {
                            if bitfield & (1 << b) != 0 {
                                nonce ^= nonce_of(real_base.wrapping_add(b)).unwrap_or(false);
                            }
                        }
                        classes.push("alias_of_sent_frames");
                        vec![AckGroup { base_id: real_base.wrapping_add(offset), bitfield: *bitfield, nonce }]
                    }
                    InjKind::DupAck { .. } | InjKind::ExtendAck { .. } => continue,
                    InjKind::Stale { behind, bitfield } => {
                        classes.push("stale_behind");
                        vec![AckGroup { base_id: sc.dirs[e].frm_base.wrapping_sub(*behind), bitfield: *bitfield, nonce: false }]
                    }
                };
                // does the injection refer to a frame sent within the last virtual second?
                let now = sim.now_us;
                let refers_recent = groups.iter().any(|g| (0..32u32).any(|b| g.bitfield & (1 << b) != 0 && obs.sent[e].iter().rev().take(64).any(|s| s.0 == g.base_id.wrapping_add(b) && now - s.2 <= 1_000_000)));
                if refers_recent {
                    recent += 1;
                }
                let f = Frame::AckFrame(AckFrame { frame_window_base_id: fb, packet_window_base_id: pb, frame_acks: groups });
                let mut bytes = f.write().to_vec();
                // every second forged frame spells a set group nonce with another non-zero byte (the nonce occupies a
                // whole byte on the wire and any non-zero value means 1: what another implementation may send)
                if (ii + k) % 2 == 0 {
                    let n_groups = (bytes.len() - 15) / 9;
                    let mut changed = false;
                    for g in 0..n_groups {
                        let off = 11 + 9 * g + 8;
                        if bytes[off] != 0 {
                            bytes[off] = [0x02u8, 0x80, 0xFE, 0x10][(ii + g) % 4];
                            changed = true;
                        }
                    }
                    if changed {
                        let n = bytes.len();
                        let c = uflow::verif::crc32(&bytes[..n - 4]);
                        bytes[n - 4..].copy_from_slice(&c.to_be_bytes());
                        classes.push("group_nonce_spelled_with_another_nonzero_byte");
                    }
                }
                sim.handle_bytes(e, &bytes);
                injected += 1;
            }
        }
    }
    if let Some(list) = inj {
        for i in list.iter() {
            if let InjKind::DupAck { nth, delay_us } = &i.kind {
                let e = (i.ep % 2) as usize;
                let acks_on_link = sim.trace.wire[1 - e].iter().filter(|w| w.bytes.first() == Some(&12) && matches!(w.fate, Fate::Deliver(_))).count();
                if (*nth as usize) < acks_on_link {
                    injected += 1;
                    classes.push(if *delay_us == 0 { "duplicate_ack_same_interval" } else { "duplicate_ack_delayed" });
                    if *delay_us <= 1_000_000 {
                        recent += 1;
                    }
                }
            }
        }
    }
    if sim.acks_extended > 0 {
        injected += sim.acks_extended;
        recent += sim.acks_extended;
        classes.push("ack_extended_with_repeated_claims");
    }
    RunOut { trace: sim.finish(), injected, recent, classes }
}

impl Check for C15 {
    type Case = Case;

    fn id(&self) -> &'static str {
        "C15"
    }

    fn strategy(&self, tier: Tier) -> BoxedStrategy<Case> {
        let p = GenParams { max_ticks: tier.pick(120, 300), max_sends: 5, max_frags: 4, tail: false, modes: [1, 1, 2, 3], ..GenParams::default() };
        let p_low = GenParams { low_bandwidth: true, max_latency_us: 40_000, ..p.clone() };
        let inj = (any::<u16>(), 0u8..2, kind_strategy()).prop_map(|(after_tick, ep, kind)| Injection { after_tick, ep, kind });
        // "many frames": every send becomes a burst of packets of about one frame each on a fast connection with full-size
        // windows, so that the sender's log holds dozens of frames (needed by the 32-wide groups)
        let many = (scenario_strategy(&p), 6u32..20, 700u32..1400).prop_map(|(mut sc, mult, size)| {
            for d in sc.dirs.iter_mut() {
                d.bw_limit = d.bw_limit.max(50_000_000);
                d.frm_win_log2 = 12;
                d.pkt_win_log2 = 12;
                d.alloc_limit = d.alloc_limit.max(4_000_000);
            }
            // mostly loss-free (loss keeps TFRC at a few frames per round trip)
            for l in sc.links.iter_mut() {
                for (k, f) in l.fates.iter_mut().enumerate() {
                    if k % 8 != 7 || k < 64 {
                        *f = Fate::Deliver(0);
                    }
                }
            }
            for t in sc.ticks.iter_mut() {
                for a in t.acts.iter_mut() {
                    a.step = true;
                    let mut v = Vec::new();
                    for sp in a.sends.iter().take(3) {
                        for j in 0..mult {
                            v.push(SendSpec { ch: sp.ch, mode: sp.mode, size: size + j });
                        }
                    }
                    a.sends = v;
                }
            }
            sc
        });
        (prop_oneof![2 => scenario_strategy(&p), 2 => scenario_strategy(&p_low), 1 => many], proptest::collection::vec(inj, 1..tier.pick(12, 40))).prop_map(|(sc, inj)| Case { sc, inj }).boxed()
    }

    fn cases(&self, tier: Tier) -> u64 {
        tier.pick(48_000, 500_000)
    }

    fn rule(&self) -> String {
        "case = SimPair scenario + list of injections; the scenario is run twice with identical clock and nonce streams, the second time additionally handing the senders, between ticks, ack frames that must be inert: genuine earlier ack groups replayed (any age), groups over really-sent frames with the nonce inverted (any bitfield, including ones that do not claim their own base frame), groups ahead of / far behind the frame log, groups mixing sent and never-sent ids, groups over ids that differ from really-sent frames by a multiple of 2^16 / 2^20 / 2^24 / 2^31 (with the parity of the frames they would alias), groups using all 32 positions whose last position alone makes them invalid (never-sent frame, or a sent frame whose nonce spoils the parity), network duplicates of genuine ack frames arriving right behind the original (same step interval) or up to 2 s later, and genuine ack frames whose groups additionally claim frames the sender has already seen acknowledged (repeated acknowledgements bundled with fresh ones; only frames still in the sender's log, with the nonce adjusted, never gaining a rate-limited frame); ack frames without groups whose frame window base lies 1..5000 (or k x 2^16/20/31) beyond the newest frame sent, or behind the base already reported; ack frames without groups whose frame window base claims frames never sent while their packet window base acknowledges outstanding packets; ack frames without groups whose PACKET window base names a packet not sent yet (1..3, rarely up to 3000, beyond the next packet id; read through the hook); every other forged frame carries the window bases of the latest genuine ack that endpoint handled, so it cannot move a window. (Every second forged frame spells a set group nonce with a non-zero byte other than 1.) Oracle: both runs emit byte-identical frames at identical virtual times and report identical rtt_s(), allowed rate, is_send_pending(), send_buffer_size() and queue lengths at every snapshot, and deliver identically. Non-trivial = at least one injected group referred to a frame sent within the last virtual second. Distinct = distinct serialised case.".into()
    }

    fn assumptions(&self) -> Vec<String> {
        vec!["acks are injected between ticks (after an endpoint's step/sends/flushes, before its next flush)".into(), "replayed groups are taken only from ack frames the endpoint has already handled (an off-path attacker or a duplicating network cannot do more)".into()]
    }

    fn sample(&self, case: &Case) -> serde_json::Value {
        truncate_value(serde_json::to_value(case).unwrap(), 1)
    }

    fn run(&self, case: &Case) -> CaseResult {
        let mut sc = case.sc.clone();
        sc.normalize();
        let a = run_once(&sc, None);
        let b = run_once(&sc, Some(&case.inj));
        if std::env::var_os("VERIF_DEBUG").is_some() {
            for (name, r) in [("A", &a), ("B", &b)] {
                for e in 0..2 {
                    eprintln!("run {name} ep{e} rtt trace: {:?}", r.trace.stats[e].iter().map(|s| (s.t_us, s.rtt_s.map(|x| (x * 1e6) as u64))).collect::<Vec<_>>());
                    eprintln!("run {name} ep{e} wire: {:?}", r.trace.wire[e].iter().map(|w| (w.t_us, Frame::read(&w.bytes).map(|f| crate::props::c16::short_frame(&f)))).collect::<Vec<_>>());
                }
            }
        }
        let mut classes = b.classes.clone();
        classes.sort();
        classes.dedup();
        for e in 0..2 {
            let (wa, wb) = (&a.trace.wire[e], &b.trace.wire[e]);
            for k in 0..wa.len().min(wb.len()) {
                if wa[k].bytes != wb[k].bytes || wa[k].t_us != wb[k].t_us {
                    let fa = Frame::read(&wa[k].bytes).map(|f| crate::props::c16::short_frame(&f));
                    let fb = Frame::read(&wb[k].bytes).map(|f| crate::props::c16::short_frame(&f));
                    return CaseResult::fail(
                        "oracle:c15:wire_differs",
                        format!("endpoint {e}: frame #{k} differs between the twin runs (t={} vs {} us):\n without injections: {:?}\n with injections:    {:?}", wa[k].t_us, wb[k].t_us, fa, fb),
                    );
                }
            }
            if wa.len() != wb.len() {
                return CaseResult::fail("oracle:c15:wire_differs", format!("endpoint {e} emitted {} frames without and {} frames with the inert acks", wa.len(), wb.len()));
            }
            let (sa, sb) = (&a.trace.stats[e], &b.trace.stats[e]);
            for k in 0..sa.len().min(sb.len()) {
                let (x, y) = (&sa[k], &sb[k]);
                if x.rtt_s != y.rtt_s || x.v.send_rate != y.v.send_rate {
                    return CaseResult::fail(
                        "oracle:c15:estimates_differ",
                        format!("endpoint {e} at t={} us: rtt_s {:?} vs {:?}, allowed rate {} vs {} (without / with inert acks)", x.t_us, x.rtt_s, y.rtt_s, x.v.send_rate, y.v.send_rate),
                    );
                }
                if x.send_pending != y.send_pending || x.send_buffer_size != y.send_buffer_size || x.v.resend_queue_len != y.v.resend_queue_len || x.v.pending_queue_len != y.v.pending_queue_len || x.v.flush_alloc != y.v.flush_alloc {
                    return CaseResult::fail(
                        "oracle:c15:sender_state_differs",
                        format!("endpoint {e} at t={} us: sender state differs between twin runs: {:?} vs {:?}", x.t_us, x.v, y.v),
                    );
                }
            }
            if a.trace.delivs[e].len() != b.trace.delivs[e].len() {
                return CaseResult::fail("oracle:c15:deliveries_differ", format!("endpoint {e}: {} vs {} deliveries", a.trace.delivs[e].len(), b.trace.delivs[e].len()));
            }
        }
        if b.injected > 0 {
            classes.push("injected");
        }
        CaseResult::ok(b.recent > 0, classes)
    }
}

