//! C02 — Reliable packets are never skipped and are eventually delivered.

use crate::engine::*;
use crate::sim::gen::*;
use crate::sim::ledger::*;
use crate::sim::pair::*;
use proptest::prelude::*;

pub struct C02;

#[derive(Clone, Debug, serde::Serialize, serde::Deserialize)]
#[serde(untagged)]
pub enum Case {
    Pair(PairScenario),
    /// the long-haul history of C01 in which a network duplicate of an old ack frame reaches the sender after the packet
    /// ids have come round once (see `c01::stale_ack_history`)
    StaleAck { long_haul: crate::props::c01::LongHaul },
    /// a real Client and Server; packets submitted through the public API, also while the handshake is pending
    Endpoints { endpoints: crate::sim::epstream::EpStream },
}

fn run_endpoints(c: &crate::sim::epstream::EpStream) -> CaseResult {
    let out = crate::sim::epstream::run_epstream(c);
    let mut classes: Vec<&'static str> = vec!["endpoints"];
    let mut has_reliable = false;
    for d in 0..2 {
        let delivered_at = match crate::sim::epstream::check_order(c, &out, d) {
            Ok(v) => v,
            Err(v) => return CaseResult { violation: Some(v), nontrivial: true, classes },
        };
        // never skipped: a packet is not handed over while an earlier Reliable packet of its channel has not been
        for (i, sub) in out.subs[d].iter().enumerate() {
            if sub.2 != 3 {
                continue;
            }
            has_reliable = true;
            for later in out.subs[d][i + 1..].iter().filter(|s| s.1 == sub.1) {
                if let Some(k) = delivered_at[later.0 as usize] {
                    if delivered_at[i].map_or(true, |r| r > k) {
                        return CaseResult::fail(
                            "oracle:c02:endpoints:reliable_skipped",
                            format!("direction {d}: submission {} (channel {}) was delivered as #{k} although the earlier Reliable submission {} of that channel {} ({} packets were submitted before the connection was established)", later.0, sub.1, sub.0, delivered_at[i].map_or("was never delivered".to_string(), |r| format!("came later, as #{r}")), if d == 0 { c.pre_sends.len() } else { 0 }),
                        );
                    }
                }
            }
            // eventually: the fair phase ended with three quiet seconds and the connection is still up
            if out.connected && out.alive && out.settled && delivered_at[i].is_none() {
                return CaseResult::fail(
                    "oracle:c02:endpoints:reliable_never_delivered",
                    format!("direction {d}: Reliable submission {} (channel {}, {} bytes) was never delivered although the network has been loss-free and nothing has moved for 15 virtual minutes; send_buffer_size() client {} / server {}", sub.0, sub.1, sub.3, out.end_buffers[0], out.end_buffers[1]),
                );
            }
        }
    }
    if out.connected && out.alive && out.settled && (out.end_buffers[0] != 0 || out.end_buffers[1] != 0) {
        return CaseResult::fail("oracle:c02:endpoints:send_buffer_not_empty", format!("after the fair phase send_buffer_size() is {} (client) / {} (server)", out.end_buffers[0], out.end_buffers[1]));
    }
    if c.pre_sends.len() >= 2 && out.connected {
        classes.push("endpoints_packets_submitted_before_the_connection_was_established");
    }
    CaseResult::ok(out.faulted > 0 && has_reliable, classes)
}

pub const STALL_US: u64 = 900_000_000; // 15 virtual minutes without any progress indicator moving
fn run_stale_ack(c: &crate::props::c01::LongHaul) -> CaseResult {
    let r = crate::props::c01::stale_ack_history(c);
    let mut classes = r.classes.clone();
    let m = match match_direction(&r.sc, &r.trace, 0) {
        Ok(m) => m,
        Err(v) => return CaseResult { violation: Some(v), nontrivial: true, classes },
    };
    if let Err(v) = check_reliable_not_skipped(&r.trace.subs[0], &m) {
        return CaseResult { violation: Some(v), nontrivial: true, classes };
    }
    if r.complete {
        // the history ends with two seconds (400 steps) in which nothing moved on a loss-free network
        let undelivered = r.trace.subs[0].iter().filter(|sub| sub.mode == 3 && m.sub_delivered[sub.idx as usize].is_none()).count();
        if undelivered > 0 || r.end_pending || r.end_send_buffer != 0 {
            return CaseResult::fail(
                "oracle:c02:stalled:old_ack_duplicate_after_packet_ids_came_round",
                format!(
                    "a network duplicate of an ack frame sent {} packets earlier (one turn of the 20-bit packet ids) reached the sender while the packets just before the id it names had been lost in transit; afterwards, on a loss-free network: {} Reliable packets never delivered, is_send_pending={}, send_buffer_size={}, sender packet window {:?}",
                    1u32 << 20, undelivered, r.end_pending, r.end_send_buffer, r.end_window
                ),
            );
        }
        classes.push("quiescent");
    }
    CaseResult::ok(r.complete, classes)
}

pub const CAP_US: u64 = 6 * 3600 * 1_000_000; // 6 virtual hours

impl Check for C02 {
    type Case = Case;

    fn id(&self) -> &'static str {
        "C02"
    }

    fn strategy(&self, tier: Tier) -> BoxedStrategy<Case> {
        let p = GenParams { max_ticks: tier.pick(150, 400), max_sends: tier.pick(5, 8), max_frags: tier.pick(3, 8), tail: true, chatter: true, modes: [1, 1, 1, 4], ..GenParams::default() };
        let pair = prop_oneof![7 => scenario_strategy(&p), 2 => bulk_scenario_strategy(tier.pick(100, 300), tier.pick(40, 120), true, true)].prop_map(Case::Pair);
        // (a stale-ack case moves more than a million packets: about a second each, hence few)
        let stale = (any::<u64>(), prop_oneof![Just(0u32), 0u32..=PKT_MASK], prop_oneof![Just(0u32), (0u32..100_000).prop_map(|d| u32::MAX - d), any::<u32>()], prop_oneof![Just(0u32), 0u32..20_000], 0u16..3000, 5u8..60, 1u8..6)
            .prop_map(|(seed, pkt_base, frm_base, latency_us, delta, reliable_pct, channels)| Case::StaleAck { long_haul: crate::props::c01::LongHaul { seed, pkt_base, frm_base, latency_us, hold_ms: 2500, delta, reliable_pct, channels, stale_ack: true } });
        let endpoints = crate::sim::epstream::epstream_strategy(tier.pick(150, 400)).prop_map(|endpoints| Case::Endpoints { endpoints });
        prop_oneof![6000 => pair, 1 => stale, 900 => endpoints].boxed()
    }

    fn extra(&self, tier: Tier, seed: u64) -> ExtraResult {
        if tier != Tier::Thorough {
            return ExtraResult::default();
        }
        // coverage-guided search over the same scenario space with the same oracle (harness/fuzz, target pair_oracles)
        crate::props::pairfuzz::pair_fuzz_extra("C02", seed, 120_000, &|sc| self.run(&Case::Pair(sc.clone())), &|sc| serde_json::to_value(sc).unwrap_or_default())
    }

    fn cases(&self, tier: Tier) -> u64 {
        tier.pick(30_000, 1_000_000)
    }

    fn max_shrink_iters(&self) -> u32 {
        600
    }

    fn case_timeout_s(&self) -> u64 {
        120
    }

    fn rule(&self) -> String {
        "case = SimPair scenario as in C01 (all four modes, faults on data / ack / sync frames in both directions, loss bursts, pauses) followed by a fair phase (no faults, both endpoints stepping at a generated cadence). Safety at every delivery: no packet is delivered while an earlier Reliable packet of its channel is undelivered. Bounded liveness: the fair phase must reach quiescence (every Reliable packet delivered exactly once, is_send_pending()==false, send_buffer_size()==0) without any 15-virtual-minute interval in which no progress indicator (deliveries, queue lengths, buffer size, allocation counters) moves. In about 4 of 10 scenarios one application keeps submitting a small packet (any mode, every step up to every 1.5 s) during the fair phase until the OTHER direction has nothing left to do; then only the silent direction is judged, by its own progress indicators, and the talker's packets join the send history. About one case in eight is an Endpoints case: a real Client and Server on a faulty link, packets submitted through the public API - 0-11 of them right after connect(), while the handshake is pending -, then a loss-free phase until both send buffers are empty or nothing has moved for 15 virtual minutes: never skipped, every Reliable packet delivered, both send buffers empty (while the connection is up). A few cases per run are the long-haul history of C01 with a stale acknowledgement: warm-up, 2^20 packets so that the ids come round, a burst (beginning with Reliable packets) whose data frames are all lost, then a network duplicate of the warm-up's last ack frame - its packet window base lies inside the sender's window again -, then 9000 more packets and quiet stepping on a loss-free network: every Reliable packet must arrive, nothing may stay pending. Non-trivial = a frame carrying (part of) a Reliable packet, or an ack frame, was dropped or corrupted, so a retransmission was actually needed. Distinct = distinct serialised scenario.".into()
    }

    fn assumptions(&self) -> Vec<String> {
        vec![
            "liveness is checked as bounded liveness in virtual time: stall window 15 virtual minutes, overall cap 6 virtual hours (reaching the cap while still progressing is counted as class slow_cap, not as a violation)".into(),
            "payload identity convention of C01".into(),
            "known finding D26 is excluded by shape (stall under a talking peer with the starved endpoint's flush credit below 64 bytes over the last 5-10 minutes of the stall window) and counted as class known_d26_acks_exhaust_send_credit".into(),
        ]
    }

    fn run(&self, case: &Case) -> CaseResult {
        let sc = match case {
            Case::Pair(sc) => sc,
            Case::StaleAck { long_haul } => return run_stale_ack(long_haul),
            Case::Endpoints { endpoints } => return run_endpoints(endpoints),
        };
        let mut sc = sc.clone();
        sc.normalize();
        let mut sim = SimPair::new(&sc);
        for t in sc.ticks.iter() {
            sim.run_tick(t);
        }
        let step_us = sc.tail.as_ref().map(|t| t.step_us as u64).unwrap_or(10_000);
        sim.record_stats = false;
        let outcome = sim.run_tail_progress(step_us, STALL_US, CAP_US);
        let stats = [sim.hc[0].verif_stats(), sim.hc[1].verif_stats()];
        let pending = [sim.hc[0].is_send_pending(), sim.hc[1].is_send_pending()];
        let sbs = [sim.hc[0].send_buffer_size(), sim.hc[1].send_buffer_size()];
        let chatted = sim.chatter_packets;
        let talker = sim.chatter.clone();
        let talking_stall = sim.chatter_stall_max_credit;
        let trace = sim.finish();
        let mut classes: Vec<&'static str> = Vec::new();
        if chatted > 0 {
            classes.push("tail_with_talking_peer");
        }

        let mut retrans_needed = false;
        for s in 0..2 {
            let m = match match_direction(&sc, &trace, s) {
                Ok(m) => m,
                Err(v) => return CaseResult { violation: Some(v), nontrivial: true, classes },
            };
            if let Err(v) = check_reliable_not_skipped(&trace.subs[s], &m) {
                return CaseResult { violation: Some(v), nontrivial: true, classes };
            }
            match outcome {
                TailOutcome::Quiescent => {
                    for sub in trace.subs[s].iter() {
                        if sub.mode == 3 && m.sub_delivered[sub.idx as usize].is_none() {
                            return CaseResult::fail(
                                "oracle:c02:reliable_lost_at_quiescence",
                                format!("direction {}->{}: sender reports nothing pending and an empty send buffer, but Reliable submission {} (channel {}, {} bytes) was never delivered", s, 1 - s, sub.idx, sub.ch, sub.size),
                            );
                        }
                    }
                }
                TailOutcome::Stalled { since_us } => {
                    let undelivered = trace.subs[s].iter().filter(|sub| sub.mode == 3 && m.sub_delivered[sub.idx as usize].is_none()).count();
                    if let (Some(max_credit), Some(t)) = (talking_stall, talker.as_ref()) {
                        // the tail stalled while the peer application was still talking: only the silent direction is judged
                        if s == t.e as usize {
                            continue;
                        }
                        // D26: at a send rate so low that acknowledging the peer's frames costs more than the credit
                        // that accrues, acknowledgements (emitted first) take all of it and neither data nor sync
                        // frames are ever emitted. Recognised by the credit never having reached 64 bytes.
                        let key = "oracle:c02:stalled:talking_peer:acks_exhaust_send_credit";
                        if max_credit < 64 && tolerate_known(key) {
                            classes.push("known_d26_acks_exhaust_send_credit");
                            continue;
                        }
                        return CaseResult::fail(
                            if max_credit < 64 { key } else { "oracle:c02:stalled:talking_peer" },
                            format!(
                                "direction {}->{}: fair network since t={} us, endpoint {} keeps submitting one {}-byte packet (mode {}) every {} us; no progress in the other direction since t={} us (now {} us): {} Reliable packets undelivered, is_send_pending={}, send_buffer_size={}, largest flush credit in the last 5 to 10 minutes {} bytes, stats={:?}",
                                s, 1 - s, trace.tail_start_us.unwrap_or(0), t.e, t.size, t.mode, t.gap_us, since_us, trace.end_us, undelivered, pending[s], sbs[s], max_credit, stats[s]
                            ),
                        );
                    }
                    if undelivered > 0 || pending[s] || sbs[s] != 0 {
                        return CaseResult::fail(
                            "oracle:c02:stalled",
                            format!(
                                "direction {}->{}: fair network since t={} us, no progress since t={} us (now {} us): {} Reliable packets undelivered, is_send_pending={}, send_buffer_size={}, stats={:?}",
                                s, 1 - s, trace.tail_start_us.unwrap_or(0), since_us, trace.end_us, undelivered, pending[s], sbs[s], stats[s]
                            ),
                        );
                    }
                }
                TailOutcome::Cap => {}
            }
            // was a retransmission needed?
            for w in trace.wire[s].iter() {
                if matches!(w.fate, Fate::Drop | Fate::Corrupt(_)) {
                    retrans_needed = true;
                }
            }
        }
        match outcome {
            TailOutcome::Quiescent => classes.push("quiescent"),
            TailOutcome::Cap => classes.push("slow_cap"),
            TailOutcome::Stalled { .. } => classes.push("stalled_but_nothing_owed"),
        }
        let tail_s = (trace.end_us - trace.tail_start_us.unwrap_or(trace.end_us)) / 1_000_000;
        classes.push(match tail_s {
            0..=9 => "tail_under_10s",
            10..=119 => "tail_10s_2min",
            120..=3599 => "tail_2min_1h",
            _ => "tail_over_1h",
        });
        if trace.subs[0].iter().chain(trace.subs[1].iter()).any(|s| s.mode == 3) {
            classes.push("has_reliable");
        }
        crate::props::c01::wrap_classes(&sc, &trace, &mut classes);
        CaseResult::ok(retrans_needed && classes.contains(&"has_reliable"), classes)
    }
}
