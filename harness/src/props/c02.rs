//! C02 — Reliable packets are never skipped and are eventually delivered.

use crate::engine::*;
use crate::sim::gen::*;
use crate::sim::ledger::*;
use crate::sim::pair::*;
use proptest::prelude::*;

pub struct C02;

pub const STALL_US: u64 = 900_000_000; // 15 virtual minutes without any progress indicator moving
pub const CAP_US: u64 = 6 * 3600 * 1_000_000; // 6 virtual hours

impl Check for C02 {
    type Case = PairScenario;

    fn id(&self) -> &'static str {
        "C02"
    }

    fn strategy(&self, tier: Tier) -> BoxedStrategy<PairScenario> {
        let p = GenParams { max_ticks: tier.pick(150, 400), max_sends: tier.pick(5, 8), max_frags: tier.pick(3, 8), tail: true, modes: [1, 1, 1, 4], ..GenParams::default() };
        prop_oneof![7 => scenario_strategy(&p), 2 => bulk_scenario_strategy(tier.pick(100, 300), tier.pick(40, 120), true, true)].boxed()
    }

    fn cases(&self, tier: Tier) -> u64 {
        tier.pick(30_000, 1_000_000)
    }

    fn max_shrink_iters(&self) -> u32 {
        600
    }

    fn case_timeout_s(&self) -> u64 {
        120
    }

    fn rule(&self) -> String {
        "case = SimPair scenario as in C01 (all four modes, faults on data / ack / sync frames in both directions, loss bursts, pauses) followed by a fair phase (no faults, both endpoints stepping at a generated cadence). Safety at every delivery: no packet is delivered while an earlier Reliable packet of its channel is undelivered. Bounded liveness: the fair phase must reach quiescence (every Reliable packet delivered exactly once, is_send_pending()==false, send_buffer_size()==0) without any 15-virtual-minute interval in which no progress indicator (deliveries, queue lengths, buffer size, allocation counters) moves. Non-trivial = a frame carrying (part of) a Reliable packet, or an ack frame, was dropped or corrupted, so a retransmission was actually needed. Distinct = distinct serialised scenario.".into()
    }

    fn assumptions(&self) -> Vec<String> {
        vec![
            "liveness is checked as bounded liveness in virtual time: stall window 15 virtual minutes, overall cap 6 virtual hours (reaching the cap while still progressing is counted as class slow_cap, not as a violation)".into(),
            "payload identity convention of C01".into(),
        ]
    }

    fn run(&self, sc: &PairScenario) -> CaseResult {
        let mut sc = sc.clone();
        sc.normalize();
        let mut sim = SimPair::new(&sc);
        for t in sc.ticks.iter() {
            sim.run_tick(t);
        }
        let step_us = sc.tail.as_ref().map(|t| t.step_us as u64).unwrap_or(10_000);
        sim.record_stats = false;
        let outcome = sim.run_tail_progress(step_us, STALL_US, CAP_US);
        let stats = [sim.hc[0].verif_stats(), sim.hc[1].verif_stats()];
        let pending = [sim.hc[0].is_send_pending(), sim.hc[1].is_send_pending()];
        let sbs = [sim.hc[0].send_buffer_size(), sim.hc[1].send_buffer_size()];
        let trace = sim.finish();
        let mut classes: Vec<&'static str> = Vec::new();

        let mut retrans_needed = false;
        for s in 0..2 {
            let m = match match_direction(&sc, &trace, s) {
                Ok(m) => m,
                Err(v) => return CaseResult { violation: Some(v), nontrivial: true, classes },
            };
            if let Err(v) = check_reliable_not_skipped(&trace.subs[s], &m) {
                return CaseResult { violation: Some(v), nontrivial: true, classes };
            }
            match outcome {
                TailOutcome::Quiescent => {
                    for sub in trace.subs[s].iter() {
                        if sub.mode == 3 && m.sub_delivered[sub.idx as usize].is_none() {
                            return CaseResult::fail(
                                "oracle:c02:reliable_lost_at_quiescence",
                                format!("direction {}->{}: sender reports nothing pending and an empty send buffer, but Reliable submission {} (channel {}, {} bytes) was never delivered", s, 1 - s, sub.idx, sub.ch, sub.size),
                            );
                        }
                    }
                }
                TailOutcome::Stalled { since_us } => {
                    let undelivered = trace.subs[s].iter().filter(|sub| sub.mode == 3 && m.sub_delivered[sub.idx as usize].is_none()).count();
                    if undelivered > 0 || pending[s] || sbs[s] != 0 {
                        return CaseResult::fail(
                            "oracle:c02:stalled",
                            format!(
                                "direction {}->{}: fair network since t={} us, no progress since t={} us (now {} us): {} Reliable packets undelivered, is_send_pending={}, send_buffer_size={}, stats={:?}",
                                s, 1 - s, trace.tail_start_us.unwrap_or(0), since_us, trace.end_us, undelivered, pending[s], sbs[s], stats[s]
                            ),
                        );
                    }
                }
                TailOutcome::Cap => {}
            }
            // was a retransmission needed?
            for w in trace.wire[s].iter() {
                if matches!(w.fate, Fate::Drop | Fate::Corrupt(_)) {
                    retrans_needed = true;
                }
            }
        }
        match outcome {
            TailOutcome::Quiescent => classes.push("quiescent"),
            TailOutcome::Cap => classes.push("slow_cap"),
            TailOutcome::Stalled { .. } => classes.push("stalled_but_nothing_owed"),
        }
        let tail_s = (trace.end_us - trace.tail_start_us.unwrap_or(trace.end_us)) / 1_000_000;
        classes.push(match tail_s {
            0..=9 => "tail_under_10s",
            10..=119 => "tail_10s_2min",
            120..=3599 => "tail_2min_1h",
            _ => "tail_over_1h",
        });
        if trace.subs[0].iter().chain(trace.subs[1].iter()).any(|s| s.mode == 3) {
            classes.push("has_reliable");
        }
        crate::props::c01::wrap_classes(&sc, &trace, &mut classes);
        CaseResult::ok(retrans_needed && classes.contains(&"has_reliable"), classes)
    }
}
