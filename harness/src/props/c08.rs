//! C08 — per-connection event stream is well-formed; nothing after the end.

use crate::engine::*;
use crate::sim::script::*;
use crate::sim::world::*;
use proptest::prelude::*;
use uflow::verif::Serialize as _;

pub struct C08;

pub fn params(tier: Tier) -> ScriptParams {
    ScriptParams {
        max_clients: tier.pick(3, 6),
        max_ops: tier.pick(120, 400),
        faults: true,
        disconnect_weight: 3,
        drop_weight: 1,
        send_weight: 8,
        timeouts: vec![1500, 3000, 20000],
        big_jumps: true,
        settle_us: 50_000_000,
        replay_weight: 2, vary_server_limits: true,
        stray_weight: 3,
        reconnect_weight: 2,
    }
}

/// Event-stream automaton shared with C09.
pub fn check_event_streams(log: &WorldLog) -> Result<(), Violation> {
    let w = &log.world;
    // clients
    // (every Client object that ever existed: a client that connected again from the same address has a slot of its own)
    for (k, slot) in w.clients.iter().enumerate() {
        let mut state = 0; // 0 init, 1 connected, 2 ended
        for (_, t, e) in slot.events.iter() {
            let name = match e {
                CEv::Connect => "Connect",
                CEv::Disconnect => "Disconnect",
                CEv::Receive(_) => "Receive",
                CEv::Error(_) => "Error",
            };
            if state == 2 {
                return Err(Violation::new(format!("oracle:c08:client_event_after_end:{name}"), format!("client {k} reported {name} at t={t} us after its terminal event")));
            }
            match e {
                CEv::Connect => {
                    if state != 0 {
                        return Err(Violation::new("oracle:c08:client_connect_twice", format!("client {k} reported Connect twice (t={t} us)")));
                    }
                    state = 1;
                }
                CEv::Receive(_) | CEv::Disconnect => {
                    if state != 1 {
                        return Err(Violation::new(format!("oracle:c08:client_{}_without_connect", name.to_lowercase()), format!("client {k} reported {name} at t={t} us without a preceding Connect")));
                    }
                    if matches!(e, CEv::Disconnect) {
                        state = 2;
                    }
                }
                CEv::Error(_) => state = 2,
            }
        }
    }
    // server, per address
    let mut addrs: Vec<std::net::SocketAddr> = w.server_events.iter().map(|(_, _, e)| match e {
        SEv::Connect(a) | SEv::Disconnect(a) | SEv::Receive(a, _) | SEv::Error(a, _) => *a,
    }).collect();
    addrs.sort();
    addrs.dedup();
    for a in addrs {
        let k = w.addr_to_client.get(&a).copied();
        let drops: Vec<u64> = log.api.iter().filter_map(|(s, _, api)| match api {
            Api::ServerDrop { c } if log.ci[*c] == k && k.is_some() => Some(*s),
            _ => None,
        }).collect();
        let mut state = 0; // 0 no connection, 1 connected
        let mut connected_seq = 0u64;
        // handshake attempts of this address: the first SYN-ACK of each nonce, or a refusal, sent by the server
        let mut attempts: Vec<u64> = Vec::new();
        {
            let mut last_nonce: Option<u32> = None;
            for r in w.wire.iter().filter(|r| r.from == w.server_addr && r.to == a) {
                match uflow::verif::Frame::read(&r.bytes) {
                    Some(uflow::verif::Frame::HandshakeSynAckFrame(f)) => {
                        if last_nonce != Some(f.nonce) {
                            attempts.push(r.seq);
                            last_nonce = Some(f.nonce);
                        }
                    }
                    Some(uflow::verif::Frame::HandshakeErrorFrame(_)) => attempts.push(r.seq),
                    _ => {}
                }
            }
        }
        // everything up to this point in the event order has been accounted to a finished connection / attempt
        let mut consumed_until = 0u64;
        for (seq, t, e) in w.server_events.iter() {
            let (ea, name) = match e {
                SEv::Connect(x) => (x, "Connect"),
                SEv::Disconnect(x) => (x, "Disconnect"),
                SEv::Receive(x, _) => (x, "Receive"),
                SEv::Error(x, _) => (x, "Error"),
            };
            if *ea != a {
                continue;
            }
            // an application drop() ends the connection without an event
            if state == 1 {
                if let Some(d) = drops.iter().find(|d| **d > connected_seq && **d < *seq) {
                    state = 0;
                    consumed_until = *d;
                }
            }
            match e {
                SEv::Connect(_) => {
                    if state == 1 {
                        return Err(Violation::new("oracle:c08:server_connect_before_previous_end", format!("server reported Connect({a}) at t={t} us while the previous connection of that address had neither ended nor been dropped")));
                    }
                    state = 1;
                    connected_seq = *seq;
                    consumed_until = *seq;
                }
                SEv::Receive(..) | SEv::Disconnect(_) => {
                    if state != 1 {
                        return Err(Violation::new(format!("oracle:c08:server_{}_without_connection", name.to_lowercase()), format!("server reported {name}({a}) at t={t} us for an address with no connection (never connected, already ended, or dropped by the application)")));
                    }
                    if matches!(e, SEv::Disconnect(_)) {
                        state = 0;
                        consumed_until = *seq;
                    }
                }
                SEv::Error(_, err) => {
                    if state == 0 {
                        // an Error without a connection is the end of a handshake attempt: there must be one
                        // (a SYN-ACK or refusal sent to this address) that no earlier event accounts for
                        // (a refusal is put on the wire by the same step() that reports the Error; the wire log of a
                        // step is numbered after its events, hence the bound is the beginning of the next step)
                        let step_end = w.server_steps.iter().map(|p| p.0).find(|s| *s > *seq).unwrap_or(u64::MAX);
                        let matched = attempts.iter().copied().find(|s| *s > consumed_until && *s < step_end);
                        if let Some(m) = matched {
                            // each attempt accounts for one Error only
                            consumed_until = m.max(*seq);
                            state = 0;
                            continue;
                        }
                        {
                            return Err(Violation::new(
                                format!("oracle:c08:server_error_without_connection_or_attempt:{:?}", err),
                                format!("server reported Error({a}, {:?}) at t={t} us although that address has neither a connection (never connected, already ended, or dropped by the application) nor an unanswered handshake attempt", err),
                            ));
                        }
                    }
                    state = 0;
                    consumed_until = *seq;
                }
            }
        }
    }
    Ok(())
}

pub fn script_classes(c: &WCase, log: &WorldLog, classes: &mut Vec<&'static str>) -> bool {
    let w = &log.world;
    let disc = log.api.iter().filter(|(_, _, a)| matches!(a, Api::ClientDisconnect { .. } | Api::ServerDisconnect { .. })).count();
    let drops = log.api.iter().filter(|(_, _, a)| matches!(a, Api::ServerDrop { .. })).count();
    let faults = w.wire.iter().filter(|r| !matches!(r.fate, Fate::Deliver(0))).count();
    if disc > 0 {
        classes.push("disconnect_called");
    }
    if drops > 0 {
        classes.push("server_drop");
    }
    if faults > 0 {
        classes.push("frames_faulted");
    }
    // both sides of one connection asked to disconnect
    for k in 0..c.clients.len() {
        let cd = log.api.iter().any(|(_, _, a)| matches!(a, Api::ClientDisconnect { c, .. } if *c == k));
        let sd = log.api.iter().any(|(_, _, a)| matches!(a, Api::ServerDisconnect { c, .. } if *c == k));
        if cd && sd {
            classes.push("both_sides_disconnect");
        }
    }
    if w.wire.iter().any(|r| r.bytes.first() == Some(&4) && matches!(r.fate, Fate::Dup(..))) {
        classes.push("duplicated_disconnect_frame");
    }
    if w.server_events.iter().any(|(_, _, e)| matches!(e, SEv::Error(_, SErr::Timeout))) || w.clients.iter().any(|c| c.events.iter().any(|(_, _, e)| matches!(e, CEv::Error(SErr::Timeout)))) {
        classes.push("timeout_event");
    }
    if w.clients.iter().any(|c| c.events.iter().any(|(_, _, e)| matches!(e, CEv::Disconnect))) {
        classes.push("client_saw_disconnect");
    }
    if w.server_events.iter().any(|(_, _, e)| matches!(e, SEv::Disconnect(_))) {
        classes.push("server_saw_disconnect");
    }
    if log.reconnects > 0 {
        classes.push("client_reconnected_from_same_address");
        // the server reported a second connection for an address
        let mut seen = std::collections::HashSet::new();
        if w.server_events.iter().any(|(_, _, e)| matches!(e, SEv::Connect(a) if !seen.insert(*a))) {
            classes.push("server_connected_same_address_twice");
        }
    }
    (disc + drops > 0) && faults > 0
}

impl Check for C08 {
    type Case = WCase;

    fn id(&self) -> &'static str {
        "C08"
    }

    fn strategy(&self, tier: Tier) -> BoxedStrategy<WCase> {
        wcase_strategy(&params(tier))
    }

    fn cases(&self, tier: Tier) -> u64 {
        tier.pick(90_000, 1_000_000)
    }

    fn max_shrink_iters(&self) -> u32 {
        1500
    }

    fn rule(&self) -> String {
        "case = World script: a real Server and 1-3 (quick) real Clients (active timeouts 1.5 / 3 / 20 s, keepalive on or off) on links with per-datagram fates (delay, drop, duplicate up to 3 s apart, corrupt) and blackouts, driven by a generated interleaving of send (both directions, all modes), disconnect, disconnect_now, Server::drop, flush, client applications that drop their Client and connect again from the same local address, and ticks that step the server and an arbitrary subset of clients with spacings from 0 to 25 s (clock jumps across the 2 s / 20 s / 22 s timers), followed by 50 s of regular stepping. Oracle: an automaton per connection over the iterators returned by step(): client [Connect] Receive* [Disconnect | Error] then silence, Receive / Disconnect only after Connect, Connect at most once; server per address the same, a new Connect only after the previous connection's terminal event or an application drop(addr), and nothing for a dropped connection; an Error for an address without a connection must be the end of a handshake attempt (a SYN-ACK or refusal was sent to it since). Non-trivial = at least one disconnect / drop call and at least one faulted datagram. Distinct = distinct serialised case.".into()
    }

    fn assumptions(&self) -> Vec<String> {
        vec!["an Error reported for an address without a preceding Connect (enable_handshake_errors) is a failed attempt: a terminal event of its own".into()]
    }

    fn sample(&self, case: &WCase) -> serde_json::Value {
        truncate_value(serde_json::to_value(case).unwrap(), 1)
    }

    fn run(&self, c: &WCase) -> CaseResult {
        let log = run_script(c);
        if std::env::var_os("VERIF_DEBUG").is_some() {
            for (k, cl) in log.world.clients.iter().enumerate() {
                eprintln!("client {k} events: {:?}", cl.events.iter().map(|e| (e.1, match &e.2 { CEv::Receive(d) => format!("Receive({})", d.len()), o => format!("{:?}", o) })).collect::<Vec<_>>());
            }
            eprintln!("server events: {:?}", log.world.server_events.iter().map(|e| (e.1, match &e.2 { SEv::Receive(a, d) => format!("Receive({a},{})", d.len()), o => format!("{:?}", o) })).collect::<Vec<_>>());
            let mut last = (0u64, String::new(), 0u32);
            for r in log.world.wire.iter() {
                let tag = format!("{}->{} type {} {:?}", r.from.port(), r.to.port(), r.bytes.first().copied().unwrap_or(255), r.fate);
                if tag == last.1 && r.t_us - last.0 < 200_000 { last.2 += 1; last.0 = r.t_us; continue; }
                if last.2 > 0 { eprintln!("    ... {} more", last.2); }
                eprintln!("  t={} {tag} len={}", r.t_us, r.bytes.len());
                last = (r.t_us, tag, 0);
            }
        }
        let mut classes = Vec::new();
        if let Err(v) = check_event_streams(&log) {
            return CaseResult { violation: Some(v), nontrivial: true, classes };
        }
        let nt = script_classes(c, &log, &mut classes);
        classes.sort();
        classes.dedup();
        CaseResult::ok(nt, classes)
    }
}
