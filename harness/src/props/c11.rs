//! C11 — no loss pattern stalls a connection permanently.

use crate::engine::*;
use crate::sim::gen::*;
use crate::sim::ledger::*;
use crate::sim::pair::*;
use proptest::prelude::*;
use serde::{Deserialize, Serialize};

#[derive(Clone, Debug, Serialize, Deserialize)]
pub struct Case {
    pub dirs: [DirCfg; 2],
    pub seed: u64,
    pub keepalive_ms: Option<u32>,
    pub latency_us: [u32; 2],
    pub period_us: u32,
    pub warm_ticks: u16,
    /// per warm-up tick, endpoint 0 (and 1 if `both`) submits warm[k % len] (size 0 = nothing)
    pub warm: Vec<SendSpec>,
    pub both: bool,
    /// burst submitted by endpoint 0 (and 1 if `both`) when the fault phase starts
    pub fill: Vec<SendSpec>,
    /// bit 0: link 0->1, bit 1: link 1->0
    pub black_links: u8,
    /// bit 0 data, bit 1 ack, bit 2 sync
    pub black_kinds: u8,
    pub black_len_us: u64,
    pub keep_sending: bool,
    /// latency and cadence multipliers applied when the fault phase ends (per mille)
    pub latency_mul: u32,
    pub period_mul: u32,
    pub probe_count: u16,
    pub probe_gap_ticks: u8,
    pub probe_size: u32,
}

pub struct C11;

pub const STALL_US: u64 = 900_000_000;
const FLOOR: f64 = 23.0;

fn case_strategy(tier: Tier) -> BoxedStrategy<Case> {
    let p = GenParams { max_frags: 3, modes: [1, 2, 2, 3], ..GenParams::default() };
    let p2 = GenParams { small_windows: false, tight_alloc: false, ..p.clone() };
    let dir = prop_oneof![2 => dir_strategy(&p), 1 => dir_strategy(&p2)];
    let dir_b = prop_oneof![2 => dir_strategy(&p), 1 => dir_strategy(&p2)];
    let spec = send_strategy(&p);
    let black_len = prop_oneof![2 => 0u64..300_000, 3 => 300_000u64..5_000_000, 3 => 5_000_000u64..60_000_000, 1 => 60_000_000u64..tier.pick(600_000_000, 7_200_000_000)];
    let mul = prop_oneof![4 => Just(1000u32), 2 => Just(10_000u32), 2 => Just(100u32), 1 => 100u32..10_000];
    (
        (dir, dir_b, any::<u64>(), proptest::option::weighted(0.7, prop_oneof![Just(1000u32), Just(5000u32)])),
        (prop_oneof![2 => 0u32..2_000, 3 => 2_000u32..40_000, 1 => 40_000u32..250_000], prop_oneof![2 => 0u32..2_000, 3 => 2_000u32..40_000, 1 => 40_000u32..250_000]),
        prop_oneof![1 => Just(1_000u32), 2 => Just(5_000u32), 3 => Just(16_000u32), 3 => Just(30_000u32), 1 => Just(100_000u32)],
        (0u16..150, proptest::collection::vec(spec.clone(), 1..6), any::<bool>()),
        proptest::collection::vec(spec, 0..tier.pick(80, 400)),
        (1u8..4, prop_oneof![3 => Just(7u8), 2 => Just(1u8), 2 => Just(2u8), 1 => Just(3u8), 1 => Just(6u8), 1 => Just(5u8)], black_len, any::<bool>()),
        (mul.clone(), mul),
        (1u16..40, 1u8..6, prop_oneof![Just(4u32), 4u32..200, 200u32..3000]),
    )
        .prop_map(|((d0, d1, seed, keepalive_ms), (l0, l1), period_us, (warm_ticks, warm, both), fill, (black_links, black_kinds, black_len_us, keep_sending), (latency_mul, period_mul), (probe_count, probe_gap_ticks, probe_size))| Case {
            dirs: [d0, d1],
            seed,
            keepalive_ms,
            latency_us: [l0, l1],
            period_us,
            warm_ticks,
            warm,
            both,
            fill,
            black_links,
            black_kinds,
            black_len_us,
            keep_sending,
            latency_mul,
            period_mul,
            probe_count,
            probe_gap_ticks,
            probe_size,
        })
        .boxed()
}

impl Check for C11 {
    type Case = Case;

    fn id(&self) -> &'static str {
        "C11"
    }

    fn strategy(&self, tier: Tier) -> BoxedStrategy<Case> {
        case_strategy(tier)
    }

    fn cases(&self, tier: Tier) -> u64 {
        tier.pick(24_000, 200_000)
    }

    fn max_shrink_iters(&self) -> u32 {
        500
    }

    fn case_timeout_s(&self) -> u64 {
        180
    }

    fn rule(&self) -> String {
        "case = warm-up (regular cadence 1..100 ms, light traffic in one or both directions) -> fault phase (blackout of 0..10 min quick / ..2 h thorough on one or both links, of all frames or only data / only acks / only sync, entered with a burst that fills the packet / frame windows and the receive allocation, optionally with continued sending) -> step change of latency and / or cadence by x0.1..x10 -> fair phase in which a stream of probe packets of every mode is submitted. Oracle in the fair phase: (i) no 15-virtual-minute interval in which data is pending and no progress indicator moves; (ii) every non-TimeSensitive probe is delivered and, if at least three TimeSensitive probes were submitted while the sender was idle, at least one of them is; (iii) once the probes are through and at least 400 further small packets have been delivered on the fair network, the allowed send rate exceeds 4 x the s/64 floor (checked when the RTT estimate is at most 2 s). Non-trivial = the fault phase lasted longer than the sender's RTO (>= 2 s) or ended with a full window / exhausted allocation. Distinct = distinct serialised case.".into()
    }

    fn assumptions(&self) -> Vec<String> {
        vec![
            "liveness is bounded liveness in virtual time (stall window 15 min); the fair phase keeps the post-change cadence for its first 30 s and is then coarsened as in C02".into(),
            "the rate clause uses verif_stats().send_rate (the only place the allowed rate is observable)".into(),
        ]
    }

    fn sample(&self, case: &Case) -> serde_json::Value {
        truncate_value(serde_json::to_value(case).unwrap(), 1)
    }

    fn run(&self, c: &Case) -> CaseResult {
        let mut classes: Vec<&'static str> = Vec::new();
        // assemble the base scenario (for normalisation of limits and payload identity)
        let mut all_sends: Vec<SendSpec> = Vec::new();
        all_sends.extend(c.warm.iter().cloned());
        all_sends.extend(c.fill.iter().cloned());
        all_sends.push(SendSpec { ch: 0, mode: 3, size: c.probe_size.max(4) });
        all_sends.push(SendSpec { ch: 0, mode: 3, size: 100 });
        let mut sc = PairScenario {
            dirs: c.dirs.clone(),
            keepalive_ms: c.keepalive_ms,
            seed: c.seed,
            zero_ch: 0,
            zero_mode: 1,
            links: [LinkCfg { latency_us: c.latency_us[0], fates: vec![] }, LinkCfg { latency_us: c.latency_us[1], fates: vec![] }],
            ticks: vec![Tick { dt_us: 0, acts: [EpAct { step: false, sends: all_sends.clone(), flushes: 0 }, EpAct { step: false, sends: all_sends, flushes: 0 }] }],
            tail: None,
            premature_acks: Vec::new(),
        };
        sc.normalize();
        let norm = |s: &SendSpec| -> SendSpec {
            let mut s = s.clone();
            s.ch %= 64;
            s.mode %= 4;
            if s.size < 4 {
                s.size += 4;
            }
            s
        };
        let mut sim = SimPair::new(&sc);
        sim.record_wire = true;
        let period = c.period_us.max(1) as u64;
        let eps: &[usize] = if c.both { &[0, 1] } else { &[0] };

        // ---- warm-up ---------------------------------------------------------------------------
        for k in 0..c.warm_ticks as usize {
            sim.advance(period);
            for e in 0..2 {
                sim.endpoint_step(e);
            }
            for &e in eps {
                let s = norm(&c.warm[k % c.warm.len()]);
                sim.submit(e, &s);
                sim.flush(e);
            }
            sim.tick_no += 1;
        }
        // ---- fault phase -------------------------------------------------------------------------
        let t_fault = sim.now_us;
        for l in 0..2 {
            if c.black_links & (1 << l) != 0 {
                sim.blackout[l] = (t_fault + c.black_len_us, c.black_kinds);
            }
        }
        for &e in eps {
            for s in c.fill.iter() {
                sim.submit(e, &norm(s));
            }
        }
        let mut k = 0usize;
        sim.record_stats = false;
        while sim.now_us < t_fault + c.black_len_us {
            // long blackouts are stepped at the warm-up cadence for 20 s, then at >= 100 ms
            let dt = if sim.now_us - t_fault > 20_000_000 { period.max(100_000) } else { period };
            sim.advance(dt);
            for e in 0..2 {
                sim.endpoint_step(e);
            }
            if c.keep_sending && k % 8 == 0 && k < 4000 {
                for &e in eps {
                    let s = norm(&c.warm[k % c.warm.len()]);
                    sim.submit(e, &s);
                }
            }
            k += 1;
            sim.tick_no += 1;
        }
        let full_at_end = (0..2).any(|e| {
            let st = sim.hc[e].verif_stats();
            st.send_queue_len > 0 && st.pending_queue_len == 0
        });
        // ---- step change ---------------------------------------------------------------------------
        for l in 0..2 {
            let lat = (c.latency_us[l] as u64 * c.latency_mul as u64 / 1000).min(2_000_000) as u32;
            sim.set_latency(l, lat);
        }
        let period2 = (period * c.period_mul as u64 / 1000).clamp(1_000, 1_000_000);
        // ---- fair phase with probes ---------------------------------------------------------------
        sim.fair = true;
        let t_fair = sim.now_us;
        sim.trace.tail_start_us = Some(t_fair);
        let mut probe_ids: [Vec<(u32, u8)>; 2] = [Vec::new(), Vec::new()];
        let mut probes_left = c.probe_count as usize;
        let mut extra_left = 0usize;
        let mut extra_started = false;
        let mut last_sig = sim.progress_signature();
        let mut last_progress = sim.now_us;
        let mut tick = 0u64;
        let mut deliv_at_extra_start = [0usize; 2];
        let mut pinned: Option<String> = None;
        loop {
            let idle = sim.now_us - last_progress;
            let cur = if idle > 5_000_000 {
                period2.max(100_000)
            } else if sim.now_us - t_fair > 30_000_000 {
                period2.max(20_000)
            } else {
                period2
            };
            sim.advance(cur);
            for e in 0..2 {
                sim.endpoint_step(e);
            }
            tick += 1;
            sim.tick_no += 1;
            if probes_left > 0 && tick % c.probe_gap_ticks.max(1) as u64 == 0 {
                let mode = (probes_left % 4) as u8;
                for &e in eps {
                    // a TimeSensitive probe can only be expected to go out if the sender is idle
                    // (nothing queued or unacknowledged, non-negative credit) when it is submitted
                    let st = sim.hc[e].verif_stats();
                    let idle = !sim.hc[e].is_send_pending() && sim.hc[e].send_buffer_size() == 0 && st.flush_alloc >= 0;
                    let idx = sim.submit(e, &SendSpec { ch: (probes_left % 3) as u8, mode, size: c.probe_size.max(4) });
                    sim.flush(e);
                    probe_ids[e].push((idx, if mode == 0 && !idle { 4 } else { mode }));
                }
                probes_left -= 1;
            }
            let q = sim.quiescent();
            if probes_left == 0 && q && !extra_started {
                // rate clause: a stream of small packets over the now loss-free link
                extra_started = true;
                extra_left = 450;
                deliv_at_extra_start = [sim.trace.delivs[0].len(), sim.trace.delivs[1].len()];
            }
            if extra_started && extra_left > 0 {
                // one small reliable packet per tick, as long as the previous ones are not piling up
                if sim.hc[0].verif_stats().send_queue_len < 8 {
                    sim.submit(0, &SendSpec { ch: 5, mode: 3, size: 100 });
                    sim.flush(0);
                    extra_left -= 1;
                }
            }
            if extra_started && extra_left == 0 && sim.quiescent() {
                let got = sim.trace.delivs[1].len() - deliv_at_extra_start[1];
                let rate = sim.hc[0].verif_stats().send_rate;
                // (TFRC's own equations guarantee a rate far above this only for moderate RTT estimates)
                if got >= 400 && rate <= 4.0 * FLOOR && sim.hc[0].rtt_s().map_or(false, |r| r <= 2.0) {
                    pinned = Some(format!("after the fault phase, {} further packets were delivered over a loss-free link (RTT estimate {:?}), yet the allowed send rate is still {} B/s", got, sim.hc[0].rtt_s(), rate));
                }
                break;
            }
            let sig = sim.progress_signature();
            if sig != last_sig {
                last_sig = sig;
                last_progress = sim.now_us;
            } else if sim.now_us - last_progress >= STALL_US && !sim.quiescent() {
                let st = [sim.hc[0].verif_stats(), sim.hc[1].verif_stats()];
                return CaseResult::fail(
                    "oracle:c11:stalled",
                    format!(
                        "fair network since t={} us; no progress since t={} us (now {} us) with data pending. endpoint 0: {:?} rtt {:?}; endpoint 1: {:?} rtt {:?}",
                        t_fair, last_progress, sim.now_us, st[0], sim.hc[0].rtt_s(), st[1], sim.hc[1].rtt_s()
                    ),
                );
            }
            if sim.now_us - t_fair > 12 * 3600 * 1_000_000 {
                classes.push("fair_phase_cap_reached");
                break;
            }
        }
        if let Some(msg) = pinned {
            return CaseResult::fail("oracle:c11:pinned_at_minimum_rate", msg);
        }
        let trace = sim.finish();
        // ---- probes delivered ---------------------------------------------------------------------
        if !classes.contains(&"fair_phase_cap_reached") {
            for &s in eps {
                let m = match match_direction(&sc, &trace, s) {
                    Ok(m) => m,
                    Err(mut v) => {
                        v.key = v.key.replace("oracle:c01:", "oracle:c11:ledger:");
                        return CaseResult { violation: Some(v), nontrivial: true, classes };
                    }
                };
                let mut ts_total = 0;
                let mut ts_delivered = 0;
                for (idx, mode) in probe_ids[s].iter() {
                    let d = m.sub_delivered[*idx as usize].is_some();
                    if *mode == 4 {
                        // TimeSensitive probe submitted while the sender was busy: may be dropped
                        continue;
                    }
                    if *mode == 0 {
                        ts_total += 1;
                        if d {
                            ts_delivered += 1;
                        }
                    } else if !d && *mode == 3 {
                        return CaseResult::fail(format!("oracle:c11:probe_not_delivered:mode{mode}"), format!("direction {}->{}: Reliable probe (submission {idx}) submitted after the fault phase was never delivered although the connection went quiescent", s, 1 - s));
                    } else if !d {
                        // Unreliable / Persistent probes may only be missing if nothing was lost: the fair network loses nothing
                        return CaseResult::fail(format!("oracle:c11:probe_not_delivered:mode{mode}"), format!("direction {}->{}: probe (submission {idx}, mode {mode}) submitted after the fault phase was never delivered on a loss-free network", s, 1 - s));
                    }
                }
                if ts_total >= 3 && ts_delivered == 0 {
                    return CaseResult::fail("oracle:c11:no_time_sensitive_probe_delivered", format!("direction {}->{}: none of {ts_total} TimeSensitive probes was delivered", s, 1 - s));
                }
            }
        }
        if c.black_len_us >= 2_000_000 {
            classes.push("blackout_longer_than_rto");
        }
        if c.black_len_us >= 60_000_000 {
            classes.push("blackout_over_1min");
        }
        if full_at_end {
            classes.push("windows_or_allocation_full_at_end_of_fault_phase");
        }
        if c.latency_mul != 1000 {
            classes.push("latency_step_change");
        }
        if c.period_mul != 1000 {
            classes.push("cadence_step_change");
        }
        match c.black_kinds {
            7 => classes.push("blackout_all_frames"),
            1 => classes.push("blackout_data_only"),
            2 => classes.push("blackout_acks_only"),
            _ => classes.push("blackout_mixed_kinds"),
        }
        CaseResult::ok(c.black_len_us >= 2_000_000 || full_at_end, classes)
    }
}
