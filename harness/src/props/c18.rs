//! C18 — unverified addresses cannot use the server as an amplifier.

use crate::engine::*;
use crate::sim::world::*;
use proptest::prelude::*;
use serde::{Deserialize, Serialize};
use std::collections::HashMap;
use uflow::verif::Serialize as _;
use uflow::verif::*;

#[derive(Clone, Debug, Serialize, Deserialize)]
pub enum Kind {
    /// well-formed padded connection request
    Syn { version: u8, nonce: u32, rate: u32, size: u32, alloc: u32 },
    /// the same request as this address sent last time (or a fresh one)
    RepeatSyn,
    /// a SYN-typed frame of `len` bytes (< 1472) with a valid checksum
    ShortSyn { len: u16, fill: u8 },
    /// a handshake ACK with an arbitrary nonce
    Ack { nonce: u32 },
    /// any other frame type
    Stray { kind: u8, a: u32, b: u32 },
    /// raw bytes
    Raw { bytes: Vec<u8>, fix_crc: bool },
    /// `count` copies of the smallest frame of the given kind (0 empty data frame, 1 sync, 2 dud ack, 3 disconnect,
    /// 4 disconnect-ack, 5 handshake ack, 6 empty data frames numbered upwards from the nonce of this address's own
    /// latest SYN - what a real client's first data frames look like), one per server step
    TinyBurst { kind: u8, count: u16 },
    /// a handshake ACK carrying the nonce of the latest SYN-ACK the server sent to ANOTHER address (what an attacker
    /// who owns that other address can learn and replay under a spoofed source)
    CrossAck { from: u8 },
    /// a slow drip: `count` minimum-size frames of the given kind (as in TinyBurst), one every `every_ms` (below and
    /// around the 2 s resend interval), for minutes - nothing an unverified address sends may keep its handshake alive
    Drip { kind: u8, count: u16, every_ms: u16 },
}

#[derive(Clone, Debug, Serialize, Deserialize)]
pub struct Op {
    pub addr: u8,
    pub kind: Kind,
    /// virtual time to let pass (server stepping meanwhile) after the datagram
    pub wait_ms: u32,
    /// the server application does not call step() during that wait (it stalls, then resumes)
    #[serde(default)]
    pub stall: bool,
    /// the server is not stepped after this datagram: it is read in the same step() as the next op's datagram
    #[serde(default)]
    pub batch: bool,
}

#[derive(Clone, Debug, Serialize, Deserialize)]
pub struct Case {
    pub seed: u64,
    pub max_total: u8,
    pub max_active: u8,
    pub server_packet_size: u32,
    pub server_alloc: u32,
    pub step_ms: u16,
    pub ops: Vec<Op>,
    pub final_wait_ms: u32,
    /// the server's other endpoint settings (none of them may lengthen what an unverified address is sent)
    #[serde(default = "default_timeout")]
    pub server_timeout_ms: u32,
    #[serde(default)]
    pub server_keepalive_ms: Option<u32>,
    #[serde(default = "default_rate")]
    pub server_rate: u32,
    /// a crowd: before anything else this many OTHER addresses send one well-formed request each within one server
    /// step and never answer (the server then has the default limits of 4096 connections, so all of them are tracked)
    #[serde(default)]
    pub crowd: u16,
}

fn default_timeout() -> u32 {
    20_000
}
fn default_rate() -> u32 {
    2_000_000
}

pub struct C18;

fn kind_strategy() -> impl Strategy<Value = Kind> {
    prop_oneof![
        5 => (prop_oneof![4 => Just(3u8), 1 => any::<u8>()], any::<u32>(), prop_oneof![Just(0u32), Just(u32::MAX), any::<u32>()], prop_oneof![Just(0u32), Just(1u32), Just(u32::MAX), 1u32..2_000_000], prop_oneof![Just(0u32), Just(u32::MAX), 1u32..4_000_000])
            .prop_map(|(version, nonce, rate, size, alloc)| Kind::Syn { version, nonce, rate, size, alloc }),
        3 => Just(Kind::RepeatSyn),
        3 => (prop_oneof![Just(5u16), Just(22u16), Just(1471u16), 5u16..1472], any::<u8>()).prop_map(|(len, fill)| Kind::ShortSyn { len, fill }),
        1 => any::<u32>().prop_map(|nonce| Kind::Ack { nonce }),
        2 => (0u8..8, any::<u32>(), any::<u32>()).prop_map(|(kind, a, b)| Kind::Stray { kind, a, b }),
        1 => (proptest::collection::vec(any::<u8>(), 0..60), any::<bool>()).prop_map(|(bytes, fix_crc)| Kind::Raw { bytes, fix_crc }),
        3 => (prop_oneof![3 => 0u8..6, 2 => Just(6u8)], prop_oneof![1u16..20, 20u16..400]).prop_map(|(kind, count)| Kind::TinyBurst { kind, count }),
        2 => (0u8..5).prop_map(|from| Kind::CrossAck { from }),
        1 => (0u8..6, prop_oneof![20u16..120, 120u16..400], prop_oneof![Just(1000u16), Just(1500u16), Just(1900u16), 300u16..2500]).prop_map(|(kind, count, every_ms)| Kind::Drip { kind, count, every_ms }),
    ]
}

fn with_crc(mut b: Vec<u8>) -> Vec<u8> {
    if b.len() >= 5 {
        let n = b.len();
        let c = crc32(&b[..n - 4]);
        b[n - 4..].copy_from_slice(&c.to_be_bytes());
    }
    b
}

impl Check for C18 {
    type Case = Case;

    fn id(&self) -> &'static str {
        "C18"
    }

    fn strategy(&self, tier: Tier) -> BoxedStrategy<Case> {
        let op = (0u8..5, kind_strategy(), prop_oneof![4 => Just(0u32), 3 => 1u32..300, 2 => 300u32..2500, 1 => 2500u32..25_000, 1 => 25_000u32..60_000], prop_oneof![6 => Just(false), 1 => Just(true)], prop_oneof![4 => Just(false), 1 => Just(true)]).prop_map(|(addr, kind, wait_ms, stall, batch)| Op { addr, kind, wait_ms, stall, batch });
        (
            any::<u64>(),
            prop_oneof![1u8..4, Just(200u8)],
            prop_oneof![1u8..4, Just(200u8)],
            prop_oneof![Just(1_000_000u32), 1u32..100_000],
            prop_oneof![Just(1_000_000u32), 1u32..100_000],
            prop_oneof![Just(10u16), Just(30u16), Just(100u16), Just(500u16)],
            proptest::collection::vec(op, 1..tier.pick(30, 100)),
            prop_oneof![3 => Just(0u32), 3 => Just(25_000u32), 3 => 0u32..30_000, 2 => 30_000u32..700_000],
            (prop_oneof![3 => Just(20_000u32), 1 => 1_000u32..20_000, 2 => 20_000u32..3_600_000, 1 => Just(u32::MAX)], proptest::option::of(prop_oneof![Just(1u32), 1u32..10_000, Just(u32::MAX)]), prop_oneof![3 => Just(2_000_000u32), 1 => 1u32..100_000, 1 => Just(u32::MAX)]),
        )
            .prop_map(|(seed, max_total, max_active, server_packet_size, server_alloc, step_ms, ops, final_wait_ms, (server_timeout_ms, server_keepalive_ms, server_rate))| {
                // (a crowd case costs a few hundred ordinary ones: one in four hundred, with coarse steps)
                let crowd = if seed % 400 == 7 { 40 + ((seed >> 10) % 1000) as u16 } else { 0 };
                Case { seed, max_total, max_active, server_packet_size, server_alloc, step_ms: if crowd > 0 { step_ms.max(100) } else { step_ms }, ops, final_wait_ms: if crowd > 0 { final_wait_ms.max(if seed & 64 == 0 { 120_000 } else { 600_000 }) } else { final_wait_ms }, server_timeout_ms, server_keepalive_ms, server_rate, crowd }
            })
            .boxed()
    }

    fn cases(&self, tier: Tier) -> u64 {
        tier.pick(60_000, 1_000_000)
    }

    fn rule(&self) -> String {
        "case = a real Server (limits 1..3 or 200, generated packet-size / allocation settings so that some requests are refused) with generated active-timeout (1 s .. 1 h, or 2^32-1 ms), keepalive and rate settings, and up to five spoofable source addresses sending, in a generated interleaving (one datagram in five is read in the same server step as the next one) with waits of 0..60 s (during some of which the server application stalls, i.e. does not step at all) and a final wait of up to 12 minutes (so that all SYN-ACK resends and the pending-entry expiry are observed, however the server is configured): handshake ACKs carrying the nonce of the latest SYN-ACK the server sent to ANOTHER of the addresses (what the owner of that address can replay under a spoofed source), well-formed padded SYNs (also wrong version, extreme limits), repeats of the previous SYN, SYN-typed frames of every length below 1472 with a valid checksum, handshake ACKs with arbitrary nonces, frames of every other type, bursts of up to 400 minimum-size frames (10..15 bytes) one per step - among them data frames numbered upwards from the nonce of the address's own SYN, as a real client's first frames would be -, raw bytes, slow drips of 20-400 minimum-size frames spaced 0.3-2.5 s apart (minutes of them). One case in four hundred begins with a crowd: 40..1040 further addresses send one well-formed request each within one server step and never answer (the server then has the default limits, so that hundreds of handshakes are pending at once), and the final wait is at least 2 or 10 minutes. No address ever completes the handshake. One case in three with three or more SYN-ACK nonces is run a second time under another random stream: the differences between the nonces of a run must not all be the same in both runs (nonces that are a function of address, time and one secret can be computed by whoever sees one of them). Oracle after every server step: no address is ever reported as connected; per address: bytes sent to it are 0 or strictly less than the bytes received from it; a datagram that is not a full-size SYN produces no reply at all, and copies of a SYN-ACK are never less than 2 s apart. Non-trivial = the server sent at least one byte to an unverified address. Distinct = distinct serialised case.".into()
    }

    fn assumptions(&self) -> Vec<String> {
        vec!["bytes are UDP payload bytes as counted on the harness-owned virtual switch (IP/UDP headers are the same constant per datagram in both directions and only strengthen the inequality)".into()]
    }

    fn run(&self, c: &Case) -> CaseResult {
        let mut nonces: Vec<(std::net::SocketAddr, u32)> = Vec::new();
        let mut r = run_with_rng(c, c.seed, &mut nonces);
        // The nonce is what verifies an address: it must not be computable from nonces handed to other addresses (or to
        // the same address earlier). One case in three is run a second time with another random stream - everything
        // else, times and addresses included, being equal: if ALL differences between the nonces of a run are the
        // same in both runs, the nonces are a function of address and time plus one secret, and whoever sees one of
        // them can compute the others. (Independent 32-bit draws agree by chance once in 2^32 per difference.)
        if r.violation.is_none() && c.seed % 3 == 0 && nonces.len() >= 3 {
            let mut other: Vec<(std::net::SocketAddr, u32)> = Vec::new();
            let r2 = run_with_rng(c, c.seed ^ 0x5DEE_CE66_D1CE_4E5B, &mut other);
            if r2.violation.is_some() {
                return r2;
            }
            if other.len() == nonces.len() && other.iter().zip(nonces.iter()).all(|(a, b)| a.0 == b.0) {
                r.classes.push("nonce_independence_checked");
                let same = (1..nonces.len()).all(|i| nonces[i].1.wrapping_sub(nonces[0].1) == other[i].1.wrapping_sub(other[0].1));
                if same {
                    return CaseResult::fail(
                        "oracle:c18:server_nonces_predictable",
                        format!("the {} nonces the server handed out differ from one another by exactly the same amounts under two different random streams (first run {:?}, second run {:?}): they are a function of address and time plus one secret, so an address that sees its own SYN-ACK can compute the nonce sent to any other address and complete a handshake it never took part in", nonces.len(), nonces.iter().take(4).collect::<Vec<_>>(), other.iter().take(4).collect::<Vec<_>>()),
                    );
                }
            }
        }
        r
    }
}

fn run_with_rng(c: &Case, rng_seed: u64, nonces_out: &mut Vec<(std::net::SocketAddr, u32)>) -> CaseResult {
    {
        let cfg = ServerCfg {
            max_total: if c.crowd > 0 { 4096 } else { c.max_total as u32 },
            max_active: if c.crowd > 0 { 4096 } else { c.max_active as u32 },
            handshake_errors: true,
            ep: EpCfg {
                max_packet_size: c.server_packet_size.max(1),
                max_receive_alloc: c.server_alloc.max(1),
                active_timeout_ms: c.server_timeout_ms.max(1),
                keepalive: c.server_keepalive_ms.is_some(),
                keepalive_interval_ms: c.server_keepalive_ms.unwrap_or(5000).max(1),
                max_send_rate: c.server_rate.max(1),
                max_receive_rate: c.server_rate.max(1),
                ..EpCfg::default()
            },
        };
        let mut w = World::new(rng_seed, &cfg);
        // (nobody reads what the server sends to these addresses)
        w.auto_discard = c.crowd > 0;
        let mut rx: HashMap<std::net::SocketAddr, u64> = HashMap::new();
        let mut tx: HashMap<std::net::SocketAddr, u64> = HashMap::new();
        let mut last_syn: HashMap<u8, Vec<u8>> = HashMap::new();
        let mut seen_wire = 0usize;
        let step_us = (c.step_ms.max(1) as u64) * 1000;
        let mut classes: Vec<&'static str> = Vec::new();
        let mut replied = false;

        let mut account = |w: &World, seen_wire: &mut usize, tx: &mut HashMap<std::net::SocketAddr, u64>, rx: &HashMap<std::net::SocketAddr, u64>| -> Option<Violation> {
            while *seen_wire < w.wire.len() {
                let r = &w.wire[*seen_wire];
                *seen_wire += 1;
                if r.from == w.server_addr {
                    *tx.entry(r.to).or_insert(0) += r.bytes.len() as u64;
                }
            }
            // no address in these cases ever returns the nonce the server sent it: none may be reported as connected
            if let Some((_, t, SEv::Connect(a))) = w.server_events.iter().find(|e| matches!(e.2, SEv::Connect(_))) {
                return Some(Violation::new(
                    "oracle:c18:unverified_address_connected",
                    format!("the server reported Connect({a}) at t={t} us although that address never returned the nonce of a SYN-ACK (from then on it is sent acknowledgements, keepalives and application data without any relation to what it sends)"),
                ));
            }
            for (a, sent) in tx.iter() {
                let got = rx.get(a).copied().unwrap_or(0);
                if *sent > 0 && *sent >= got {
                    return Some(Violation::new(
                        "oracle:c18:amplification",
                        format!("address {a} has sent the server {got} bytes and never completed a handshake, yet the server has sent it {sent} bytes (t={} us)", w.now_us),
                    ));
                }
            }
            None
        };

        // SYN-ACK emission times per (address, nonce): a resend belongs to the 2 s timer, never to a datagram
        let mut synack_times: HashMap<(std::net::SocketAddr, u32), u64> = HashMap::new();
        let mut seen_synack = 0usize;
        let mut check_synack_spacing = |w: &World, seen: &mut usize, times: &mut HashMap<(std::net::SocketAddr, u32), u64>| -> Option<Violation> {
            while *seen < w.wire.len() {
                let r = &w.wire[*seen];
                *seen += 1;
                if r.from != w.server_addr {
                    continue;
                }
                if let Some(Frame::HandshakeSynAckFrame(f)) = Frame::read(&r.bytes) {
                    if let Some(prev) = times.insert((r.to, f.nonce), r.t_us) {
                        if r.t_us + 1000 < prev + 2_000_000 {
                            return Some(Violation::new(
                                "oracle:c18:synack_resent_early",
                                format!("the server re-sent its SYN-ACK to the unverified address {} only {} us after the previous copy (t={} us); resends are 2 s apart and nothing an unverified address sends may trigger one", r.to, r.t_us - prev, r.t_us),
                            ));
                        }
                    }
                }
            }
            None
        };

        if c.crowd > 0 {
            classes.push("crowd_of_pending_addresses");
            for k in 0..c.crowd as u32 {
                let a = raw_addr(1000 + k);
                let b = Frame::HandshakeSynFrame(HandshakeSynFrame { version: 3, nonce: 77 + k, max_receive_rate: 100_000, max_packet_size: 1000, max_receive_alloc: 2_000_000 }).write().to_vec();
                w.send_raw(a, w.server_addr, &b, 0);
                *rx.entry(a).or_insert(0) += b.len() as u64;
            }
            w.advance(step_us);
            w.step_server();
            if let Some(v) = account(&w, &mut seen_wire, &mut tx, &rx) {
                return CaseResult { violation: Some(v), nontrivial: true, classes };
            }
        }
        let mut batched = false;
        for op in c.ops.iter() {
            let a = raw_addr(op.addr as u32);
            let mut full_syn = false;
            if let Kind::Drip { kind, count, every_ms } = &op.kind {
                classes.push("drip_of_small_frames");
                let frame: Vec<u8> = match kind % 6 {
                    0 => Frame::DataFrame(DataFrame { sequence_id: 0, nonce: false, datagrams: vec![] }).write().to_vec(),
                    1 => Frame::SyncFrame(SyncFrame { next_frame_id: None, next_packet_id: None }).write().to_vec(),
                    2 => Frame::AckFrame(AckFrame { frame_window_base_id: 0, packet_window_base_id: 0, frame_acks: vec![] }).write().to_vec(),
                    3 => Frame::DisconnectFrame(DisconnectFrame {}).write().to_vec(),
                    4 => Frame::DisconnectAckFrame(DisconnectAckFrame {}).write().to_vec(),
                    _ => Frame::HandshakeAckFrame(HandshakeAckFrame { nonce_ack: 1 }).write().to_vec(),
                };
                let coarse = step_us.max(100_000);
                for _ in 0..*count {
                    w.send_raw(a, w.server_addr, &frame, 0);
                    *rx.entry(a).or_insert(0) += frame.len() as u64;
                    let mut waited = 0u64;
                    while waited < *every_ms as u64 * 1000 {
                        w.advance(coarse);
                        waited += coarse;
                        w.step_server();
                        if let Some(v) = account(&w, &mut seen_wire, &mut tx, &rx) {
                            return CaseResult { violation: Some(v), nontrivial: true, classes };
                        }
                    }
                }
                if tx.get(&a).copied().unwrap_or(0) > 0 {
                    replied = true;
                }
                continue;
            }
            if let Kind::TinyBurst { kind, count } = &op.kind {
                classes.push("tiny_burst");
                let syn_nonce = last_syn.get(&op.addr).and_then(|b| if let Some(Frame::HandshakeSynFrame(f)) = Frame::read(b) { Some(f.nonce) } else { None });
                let numbered = *kind == 6;
                let frame: Vec<u8> = match kind % 6 {
                    0 => Frame::DataFrame(DataFrame { sequence_id: syn_nonce.filter(|_| numbered).unwrap_or(0), nonce: false, datagrams: vec![] }).write().to_vec(),
                    1 => Frame::SyncFrame(SyncFrame { next_frame_id: None, next_packet_id: None }).write().to_vec(),
                    2 => Frame::AckFrame(AckFrame { frame_window_base_id: 0, packet_window_base_id: 0, frame_acks: vec![] }).write().to_vec(),
                    3 => Frame::DisconnectFrame(DisconnectFrame {}).write().to_vec(),
                    4 => Frame::DisconnectAckFrame(DisconnectAckFrame {}).write().to_vec(),
                    _ => Frame::HandshakeAckFrame(HandshakeAckFrame { nonce_ack: 1 }).write().to_vec(),
                };
                for i in 0..*count {
                    let frame = if numbered {
                        Frame::DataFrame(DataFrame { sequence_id: syn_nonce.unwrap_or(0).wrapping_add(i as u32), nonce: false, datagrams: vec![] }).write().to_vec()
                    } else {
                        frame.clone()
                    };
                    w.send_raw(a, w.server_addr, &frame, 0);
                    *rx.entry(a).or_insert(0) += frame.len() as u64;
                    w.advance(step_us.min(20_000));
                    w.step_server();
                    if let Some(v) = account(&w, &mut seen_wire, &mut tx, &rx) {
                        return CaseResult { violation: Some(v), nontrivial: true, classes };
                    }
                    if let Some(v) = check_synack_spacing(&w, &mut seen_synack, &mut synack_times) {
                        return CaseResult { violation: Some(v), nontrivial: true, classes };
                    }
                }
                if tx.get(&a).copied().unwrap_or(0) > 0 {
                    replied = true;
                }
                continue;
            }
            let bytes: Vec<u8> = match &op.kind {
                Kind::Syn { version, nonce, rate, size, alloc } => {
                    full_syn = true;
                    let b = Frame::HandshakeSynFrame(HandshakeSynFrame { version: *version, nonce: *nonce, max_receive_rate: *rate, max_packet_size: *size, max_receive_alloc: *alloc }).write().to_vec();
                    last_syn.insert(op.addr, b.clone());
                    classes.push(if *version != 3 { "syn_wrong_version" } else { "syn" });
                    b
                }
                Kind::RepeatSyn => {
                    full_syn = true;
                    classes.push("repeat_syn");
                    last_syn.get(&op.addr).cloned().unwrap_or_else(|| {
                        let b = Frame::HandshakeSynFrame(HandshakeSynFrame { version: 3, nonce: 7, max_receive_rate: 100_000, max_packet_size: 1000, max_receive_alloc: 2_000_000 }).write().to_vec();
                        b
                    })
                }
                Kind::ShortSyn { len, fill } => {
                    classes.push("short_syn");
                    let mut b = vec![*fill; (*len as usize).clamp(5, 1471)];
                    b[0] = 0;
                    if b.len() > 1 {
                        b[1] = 3;
                    }
                    with_crc(b)
                }
                Kind::Ack { nonce } => Frame::HandshakeAckFrame(HandshakeAckFrame { nonce_ack: *nonce }).write().to_vec(),
                Kind::Stray { kind, a, b } => {
                    classes.push("stray_frame");
                    match kind % 8 {
                        0 => Frame::DisconnectFrame(DisconnectFrame {}).write().to_vec(),
                        1 => Frame::DisconnectAckFrame(DisconnectAckFrame {}).write().to_vec(),
                        2 => Frame::SyncFrame(SyncFrame { next_frame_id: Some(*a), next_packet_id: Some(*b & 0xFFFFF) }).write().to_vec(),
                        3 => Frame::AckFrame(AckFrame { frame_window_base_id: *a, packet_window_base_id: *b & 0xFFFFF, frame_acks: vec![AckGroup { base_id: *a, bitfield: *b, nonce: false }] }).write().to_vec(),
                        4 => Frame::DataFrame(DataFrame { sequence_id: *a, nonce: false, datagrams: vec![Datagram { sequence_id: *b & 0xFFFFF, channel_id: 0, window_parent_lead: 0, channel_parent_lead: 0, fragment_id: 0, fragment_id_last: 0, data: vec![1u8; 100].into_boxed_slice() }] }).write().to_vec(),
                        5 => Frame::HandshakeSynAckFrame(HandshakeSynAckFrame { nonce_ack: *a, nonce: *b, max_receive_rate: 1, max_packet_size: 1, max_receive_alloc: 1 }).write().to_vec(),
                        6 => Frame::HandshakeErrorFrame(HandshakeErrorFrame { nonce_ack: *a, error: HandshakeErrorType::ServerFull }).write().to_vec(),
                        _ => Frame::HandshakeAckFrame(HandshakeAckFrame { nonce_ack: *a }).write().to_vec(),
                    }
                }
                Kind::Raw { bytes, fix_crc } => {
                    if *fix_crc {
                        with_crc(bytes.clone())
                    } else {
                        bytes.clone()
                    }
                }
                Kind::TinyBurst { .. } | Kind::Drip { .. } => unreachable!(),
                Kind::CrossAck { from } => {
                    let other = raw_addr(*from as u32);
                    let nonce = w.wire.iter().rev().find_map(|r| if r.to == other && r.from == w.server_addr { if let Some(Frame::HandshakeSynAckFrame(f)) = Frame::read(&r.bytes) { Some(f.nonce) } else { None } } else { None });
                    if other != a && nonce.is_some() {
                        classes.push("ack_with_nonce_sent_to_another_address");
                    }
                    // (towards its own address this would be a genuine handshake: never done here)
                    Frame::HandshakeAckFrame(HandshakeAckFrame { nonce_ack: if other == a { 1 } else { nonce.unwrap_or(1) } }).write().to_vec()
                }
            };
            // is this really a full-size, well-formed SYN?
            let is_full_syn = full_syn && bytes.len() == 1472 && matches!(Frame::read(&bytes), Some(Frame::HandshakeSynFrame(_)));
            let sent_before = tx.get(&a).copied().unwrap_or(0);
            w.send_raw(a, w.server_addr, &bytes, 0);
            *rx.entry(a).or_insert(0) += bytes.len() as u64;
            if op.batch {
                batched = true;
                classes.push("datagrams_read_in_one_step");
                continue;
            }
            let after_batch = std::mem::replace(&mut batched, false);
            w.step_server();
            if let Some(v) = account(&w, &mut seen_wire, &mut tx, &rx) {
                return CaseResult { violation: Some(v), nontrivial: true, classes };
            }
            if let Some(v) = check_synack_spacing(&w, &mut seen_synack, &mut synack_times) {
                return CaseResult { violation: Some(v), nontrivial: true, classes };
            }
            let sent_after = tx.get(&a).copied().unwrap_or(0);
            if !after_batch && !is_full_syn && !matches!(op.kind, Kind::Raw { .. }) && sent_after > sent_before && w.wire.last().map_or(false, |r| r.to == a && r.t_us == w.now_us) {
                // a reply at this very step can only have been caused by this datagram or a resend timer;
                // resend timers are excluded by checking the reply type below
                let last = w.wire.iter().rev().find(|r| r.to == a).unwrap();
                let is_resend = matches!(Frame::read(&last.bytes), Some(Frame::HandshakeSynAckFrame(_)));
                if !is_resend {
                    return CaseResult::fail(
                        "oracle:c18:reply_to_non_syn",
                        format!("a {}-byte datagram of type {} from {a}, which is not a full-size connection request, was answered with {:?}", bytes.len(), frame_type(&bytes), Frame::read(&last.bytes).map(|f| crate::props::c16::short_frame(&f))),
                    );
                }
            }
            if sent_after > 0 {
                replied = true;
            }
            let mut waited = 0u64;
            if op.stall && op.wait_ms > 0 {
                // the application is busy elsewhere: time passes, nothing is stepped
                w.advance(op.wait_ms as u64 * 1000);
                waited = op.wait_ms as u64 * 1000;
                classes.push("server_stalled");
                w.step_server();
                if let Some(v) = account(&w, &mut seen_wire, &mut tx, &rx) {
                    return CaseResult { violation: Some(v), nontrivial: true, classes };
                }
            }
            // (long waits are stepped coarsely)
            let wait_step = if op.wait_ms > 25_000 { step_us.max(250_000) } else { step_us };
            while waited < op.wait_ms as u64 * 1000 {
                w.advance(wait_step);
                waited += wait_step;
                w.step_server();
                if let Some(v) = account(&w, &mut seen_wire, &mut tx, &rx) {
                    return CaseResult { violation: Some(v), nontrivial: true, classes };
                }
            }
        }
        let mut waited = 0u64;
        while waited < c.final_wait_ms as u64 * 1000 {
            w.advance(step_us.max(100_000));
            waited += step_us.max(100_000);
            w.step_server();
            if let Some(v) = account(&w, &mut seen_wire, &mut tx, &rx) {
                return CaseResult { violation: Some(v), nontrivial: true, classes };
            }
        }
        if c.final_wait_ms >= 120_000 {
            classes.push("waited_2_to_12_minutes_at_the_end");
        }
        if c.server_timeout_ms >= 120_000 {
            classes.push("server_active_timeout_2min_plus");
        }
        if tx.values().any(|v| *v >= 25 * 11) {
            classes.push("syn_ack_resend_budget_exhausted");
        }
        if w.wire.iter().any(|r| matches!(Frame::read(&r.bytes), Some(Frame::HandshakeErrorFrame(_)))) {
            classes.push("refused_syn");
        }
        // first appearance of every SYN-ACK nonce, in order
        for r in w.wire.iter().filter(|r| r.from == w.server_addr) {
            if let Some(Frame::HandshakeSynAckFrame(f)) = Frame::read(&r.bytes) {
                if !nonces_out.iter().any(|n| n.0 == r.to && n.1 == f.nonce) {
                    nonces_out.push((r.to, f.nonce));
                }
            }
        }
        classes.sort();
        classes.dedup();
        CaseResult::ok(replied, classes)
    }
}
