pub mod c16;
pub mod c14;
