pub mod c16;
