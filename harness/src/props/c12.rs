//! C12 — transmission behaviour matches the send mode.

use crate::engine::*;
use crate::sim::gen::*;
use crate::sim::pair::*;
use crate::sim::wiremodel::*;
use proptest::prelude::*;
use std::collections::{HashMap, HashSet};
use uflow::verif::Serialize as _;

pub struct C12;

pub fn force_identity_sizes(sc: &mut PairScenario) {
    for t in sc.ticks.iter_mut() {
        for a in t.acts.iter_mut() {
            for s in a.sends.iter_mut() {
                if s.size < 4 {
                    s.size += 4;
                }
            }
        }
    }
}

impl Check for C12 {
    type Case = PairScenario;

    fn id(&self) -> &'static str {
        "C12"
    }

    fn strategy(&self, tier: Tier) -> BoxedStrategy<PairScenario> {
        let p = GenParams { max_ticks: tier.pick(150, 400), max_sends: 5, max_frags: tier.pick(4, 10), low_bandwidth: true, tail: true, modes: [3, 2, 3, 3], max_latency_us: 60_000, ..GenParams::default() };
        scenario_strategy(&p)
    }

    fn extra(&self, tier: Tier, seed: u64) -> ExtraResult {
        if tier != Tier::Thorough {
            return ExtraResult::default();
        }
        // coverage-guided search over the same scenario space with the same oracle (harness/fuzz, target pair_oracles)
        crate::props::pairfuzz::pair_fuzz_extra("C12", seed, 80_000, &|sc| self.run(sc), &|sc| serde_json::to_value(sc).unwrap_or_default())
    }

    fn cases(&self, tier: Tier) -> u64 {
        tier.pick(30_000, 1_000_000)
    }

    fn rule(&self) -> String {
        "case = SimPair scenario (all packets >= 4 bytes so that fragment 0 identifies the submission) with bandwidth ceilings that cut packets across flushes, ack loss / delay / duplication, mode mixes, extra flushes and small latencies so that acks return before the sender's next step(). Oracle over the wire: Unreliable / TimeSensitive (packet, fragment) pairs appear at most once; a TimeSensitive packet's first fragment is emitted in the step epoch of its submission or never; a Persistent / Reliable fragment never reappears after an ack group whose whole span was emitted since the sender's last step() (so the sender provably still knows those frames) has been handed to the sender; no fragment of any packet appears after an accepted ack moved the packet window base past it; packet ids follow submission order with only TimeSensitive packets passed over; at every snapshot at which the sender reports is_send_pending() == false, every fragment of every Persistent / Reliable packet in its window has been transmitted at least once; after the generated history a fair phase runs until quiescence or a 15-minute stall, at the end of which no Persistent / Reliable fragment the peer still needs may be one that never reached the peer (retransmitted until acknowledged). Non-trivial = at least one such in-epoch ack group was processed while the packet it covers still had unsent or unacknowledged fragments, or a TimeSensitive packet was dropped by the sender.".into()
    }

    fn assumptions(&self) -> Vec<String> {
        vec![
            "an ack is only required to take effect when every frame in the group's span was emitted after the sender's previous step() (later acks may legitimately be ignored because the sender forgets frames)".into(),
            "positive side (retransmitted until acknowledged) is C02's liveness clause".into(),
        ]
    }

    fn run(&self, sc: &PairScenario) -> CaseResult {
        let mut sc = sc.clone();
        force_identity_sizes(&mut sc);
        sc.normalize();
        let mut sim = SimPair::new(&sc);
        for t in sc.ticks.iter() {
            sim.run_tick(t);
        }
        // fair phase (no faults): whatever is still unacknowledged must be retransmitted now
        let step_us = sc.tail.as_ref().map(|t| t.step_us as u64).unwrap_or(10_000);
        // (snapshots stay on for the first steps: the TimeSensitive attribution needs the one after the next step)
        sim.tail_stats_steps = 4;
        let outcome = sim.run_tail_progress(step_us, crate::props::c02::STALL_US, crate::props::c02::CAP_US);
        let trace = sim.finish();
        let mut classes: Vec<&'static str> = Vec::new();
        let mut nontrivial = false;
        for s in 0..2 {
            let idmap = match build_id_map(&sc, &trace, s) {
                Ok(m) => m,
                Err(v) => return CaseResult { violation: Some(v), nontrivial: true, classes },
            };
            let subs = &trace.subs[s];
            let evs = sender_events(&trace, s);
            let mut count: HashMap<(u32, u16), u32> = HashMap::new();
            let mut acked: HashSet<(u32, u16)> = HashSet::new();
            let mut this_epoch: HashMap<u32, Vec<(u32, u16)>> = HashMap::new();
            let mut base = sc.dirs[s].pkt_base & PKT_MASK;
            let mut next_id = base;
            let mut frags_seen: HashMap<u32, HashSet<u16>> = HashMap::new();
            let mut last_count: HashMap<u32, u16> = HashMap::new();
            // step epoch in which each (packet, fragment) was transmitted for the first time
            let mut first_epoch: HashMap<(u32, u16), u32> = HashMap::new();
            for (_, ev) in evs.iter() {
                match ev {
                    Ev::Data { frame_id, epoch, dgs, .. } => {
                        let mut list = Vec::new();
                        for (pkt, frag, last, _len) in dgs.iter() {
                            let sub = &subs[idmap.id_to_sub[pkt] as usize];
                            let lead = pkt.wrapping_sub(base) & PKT_MASK;
                            if lead >= 0x80000 {
                                return CaseResult::fail(
                                    "oracle:c12:sent_after_receiver_moved_past",
                                    format!("sender {s}: fragment {frag} of packet id {pkt} (submission {}, mode {}) emitted although an accepted ack had moved the packet window base to {base}", sub.idx, sub.mode),
                                );
                            }
                            if (pkt.wrapping_sub(next_id) & PKT_MASK) < 0x80000 {
                                next_id = (pkt + 1) & PKT_MASK;
                            }
                            let c = count.entry((*pkt, *frag)).or_insert(0);
                            *c += 1;
                            if *c == 1 {
                                first_epoch.insert((*pkt, *frag), *epoch);
                            }
                            if *c > 1 && sub.mode <= 1 {
                                return CaseResult::fail(
                                    format!("oracle:c12:unreliable_fragment_sent_twice:mode{}", sub.mode),
                                    format!("sender {s}: fragment {frag} of packet id {pkt} (submission {}, mode {}) was transmitted {} times", sub.idx, sub.mode, *c),
                                );
                            }
                            if *c == 1 && *frag == 0 && sub.mode == 0 {
                                if *epoch != sub.epoch {
                                    // attribution: had the packet been moved into the sender's pending
                                    // (per-fragment) queue during its own epoch while the sender was blocked?
                                    // (the first snapshot after the next step() shows the queues as the submission epoch left them)
                                    let pulled = trace.stats[s].iter().find(|st| st.epoch == sub.epoch + 1 && st.seq > sub.seq).map_or(false, |st| st.v.pending_queue_len > 0);
                                    // The recorded finding concerns a packet that was moved into the per-fragment queue while
                                    // that queue was EMPTY (packets are only moved there one at a time): every fragment of
                                    // every earlier packet had been transmitted (or abandoned) by then, i.e. within the
                                    // submission epoch. A late TimeSensitive packet that waited BEHIND fragments of earlier
                                    // packets which were themselves first transmitted after that epoch is something else.
                                    let behind_unsent = first_epoch.iter().any(|((q, _), ep)| {
                                        let d = pkt.wrapping_sub(*q) & PKT_MASK;
                                        d >= 1 && d <= 4096 && *ep > sub.epoch
                                    });
                                    let key = if pulled && behind_unsent {
                                        "oracle:c12:time_sensitive_sent_late:queued_behind_unsent_fragments"
                                    } else if pulled {
                                        "oracle:c12:time_sensitive_sent_late:queued_per_fragment_while_blocked"
                                    } else {
                                        "oracle:c12:time_sensitive_sent_late:never_queued_in_its_epoch"
                                    };
                                    if !tolerate_known(key) {
                                        return CaseResult::fail(
                                            key,
                                            format!("sender {s}: TimeSensitive submission {} (submitted in step epoch {}) began transmission in epoch {}, i.e. after {} further step() calls", sub.idx, sub.epoch, epoch, epoch - sub.epoch),
                                        );
                                    }
                                    classes.push("known_d11_shape_skipped");
                                }
                                classes.push("ts_sent");
                            }
                            if acked.contains(&(*pkt, *frag)) {
                                return CaseResult::fail(
                                    format!("oracle:c12:resent_after_ack:mode{}", sub.mode),
                                    format!("sender {s}: fragment {frag} of packet id {pkt} (submission {}, mode {}) was transmitted again in frame {frame_id} after its acknowledgement had been processed", sub.idx, sub.mode),
                                );
                            }
                            frags_seen.entry(*pkt).or_default().insert(*frag);
                            last_count.insert(*pkt, *last);
                            list.push((*pkt, *frag));
                        }
                        this_epoch.insert(*frame_id, list);
                    }
                    Ev::Step => this_epoch.clear(),
                    Ev::Ack { packet_base, groups, .. } => {
                        if *packet_base <= PKT_MASK {
                            let delta = packet_base.wrapping_sub(base) & PKT_MASK;
                            let span = next_id.wrapping_sub(base) & PKT_MASK;
                            if delta <= span && delta != 0 {
                                base = *packet_base;
                                classes.push("packet_base_advanced");
                            }
                        }
                        for (gbase, bits) in groups.iter() {
                            if *bits == 0 {
                                continue;
                            }
                            let size = 32 - bits.leading_zeros();
                            if !(0..size).all(|i| this_epoch.contains_key(&gbase.wrapping_add(i))) {
                                continue;
                            }
                            for i in 0..size {
                                if bits & (1 << i) != 0 {
                                    for pf in this_epoch[&gbase.wrapping_add(i)].iter() {
                                        acked.insert(*pf);
                                        // was the packet still incomplete from the sender's view?
                                        let total = last_count.get(&pf.0).copied().unwrap_or(0) as usize + 1;
                                        let seen = frags_seen.get(&pf.0).map_or(0, |s| s.len());
                                        if total > 1 && seen < total {
                                            classes.push("ack_between_fragments_of_a_packet");
                                            nontrivial = true;
                                        }
                                    }
                                    classes.push("in_epoch_ack_processed");
                                }
                            }
                        }
                    }
                    Ev::Snapshot { stat_idx } => {
                        // a sender that reports nothing pending has transmitted every fragment of every Persistent /
                        // Reliable packet in its window at least once (what was never transmitted cannot be on its way to
                        // being acknowledged; disconnect() takes "nothing pending" for "everything has been handed over")
                        let st = &trace.stats[s][*stat_idx as usize];
                        if !st.send_pending {
                            let mut id = base;
                            while id != next_id {
                                if let Some(si) = idmap.id_to_sub.get(&id) {
                                    let sub = &subs[*si as usize];
                                    if sub.mode >= 2 {
                                        let total = last_count.get(&id).copied().unwrap_or(0) as usize + 1;
                                        let seen = frags_seen.get(&id).map_or(0, |f| f.len());
                                        if seen < total {
                                            return CaseResult::fail(
                                                format!("oracle:c12:nothing_pending_with_untransmitted_fragments:mode{}", sub.mode),
                                                format!("sender {s} at t={} us reports is_send_pending() == false although only {seen} of the {total} fragments of packet id {id} (submission {}, mode {}, {} bytes) have ever been transmitted and the packet has not been acknowledged", st.t_us, sub.idx, sub.mode, sub.size),
                                            );
                                        }
                                    }
                                }
                                id = (id + 1) & PKT_MASK;
                            }
                        }
                    }
                    _ => {}
                }
            }
            // "retransmitted until acknowledged": after a fair phase that ended in quiescence or in a 15-minute
            // stall, no Persistent / Reliable fragment that the peer still needs may be one that never reached the
            // peer (every frame that carried it was lost or corrupted in transit, so it cannot have been acknowledged)
            if matches!(outcome, TailOutcome::Quiescent | TailOutcome::Stalled { .. }) {
                let received: HashSet<u32> = trace.handled[1 - s].iter().filter(|h| !h.corrupted && h.accepted).map(|h| h.wire_idx).collect();
                let mut reached: HashSet<(u32, u16)> = HashSet::new();
                let mut emitted: HashMap<(u32, u16), u64> = HashMap::new();
                for (i, w) in trace.wire[s].iter().enumerate() {
                    if let Some(uflow::verif::Frame::DataFrame(df)) = uflow::verif::Frame::read(&w.bytes) {
                        for dg in df.datagrams.iter() {
                            emitted.insert((dg.sequence_id, dg.fragment_id), w.t_us);
                            if received.contains(&(i as u32)) {
                                reached.insert((dg.sequence_id, dg.fragment_id));
                            }
                        }
                    }
                }
                for ((pkt, frag), t_last) in emitted.iter() {
                    let sub = &subs[idmap.id_to_sub[pkt] as usize];
                    let passed = (pkt.wrapping_sub(base) & PKT_MASK) >= 0x80000;
                    if sub.mode >= 2 && !reached.contains(&(*pkt, *frag)) && !(sub.mode == 2 && passed) {
                        if sub.mode == 3 && passed {
                            // the receiver cannot have moved past a Reliable packet it never completed: C02's business
                            continue;
                        }
                        return CaseResult::fail(
                            format!("oracle:c12:unacknowledged_fragment_not_retransmitted:mode{}", sub.mode),
                            format!("sender {s}: fragment {frag} of packet id {pkt} (submission {}, mode {}) never reached the peer (every frame carrying it was lost), was last transmitted at t={t_last} us, and the sender then let a fair network sit idle until t={} us ({:?})", sub.idx, sub.mode, trace.end_us, outcome),
                        );
                    }
                }
                classes.push("fair_phase_checked");
            }
            // TimeSensitive packets that never appeared
            for sub in subs.iter() {
                if sub.mode == 0 && !idmap.sub_to_id.contains_key(&sub.idx) && (sub.epoch as usize) < trace.steps[s].len() {
                    classes.push("ts_dropped_by_sender");
                    nontrivial = true;
                }
            }
        }
        classes.sort();
        classes.dedup();
        CaseResult::ok(nontrivial, classes)
    }
}
