//! C16 — frame codec round-trips, rejects malformed input, CRC catches <= 4 bit flips.

use crate::engine::*;
use crate::refcodec;
use crate::util::*;
use proptest::prelude::*;
use serde::{Deserialize, Serialize as SerdeSerialize};
use serde_json::json;
use uflow::verif::*;

#[derive(Clone, Debug, SerdeSerialize, Deserialize)]
pub struct SDatagram {
    pub seq: u32,
    pub ch: u8,
    pub w: u16,
    pub h: u16,
    pub f: u16,
    pub l: u16,
    pub len: u32,
    pub fill: u64,
}

#[derive(Clone, Debug, SerdeSerialize, Deserialize)]
pub enum SFrame {
    Syn { version: u8, nonce: u32, rate: u32, size: u32, alloc: u32 },
    SynAck { nonce_ack: u32, nonce: u32, rate: u32, size: u32, alloc: u32 },
    Ack { nonce_ack: u32 },
    Error { nonce_ack: u32, code: u8 },
    Disconnect,
    DisconnectAck,
    Data { seq: u32, nonce: bool, dgs: Vec<SDatagram> },
    Sync { frame: Option<u32>, packet: Option<u32> },
    AckF { fbase: u32, pbase: u32, groups: Vec<(u32, u32, bool)> },
}

impl SFrame {
    pub fn build(&self) -> Frame {
        match self {
            SFrame::Syn { version, nonce, rate, size, alloc } => Frame::HandshakeSynFrame(HandshakeSynFrame {
                version: *version,
                nonce: *nonce,
                max_receive_rate: *rate,
                max_packet_size: *size,
                max_receive_alloc: *alloc,
            }),
            SFrame::SynAck { nonce_ack, nonce, rate, size, alloc } => Frame::HandshakeSynAckFrame(HandshakeSynAckFrame {
                nonce_ack: *nonce_ack,
                nonce: *nonce,
                max_receive_rate: *rate,
                max_packet_size: *size,
                max_receive_alloc: *alloc,
            }),
            SFrame::Ack { nonce_ack } => Frame::HandshakeAckFrame(HandshakeAckFrame { nonce_ack: *nonce_ack }),
            SFrame::Error { nonce_ack, code } => Frame::HandshakeErrorFrame(HandshakeErrorFrame {
                nonce_ack: *nonce_ack,
                error: match code % 3 {
                    0 => HandshakeErrorType::Version,
                    1 => HandshakeErrorType::Config,
                    _ => HandshakeErrorType::ServerFull,
                },
            }),
            SFrame::Disconnect => Frame::DisconnectFrame(DisconnectFrame {}),
            SFrame::DisconnectAck => Frame::DisconnectAckFrame(DisconnectAckFrame {}),
            SFrame::Data { seq, nonce, dgs } => Frame::DataFrame(DataFrame {
                sequence_id: *seq,
                nonce: *nonce,
                datagrams: dgs
                    .iter()
                    .map(|d| Datagram {
                        sequence_id: d.seq,
                        channel_id: d.ch,
                        window_parent_lead: d.w,
                        channel_parent_lead: d.h,
                        fragment_id: d.f,
                        fragment_id_last: d.l,
                        data: fill_bytes(d.fill, d.len as usize).into_boxed_slice(),
                    })
                    .collect(),
            }),
            SFrame::Sync { frame, packet } => Frame::SyncFrame(SyncFrame { next_frame_id: *frame, next_packet_id: *packet }),
            SFrame::AckF { fbase, pbase, groups } => Frame::AckFrame(AckFrame {
                frame_window_base_id: *fbase,
                packet_window_base_id: *pbase,
                frame_acks: groups.iter().map(|g| AckGroup { base_id: g.0, bitfield: g.1, nonce: g.2 }).collect(),
            }),
        }
    }
}

fn edge_u32() -> impl Strategy<Value = u32> {
    prop_oneof![Just(0u32), Just(1), Just(u32::MAX), Just(u32::MAX - 1), Just(0x8000_0000), Just(0x000F_FFFF), Just(0x0010_0000), any::<u32>()]
}

fn dg_len() -> impl Strategy<Value = u32> {
    prop_oneof![
        3 => prop_oneof![Just(0u32), Just(1), Just(62), Just(63), Just(64), Just(65), Just(254), Just(255), Just(256), Just(257), Just(1447), Just(1448)],
        3 => 0u32..=80,
        2 => 0u32..=1448,
        1 => 1449u32..=2000,
    ]
}

fn dg_w() -> impl Strategy<Value = u16> {
    prop_oneof![3 => prop_oneof![Just(0u16), Just(1), Just(126), Just(127), Just(128), Just(129), Just(255), Just(256), Just(65535)], 1 => any::<u16>()]
}

fn dg_h() -> impl Strategy<Value = u16> {
    prop_oneof![3 => prop_oneof![Just(0u16), Just(1), Just(127), Just(128), Just(254), Just(255), Just(256), Just(257), Just(65535)], 1 => any::<u16>()]
}

pub fn datagram_strategy() -> impl Strategy<Value = SDatagram> {
    (
        prop_oneof![Just(0u32), Just(0xFFFFF), Just(0xF0000), Just(0x0FFFF), 0u32..=0xFFFFF],
        0u8..64,
        dg_w(),
        dg_h(),
        prop_oneof![4 => Just((0u16, 0u16)), 1 => Just((0u16, 1u16)), 1 => Just((1u16, 1u16)), 1 => Just((65535u16, 65535u16)), 1 => Just((0u16, 65535u16)), 2 => (any::<u16>(), 1u16..=65535)],
        dg_len(),
        any::<u64>(),
    )
        .prop_map(|(seq, ch, w, h, (f, l), len, fill)| SDatagram { seq, ch, w, h, f, l, len, fill })
}

pub fn frame_strategy(max_groups: usize) -> BoxedStrategy<SFrame> {
    prop_oneof![
        1 => (any::<u8>(), edge_u32(), edge_u32(), edge_u32(), edge_u32()).prop_map(|(version, nonce, rate, size, alloc)| SFrame::Syn { version, nonce, rate, size, alloc }),
        1 => (edge_u32(), edge_u32(), edge_u32(), edge_u32(), edge_u32()).prop_map(|(nonce_ack, nonce, rate, size, alloc)| SFrame::SynAck { nonce_ack, nonce, rate, size, alloc }),
        1 => edge_u32().prop_map(|nonce_ack| SFrame::Ack { nonce_ack }),
        1 => (edge_u32(), 0u8..3).prop_map(|(nonce_ack, code)| SFrame::Error { nonce_ack, code }),
        1 => Just(SFrame::Disconnect),
        1 => Just(SFrame::DisconnectAck),
        8 => (edge_u32(), any::<bool>(), prop_oneof![
                4 => proptest::collection::vec(datagram_strategy(), 0..4),
                2 => proptest::collection::vec(datagram_strategy(), 0..20),
                1 => proptest::collection::vec(datagram_strategy(), 120..=127),
            ]).prop_map(|(seq, nonce, dgs)| SFrame::Data { seq, nonce, dgs }),
        2 => (proptest::option::of(edge_u32()), proptest::option::of(edge_u32())).prop_map(|(frame, packet)| SFrame::Sync { frame, packet }),
        4 => (edge_u32(), edge_u32(), prop_oneof![
                4 => proptest::collection::vec((edge_u32(), edge_u32(), any::<bool>()), 0..4),
                2 => proptest::collection::vec((edge_u32(), edge_u32(), any::<bool>()), 155..=165),
                1 => proptest::collection::vec((any::<u32>(), any::<u32>(), any::<bool>()), 0..=max_groups),
            ]).prop_map(|(fbase, pbase, groups)| SFrame::AckF { fbase, pbase, groups }),
    ]
    .boxed()
}

#[derive(Clone, Debug, SerdeSerialize, Deserialize)]
pub enum Mutation {
    Truncate(u16),
    Extend(Vec<u8>),
    SetByte(u16, u8),
    FlipBit(u16, u8),
    Splice(u16, Vec<u8>),
    DeleteRange(u16, u8),
}

#[derive(Clone, Debug, SerdeSerialize, Deserialize)]
pub enum Case {
    /// write then read must reproduce the frame
    RoundTrip(SFrame),
    /// arbitrary bytes (optionally given a valid checksum so that the parsers are reached)
    Bytes { data: Vec<u8>, fix_crc: bool },
    /// a valid frame, mutated structurally, optionally re-checksummed
    Mutated { frame: SFrame, muts: Vec<Mutation>, fix_crc: bool },
    /// a valid frame of at most 1472 bytes with 1..=4 distinct bits flipped
    BitFlip { frame: SFrame, positions: Vec<u16> },
    /// a valid frame whose body (everything between the 6-byte data-frame header and the checksum) is repeated
    /// `times` times, with byte 5 (the data frame's nonce / datagram count) set to `count`, re-checksummed: for data
    /// frames that is a longer-than-any-datagram frame carrying hundreds of well-formed datagrams whose number and
    /// advertised count agree modulo 128 / 256 or not at all
    Repeated { frame: SFrame, times: u8, count: u8 },
    /// a data frame written by an encoder of the harness's own that chooses each datagram's header form (0 micro, 1 small,
    /// 2 large) freely among those that can hold its fields - what another implementation of the format, or a relay
    /// that re-encodes, may send. The parser must yield the same frame whatever forms were used.
    Forms { seq: u32, nonce: bool, dgs: Vec<SDatagram>, forms: Vec<u8> },
    /// an ack frame in which the nonce byte of group `which` is set to `value` (the nonce occupies a whole byte; any
    /// non-zero value means 1), re-checksummed
    AckNonceByte { fbase: u32, pbase: u32, groups: Vec<(u32, u32, bool)>, which: u8, value: u8 },
    /// a frame whose last four body bytes are chosen so that its checksum is exactly 0 (0 is a checksum like any other)
    CrcZero { frame: SFrame },
}

/// Solves for the last four body bytes that make the checksum 0 (the checksum is affine in them and the map is a bijection).
fn with_zero_crc(mut bytes: Vec<u8>) -> Option<Vec<u8>> {
    let n = bytes.len();
    if n < 9 {
        return None;
    }
    let body = n - 4;
    for b in bytes[body - 4..body].iter_mut() {
        *b = 0;
    }
    let c0 = crc32(&bytes[..body]);
    // syndromes of the 32 free bits
    let mut rows: Vec<(u32, u32)> = Vec::with_capacity(32); // (syndrome, which bit)
    for i in 0..32u32 {
        let mut m = bytes[..body].to_vec();
        m[body - 4 + (i / 8) as usize] ^= 1 << (i % 8);
        rows.push((crc32(&m) ^ c0, 1 << i));
    }
    // Gaussian elimination over GF(2): find x with XOR of syndromes = c0
    let mut target = c0;
    let mut x = 0u32;
    let mut basis: Vec<(u32, u32)> = Vec::new();
    for (mut s, mut who) in rows {
        for (bs, bw) in basis.iter() {
            if s & (1 << (31 - bs.leading_zeros())) != 0 && *bs != 0 {
                s ^= *bs;
                who ^= *bw;
            }
        }
        if s != 0 {
            basis.push((s, who));
            basis.sort_by(|a, b| b.0.cmp(&a.0));
        }
    }
    for (bs, bw) in basis.iter() {
        if *bs != 0 && target & (1 << (31 - bs.leading_zeros())) != 0 {
            target ^= *bs;
            x ^= *bw;
        }
    }
    if target != 0 {
        return None;
    }
    for i in 0..32u32 {
        if x & (1 << i) != 0 {
            bytes[body - 4 + (i / 8) as usize] ^= 1 << (i % 8);
        }
    }
    if crc32(&bytes[..body]) != 0 {
        return None;
    }
    for b in bytes[body..].iter_mut() {
        *b = 0;
    }
    Some(bytes)
}

/// Encodes a data frame with the given header form per datagram (raised to the smallest form that can hold the fields).
pub fn encode_with_forms(seq: u32, nonce: bool, dgs: &[SDatagram], forms: &[u8]) -> (Vec<u8>, Vec<u8>) {
    let mut out = vec![10u8];
    out.extend_from_slice(&seq.to_be_bytes());
    out.push(((nonce as u8) << 7) | (dgs.len().min(127) as u8));
    let mut used = Vec::new();
    for (i, d) in dgs.iter().take(127).enumerate() {
        let data = fill_bytes(d.fill, d.len as usize);
        let len = data.len();
        let unfragmented = d.f == 0 && d.l == 0;
        let min_form = if unfragmented && len < 64 && d.w < 128 && d.h < 256 { 0 } else if unfragmented && len < 256 { 1 } else { 2 };
        let form = (forms.get(i).copied().unwrap_or(0) % 3).max(min_form);
        used.push(form);
        let s = d.seq & 0xFFFFF;
        let ch = d.ch & 63;
        match form {
            0 => {
                // 0CDDDDDD SSSSCCCC SSSSSSSS SSSSSSSS CWWWWWWW HHHHHHHH
                out.push((((ch >> 4) & 1) << 6) | (len as u8 & 0x3f));
                out.push((((s >> 16) as u8) << 4) | (ch & 0x0f));
                out.push((s >> 8) as u8);
                out.push(s as u8);
                out.push((((ch >> 5) & 1) << 7) | (d.w as u8 & 0x7f));
                out.push(d.h as u8);
            }
            1 => {
                // 10CCCCCC DDDDDDDD 0000SSSS SSSSSSSS SSSSSSSS W16 H16
                out.push(0x80 | ch);
                out.push(len as u8);
                out.push((s >> 16) as u8);
                out.push((s >> 8) as u8);
                out.push(s as u8);
                out.extend_from_slice(&d.w.to_be_bytes());
                out.extend_from_slice(&d.h.to_be_bytes());
            }
            _ => {
                // 11CCCCCC D16 0000SSSS S8 S8 W16 H16 F16 L16
                out.push(0xC0 | ch);
                out.extend_from_slice(&(len as u16).to_be_bytes());
                out.push((s >> 16) as u8);
                out.push((s >> 8) as u8);
                out.push(s as u8);
                out.extend_from_slice(&d.w.to_be_bytes());
                out.extend_from_slice(&d.h.to_be_bytes());
                out.extend_from_slice(&d.f.to_be_bytes());
                out.extend_from_slice(&d.l.to_be_bytes());
            }
        }
        out.extend_from_slice(&data);
    }
    out.extend_from_slice(&[0, 0, 0, 0]);
    set_crc(&mut out);
    (out, used)
}

/// The byte string a case hands to the parser (used by C19's codec cases as well).
pub fn case_bytes(case: &Case) -> Vec<u8> {
    match case {
        Case::RoundTrip(frame) => frame.build().write().to_vec(),
        Case::Bytes { data, fix_crc } => {
            let mut bytes = data.clone();
            if *fix_crc {
                set_crc(&mut bytes);
            }
            bytes
        }
        Case::Mutated { frame, muts, fix_crc } => {
            let mut bytes = frame.build().write().to_vec();
            apply_mutations(&mut bytes, muts);
            if *fix_crc {
                set_crc(&mut bytes);
            }
            bytes
        }
        Case::Repeated { frame, times, count } => repeated_bytes(frame, *times, *count),
        Case::Forms { seq, nonce, dgs, forms } => encode_with_forms(*seq, *nonce, dgs, forms).0,
        Case::AckNonceByte { fbase, pbase, groups, which, value } => {
            let mut bytes = SFrame::AckF { fbase: *fbase, pbase: *pbase, groups: groups.clone() }.build().write().to_vec();
            if !groups.is_empty() {
                let g = *which as usize % groups.len();
                bytes[11 + 9 * g + 8] = *value;
                set_crc(&mut bytes);
            }
            bytes
        }
        Case::CrcZero { frame } => {
            let bytes = frame.build().write().to_vec();
            with_zero_crc(bytes.clone()).unwrap_or(bytes)
        }
        Case::BitFlip { frame, positions } => {
            let mut bytes = frame.build().write().to_vec();
            let nbits = bytes.len() * 8;
            if nbits > 0 {
                for p in positions.iter() {
                    let p = pick_index(*p, nbits);
                    bytes[p / 8] ^= 1 << (p % 8);
                }
            }
            bytes
        }
    }
}

/// Parser inputs biased towards structurally damaged data / ack frames that pass the checksum.
fn repeated_bytes(frame: &SFrame, times: u8, count: u8) -> Vec<u8> {
    let bytes = frame.build().write().to_vec();
    if bytes.len() < 10 {
        return bytes;
    }
    let body = bytes[6..bytes.len() - 4].to_vec();
    let mut v = bytes[..6].to_vec();
    v[5] = count;
    for _ in 0..times.max(1) {
        if v.len() + body.len() > 70_000 {
            break;
        }
        v.extend_from_slice(&body);
    }
    v.extend_from_slice(&[0, 0, 0, 0]);
    set_crc(&mut v);
    v
}

pub fn parser_input_strategy() -> BoxedStrategy<Case> {
    prop_oneof![
        2 => frame_strategy(40).prop_map(Case::RoundTrip),
        1 => (proptest::collection::vec(any::<u8>(), 0..64), any::<bool>()).prop_map(|(data, fix_crc)| Case::Bytes { data, fix_crc }),
        6 => (frame_strategy(40), proptest::collection::vec(mutation_strategy(), 1..4), prop_oneof![5 => Just(true), 1 => Just(false)]).prop_map(|(frame, muts, fix_crc)| Case::Mutated { frame, muts, fix_crc }),
    ]
    .boxed()
}

fn mutation_strategy() -> impl Strategy<Value = Mutation> {
    prop_oneof![
        any::<u16>().prop_map(Mutation::Truncate),
        proptest::collection::vec(any::<u8>(), 1..12).prop_map(Mutation::Extend),
        (any::<u16>(), any::<u8>()).prop_map(|(p, v)| Mutation::SetByte(p, v)),
        (any::<u16>(), 0u8..8).prop_map(|(p, b)| Mutation::FlipBit(p, b)),
        (any::<u16>(), proptest::collection::vec(any::<u8>(), 1..12)).prop_map(|(p, v)| Mutation::Splice(p, v)),
        (any::<u16>(), 1u8..20).prop_map(|(p, n)| Mutation::DeleteRange(p, n)),
    ]
}

fn first_byte() -> impl Strategy<Value = u8> {
    prop_oneof![4 => prop_oneof![Just(0u8), Just(1), Just(2), Just(3), Just(4), Just(5), Just(10), Just(11), Just(12)], 1 => any::<u8>()]
}

pub struct C16;

fn apply_mutations(bytes: &mut Vec<u8>, muts: &[Mutation]) {
    for m in muts {
        match m {
            Mutation::Truncate(sel) => {
                let n = pick_index(*sel, bytes.len() + 1);
                bytes.truncate(n);
            }
            Mutation::Extend(v) => bytes.extend_from_slice(v),
            Mutation::SetByte(sel, v) => {
                if !bytes.is_empty() {
                    let i = pick_index(*sel, bytes.len());
                    bytes[i] = *v;
                }
            }
            Mutation::FlipBit(sel, b) => {
                if !bytes.is_empty() {
                    let i = pick_index(*sel, bytes.len());
                    bytes[i] ^= 1 << b;
                }
            }
            Mutation::Splice(sel, v) => {
                let i = pick_index(*sel, bytes.len() + 1);
                let tail = bytes.split_off(i);
                bytes.extend_from_slice(v);
                bytes.extend_from_slice(&tail);
            }
            Mutation::DeleteRange(sel, n) => {
                if !bytes.is_empty() {
                    let i = pick_index(*sel, bytes.len());
                    let end = (i + *n as usize).min(bytes.len());
                    bytes.drain(i..end);
                }
            }
        }
    }
}

fn set_crc(bytes: &mut Vec<u8>) {
    if bytes.len() >= 5 {
        let n = bytes.len();
        let c = crc32(&bytes[..n - 4]);
        bytes[n - 4..].copy_from_slice(&c.to_be_bytes());
    }
}

fn check_bytes(bytes: &[u8], classes: &mut Vec<&'static str>) -> Result<bool, Violation> {
    let got = Frame::read(bytes);
    let want = refcodec::decode(bytes);
    let crc_ok = bytes.len() >= 5 && crc32(&bytes[..bytes.len() - 4]) == u32::from_be_bytes([bytes[bytes.len() - 4], bytes[bytes.len() - 3], bytes[bytes.len() - 2], bytes[bytes.len() - 1]]);
    if crc_ok {
        classes.push("bytes_passed_crc_gate");
    }
    match (&got, &want) {
        (Some(_), None) => {
            return Err(Violation::new(
                format!("oracle:accepts_malformed:type{}", bytes.first().copied().unwrap_or(255)),
                format!("Frame::read accepted {} bytes that are not exactly one well-formed frame: {}", bytes.len(), hex(bytes, 64)),
            ));
        }
        (None, Some(f)) => {
            return Err(Violation::new(
                format!("oracle:rejects_wellformed:type{}", bytes.first().copied().unwrap_or(255)),
                format!("Frame::read rejected {} bytes which form one well-formed frame {:?}: {}", bytes.len(), short_frame(f), hex(bytes, 64)),
            ));
        }
        _ => {}
    }
    if let Some(f) = got {
        classes.push("bytes_accepted");
        if refcodec::representable(&f) {
            let re = f.write();
            match Frame::read(&re) {
                Some(f2) if f2 == f => {}
                other => {
                    return Err(Violation::new(
                        "oracle:reencode_not_idempotent",
                        format!("accepted input decodes to {:?} but re-encoding and decoding gives {:?}", short_frame(&f), other.as_ref().map(short_frame)),
                    ));
                }
            }
        }
        return Ok(true);
    }
    Ok(false)
}

pub fn short_frame(f: &Frame) -> String {
    let s = format!("{:?}", f);
    if s.len() > 400 {
        format!("{}...", &s[..400])
    } else {
        s
    }
}

impl Check for C16 {
    type Case = Case;

    fn id(&self) -> &'static str {
        "C16"
    }

    fn strategy(&self, tier: Tier) -> BoxedStrategy<Case> {
        let max_groups = tier.pick(400usize, 8000usize);
        prop_oneof![
            4 => frame_strategy(max_groups).prop_map(Case::RoundTrip),
            1 => (proptest::collection::vec(any::<u8>(), 0..64), any::<bool>()).prop_map(|(data, fix_crc)| Case::Bytes { data, fix_crc }),
            2 => (first_byte(), proptest::collection::vec(any::<u8>(), 0..40), prop_oneof![Just(0usize), Just(4), Just(9), Just(20), Just(1467), 0usize..1480]).prop_map(|(b0, mut data, pad)| {
                    let mut v = vec![b0];
                    v.append(&mut data);
                    v.resize(v.len() + pad, 0);
                    v.truncate(1500);
                    Case::Bytes { data: v, fix_crc: true }
                }),
            4 => (frame_strategy(40), proptest::collection::vec(mutation_strategy(), 1..4), prop_oneof![3 => Just(true), 1 => Just(false)]).prop_map(|(frame, muts, fix_crc)| Case::Mutated { frame, muts, fix_crc }),
            3 => (frame_strategy(150), proptest::collection::vec(any::<u16>(), 1..=4)).prop_map(|(frame, positions)| Case::BitFlip { frame, positions }),
            1 => (edge_u32(), edge_u32(), proptest::collection::vec((edge_u32(), edge_u32(), any::<bool>()), 1..5), any::<u8>(), prop_oneof![Just(2u8), Just(0x80u8), Just(0xFFu8), Just(0u8), Just(1u8), any::<u8>()]).prop_map(|(fbase, pbase, groups, which, value)| Case::AckNonceByte { fbase, pbase, groups, which, value }),
            1 => prop_oneof![
                edge_u32().prop_map(|nonce_ack| SFrame::Ack { nonce_ack }),
                (edge_u32(), edge_u32()).prop_map(|(f, p)| SFrame::Sync { frame: Some(f), packet: Some(p) }),
                (edge_u32(), edge_u32(), edge_u32(), edge_u32(), edge_u32()).prop_map(|(nonce_ack, nonce, rate, size, alloc)| SFrame::SynAck { nonce_ack, nonce, rate, size, alloc }),
                (edge_u32(), any::<bool>(), any::<u64>(), 4u32..200).prop_map(|(seq, nonce, fill, len)| SFrame::Data { seq, nonce, dgs: vec![SDatagram { seq: (fill as u32) & 0xFFFFF, ch: (fill >> 20) as u8 & 63, w: 0, h: 0, f: 0, l: 0, len, fill }] }),
            ].prop_map(|frame| Case::CrcZero { frame }),
            2 => (edge_u32(), any::<bool>(), proptest::collection::vec((datagram_strategy(), 0u8..3), 1..8)).prop_map(|(seq, nonce, v)| {
                let (dgs, forms): (Vec<SDatagram>, Vec<u8>) = v.into_iter().unzip();
                Case::Forms { seq, nonce, dgs, forms }
            }),
            1 => (frame_strategy(40), prop_oneof![2 => 2u8..8, 2 => 8u8..40, 1 => 40u8..=255], any::<u8>(), any::<bool>()).prop_map(|(frame, times, count, exact)| {
                // (`exact`: the advertised count is the true number of datagrams reduced modulo 128 and 256)
                let mut case = Case::Repeated { frame, times, count };
                if exact {
                    if let Case::Repeated { frame, times, count } = &mut case {
                        if let Frame::DataFrame(df) = frame.build() {
                            let n = df.datagrams.len() * (*times).max(1) as usize;
                            *count = (*count & 0x80) | ((n % 256) as u8 & 0x7F);
                        }
                    }
                }
                case
            }),
        ]
        .boxed()
    }

    fn cases(&self, tier: Tier) -> u64 {
        tier.pick(200_000, 6_000_000)
    }

    fn rule(&self) -> String {
        "cases: RoundTrip (generated frame of any of the nine types, boundary-biased fields), Bytes (random bytes / typed prefix + padding, checksum optionally fixed), Mutated (valid frame with 1-3 structural mutations, checksum usually re-fixed), BitFlip (valid frame <= 1472 B with 1-4 distinct bit flips through the real Frame::read), AckNonceByte (an ack frame with one group's nonce byte set to an arbitrary value, re-checksummed), CrcZero (a handshake ack / sync / SYN-ACK / data frame whose last four body bytes are solved for so that its checksum is exactly 0), Forms (a data frame of 1-7 datagrams written by the harness's own encoder, each datagram in a freely chosen header form among those that can hold its fields: must be read as exactly that frame). Non-trivial: RoundTrip with a field on an encoding threshold (len 63/64/255/256, W 127/128, H 255/256, L 0/1, 127 datagrams, >=155 ack groups) or a multi-datagram frame; Bytes/Mutated whose input passed the CRC gate; BitFlip always. Distinct = distinct serialised case. Plus an exhaustive decision of all 1..4-bit error patterns over 11776 bit positions (coverage.crc_enumeration).".into()
    }

    fn assumptions(&self) -> Vec<String> {
        vec![
            "reference decoder (harness/src/refcodec.rs) is written from the format comments in build.rs and the payload-size constants; it is lenient about reserved bits and non-canonical header choice".into(),
            "representable frame = channel<64, packet id<2^20, fragment_id==0 when last fragment id==0, <=127 datagrams, <=65535 ack groups, datagram payload<=65535".into(),
            "CRC enumeration assumes crc32(m) follows the table recurrence it was observed to follow on generated inputs (checked every run) with an affine table (checked exhaustively)".into(),
        ]
    }

    fn sample(&self, case: &Case) -> serde_json::Value {
        truncate_value(serde_json::to_value(case).unwrap(), 1)
    }

    fn run(&self, case: &Case) -> CaseResult {
        let mut classes: Vec<&'static str> = Vec::new();
        match case {
            Case::RoundTrip(sf) => {
                let f = sf.build();
                let bytes = f.write();
                let mut nontrivial = false;
                match sf {
                    SFrame::Data { dgs, .. } => {
                        classes.push("rt_data");
                        if dgs.len() >= 2 {
                            nontrivial = true;
                        }
                        if dgs.len() == 127 {
                            classes.push("rt_127_datagrams");
                        }
                        for d in dgs {
                            if d.l == 0 && d.len < 64 && d.w < 128 && d.h < 256 {
                                classes.push("dg_micro");
                            } else if d.l == 0 && d.len < 256 {
                                classes.push("dg_small");
                            } else {
                                classes.push("dg_large");
                            }
                            if matches!(d.len, 63 | 64 | 255 | 256) || matches!(d.w, 127 | 128) || matches!(d.h, 255 | 256) || d.l == 1 {
                                nontrivial = true;
                                classes.push("dg_on_threshold");
                            }
                        }
                    }
                    SFrame::AckF { groups, .. } => {
                        classes.push("rt_ack");
                        if groups.len() >= 155 {
                            nontrivial = true;
                            classes.push("rt_ack_many_groups");
                        }
                    }
                    SFrame::Sync { .. } => {
                        classes.push("rt_sync");
                        nontrivial = true;
                    }
                    _ => {
                        classes.push("rt_handshake_or_disconnect");
                        nontrivial = true;
                    }
                }
                match Frame::read(&bytes) {
                    Some(f2) if f2 == f => {}
                    other => {
                        return CaseResult::fail(
                            format!("oracle:roundtrip:{}", frame_kind(&f)),
                            format!("read(write(f)) != f\n f = {}\n got {:?}\n bytes = {}", short_frame(&f), other.as_ref().map(short_frame), hex(&bytes, 64)),
                        );
                    }
                }
                // the independent decoder must also regard the output as one well-formed frame
                if refcodec::decode(&bytes).is_none() {
                    return CaseResult::fail(
                        format!("oracle:writes_malformed:{}", frame_kind(&f)),
                        format!("Frame::write produced bytes the reference decoder does not accept as one well-formed frame: {} -> {}", short_frame(&f), hex(&bytes, 64)),
                    );
                }
                CaseResult::ok(nontrivial, classes)
            }
            Case::Bytes { data, fix_crc } => {
                let mut bytes = data.clone();
                if *fix_crc {
                    set_crc(&mut bytes);
                }
                classes.push("bytes_raw");
                match check_bytes(&bytes, &mut classes) {
                    Ok(_) => {
                        let nt = classes.contains(&"bytes_passed_crc_gate");
                        CaseResult::ok(nt, classes)
                    }
                    Err(v) => CaseResult { violation: Some(v), nontrivial: true, classes },
                }
            }
            Case::Mutated { frame, muts, fix_crc } => {
                let mut bytes = frame.build().write().to_vec();
                apply_mutations(&mut bytes, muts);
                if *fix_crc {
                    set_crc(&mut bytes);
                }
                classes.push("bytes_mutated");
                match check_bytes(&bytes, &mut classes) {
                    Ok(_) => {
                        let nt = classes.contains(&"bytes_passed_crc_gate");
                        CaseResult::ok(nt, classes)
                    }
                    Err(v) => CaseResult { violation: Some(v), nontrivial: true, classes },
                }
            }
            Case::Repeated { frame, times, count } => {
                let bytes = repeated_bytes(frame, *times, *count);
                classes.push("bytes_repeated_body");
                if bytes.len() > refcodec::MAX_FRAME {
                    classes.push("bytes_longer_than_any_datagram");
                }
                match check_bytes(&bytes, &mut classes) {
                    Ok(_) => {
                        let nt = classes.contains(&"bytes_passed_crc_gate");
                        CaseResult::ok(nt, classes)
                    }
                    Err(v) => CaseResult { violation: Some(v), nontrivial: true, classes },
                }
            }
            Case::AckNonceByte { .. } | Case::CrcZero { .. } => {
                let bytes = case_bytes(case);
                let zero_crc = matches!(case, Case::CrcZero { .. }) && bytes.len() >= 4 && bytes[bytes.len() - 4..] == [0, 0, 0, 0];
                classes.push(if matches!(case, Case::CrcZero { .. }) { if zero_crc { "checksum_exactly_zero" } else { "checksum_zero_not_constructible" } } else { "ack_group_nonce_byte_set" });
                match check_bytes(&bytes, &mut classes) {
                    Ok(_) => CaseResult::ok(true, classes),
                    Err(v) => CaseResult { violation: Some(v), nontrivial: true, classes },
                }
            }
            Case::Forms { seq, nonce, dgs, forms } => {
                let (bytes, used) = encode_with_forms(*seq, *nonce, dgs, forms);
                classes.push("bytes_free_header_forms");
                let want = SFrame::Data { seq: *seq, nonce: *nonce, dgs: dgs.iter().take(127).map(|d| SDatagram { seq: d.seq & 0xFFFFF, ch: d.ch & 63, len: d.len.min(65535), ..d.clone() }).collect() }.build();
                let longer_than_needed = dgs.iter().take(127).zip(used.iter()).any(|(d, u)| {
                    let unfragmented = d.f == 0 && d.l == 0;
                    let min_form = if unfragmented && d.len < 64 && d.w < 128 && d.h < 256 { 0 } else if unfragmented && d.len < 256 { 1 } else { 2 };
                    *u > min_form
                });
                if longer_than_needed {
                    classes.push("header_form_longer_than_needed");
                }
                if let Err(v) = check_bytes(&bytes, &mut classes) {
                    return CaseResult { violation: Some(v), nontrivial: true, classes };
                }
                match Frame::read(&bytes) {
                    Some(got) if got == want => CaseResult::ok(longer_than_needed, classes),
                    got => CaseResult::fail(
                        "oracle:rejects_or_misreads_wellformed:data_header_forms",
                        format!("a well-formed data frame whose datagrams use the header forms {:?} (0 micro, 1 small, 2 large; each can hold its fields) was read as {} instead of {}", used, got.as_ref().map_or("nothing (rejected)".to_string(), short_frame), short_frame(&want)),
                    ),
                }
            }
            Case::BitFlip { frame, positions } => {
                let f = frame.build();
                let mut bytes = f.write().to_vec();
                if bytes.len() > refcodec::MAX_FRAME {
                    classes.push("bitflip_skipped_oversize");
                    return CaseResult::ok(false, classes);
                }
                let nbits = bytes.len() * 8;
                let mut pos: Vec<usize> = positions.iter().map(|p| pick_index(*p, nbits)).collect();
                pos.sort();
                pos.dedup();
                for p in &pos {
                    bytes[p / 8] ^= 1 << (p % 8);
                }
                classes.push(match pos.len() {
                    1 => "bitflip_1",
                    2 => "bitflip_2",
                    3 => "bitflip_3",
                    _ => "bitflip_4",
                });
                if let Some(g) = Frame::read(&bytes) {
                    return CaseResult::fail(
                        "oracle:bitflip_accepted",
                        format!("frame of {} bytes with bits {:?} flipped was accepted as {}", bytes.len(), pos, short_frame(&g)),
                    );
                }
                CaseResult::ok(true, classes)
            }
        }
    }

    fn extra(&self, tier: Tier, seed: u64) -> ExtraResult {
        let mut out = crc_enumeration(seed);
        if tier == Tier::Thorough && out.violation.is_none() {
            // coverage-guided campaign over byte strings (same differential oracle inside the target),
            // seeded with a few valid frames of every type
            let mut seeds: Vec<Vec<u8>> = Vec::new();
            let mut rng = SplitMix::new(seed ^ 0xF0F0);
            for k in 0..9u8 {
                let f = match k {
                    0 => SFrame::Syn { version: 3, nonce: rng.next() as u32, rate: 1000, size: 1000, alloc: 1000 },
                    1 => SFrame::SynAck { nonce_ack: 1, nonce: 2, rate: 3, size: 4, alloc: 5 },
                    2 => SFrame::Ack { nonce_ack: 7 },
                    3 => SFrame::Error { nonce_ack: 7, code: 2 },
                    4 => SFrame::Disconnect,
                    5 => SFrame::DisconnectAck,
                    6 => SFrame::Data { seq: 9, nonce: true, dgs: vec![SDatagram { seq: 5, ch: 3, w: 1, h: 1, f: 0, l: 0, len: 20, fill: 1 }, SDatagram { seq: 6, ch: 63, w: 300, h: 300, f: 1, l: 2, len: 300, fill: 2 }] },
                    7 => SFrame::Sync { frame: Some(4), packet: Some(5) },
                    _ => SFrame::AckF { fbase: 1, pbase: 2, groups: vec![(1, 0xff, true), (40, 1, false)] },
                };
                let mut v = vec![1u8];
                v.extend_from_slice(&f.build().write());
                seeds.push(v);
            }
            let fz = run_fuzz("frame_read", 20_000_000, seed, 1473, &seeds);
            out.coverage.insert("fuzz_frame_read".into(), json!({"engine": "libFuzzer via cargo-fuzz", "execs": fz.execs, "note": fz.note, "artifact": fz.artifact.as_ref().map(|p| p.display().to_string())}));
            out.evaluations += fz.execs;
            if let Some(a) = fz.artifact {
                out.violation = Some((Violation::new("fuzz:frame_read", format!("libFuzzer target frame_read stopped on an input it saved as {}: {}", a.display(), fz.note)), json!({"artifact": a.display().to_string()})));
            }
        }
        out
    }
}

pub fn frame_kind(f: &Frame) -> &'static str {
    match f {
        Frame::HandshakeSynFrame(_) => "syn",
        Frame::HandshakeSynAckFrame(_) => "synack",
        Frame::HandshakeAckFrame(_) => "ack",
        Frame::HandshakeErrorFrame(_) => "error",
        Frame::DisconnectFrame(_) => "disconnect",
        Frame::DisconnectAckFrame(_) => "disconnectack",
        Frame::DataFrame(_) => "data",
        Frame::SyncFrame(_) => "sync",
        Frame::AckFrame(_) => "ackframe",
    }
}

/// Decides completely whether any pattern of one to four flipped bits in any frame of at most
/// 1472 bytes can go unnoticed by the checksum.
///
/// 1. T[x] := crc32(&[x]) for all 256 x (the table is observable because the register starts at
///    zero). T is checked exhaustively to be affine over GF(2): T[a]^T[b]^T[a^b]^T[0] == 0.
/// 2. crc32(m) is checked on generated messages (all lengths 0..=1468 plus random ones) to equal
///    the recurrence r' = (r >> 8) ^ T[(r ^ byte) & 0xff] from r = 0. With 1 this makes crc32
///    affine in m for a fixed length, so a corrupted frame (m^e, c^f) is accepted iff
///    L(e) == f, with L the linear part, which depends only on each flipped bit's distance
///    from the end of the frame.
/// 3. The 11776 syndromes of single-bit errors of a 1472-byte frame are computed (data bits via
///    the linear recurrence, checksum bits as unit vectors in the big-endian trailer) and
///    cross-checked against the real crc32 on single-bit differences. Then: no syndrome is zero,
///    all are distinct, no pairwise XOR equals a third syndrome, and all 69 331 200 pairwise XORs
///    are distinct. Shorter frames use a suffix of the same syndromes, so the decision covers
///    every frame length <= 1472.
fn crc_enumeration(seed: u64) -> ExtraResult {
    let mut out = ExtraResult::default();
    let t: Vec<u32> = (0..256u32).map(|x| crc32(&[x as u8])).collect();
    // 1. affine table
    for a in 0..256usize {
        for b in 0..256usize {
            if t[a] ^ t[b] ^ t[a ^ b] ^ t[0] != 0 {
                out.violation = Some((
                    Violation::new("oracle:crc_table_not_affine", format!("crc32 single-byte responses are not affine: T[{a}]^T[{b}]^T[{}]^T[0] != 0; single-bit error patterns can therefore cancel in a message-dependent way", a ^ b)),
                    json!({"a": a, "b": b}),
                ));
                return out;
            }
        }
    }
    let rec = |data: &[u8]| -> u32 {
        let mut r = 0u32;
        for &byte in data {
            r = (r >> 8) ^ t[((r ^ byte as u32) & 0xff) as usize];
        }
        r
    };
    // 2. recurrence agreement
    let mut rng = SplitMix::new(seed ^ 0xC16);
    let mut checked = 0u64;
    for len in 0..=1468usize {
        let data = rng.bytes(len);
        if rec(&data) != crc32(&data) {
            out.violation = Some((
                Violation::new("oracle:crc_not_table_recurrence", format!("crc32 differs from the table recurrence on a {len}-byte message; linearity argument does not apply")),
                json!({"len": len, "data_hex": hex(&data, 2000)}),
            ));
            return out;
        }
        checked += 1;
    }
    for _ in 0..2000 {
        let len = (rng.next() % 3000) as usize;
        let data = rng.bytes(len);
        if rec(&data) != crc32(&data) {
            out.violation = Some((Violation::new("oracle:crc_not_table_recurrence", format!("crc32 differs from the table recurrence on a {len}-byte message")), json!({"len": len, "data_hex": hex(&data, 6000)})));
            return out;
        }
        checked += 1;
    }
    // 3. syndromes
    let t0: Vec<u32> = t.iter().map(|v| v ^ t[0]).collect();
    let z = |r: u32| -> u32 { (r >> 8) ^ t0[(r & 0xff) as usize] };
    const DATA_BYTES: usize = 1468;
    let mut synd: Vec<u32> = Vec::with_capacity(DATA_BYTES * 8 + 32);
    // byte at distance d from the end of the data (d zero bytes follow it)
    let mut state: [u32; 8] = [0; 8];
    for b in 0..8 {
        state[b] = t0[1usize << b];
    }
    for _d in 0..DATA_BYTES {
        for b in 0..8 {
            synd.push(state[b]);
        }
        for b in 0..8 {
            state[b] = z(state[b]);
        }
    }
    // cross-check a sample of syndromes against the real crc32 on single-bit differences
    let base = rng.bytes(DATA_BYTES);
    let base_crc = crc32(&base);
    for k in 0..DATA_BYTES * 8 {
        if k % 7 != 0 && k > 64 && k < DATA_BYTES * 8 - 64 {
            continue;
        }
        let d = k / 8;
        let b = k % 8;
        let mut m = base.clone();
        m[DATA_BYTES - 1 - d] ^= 1 << b;
        if crc32(&m) ^ base_crc != synd[k] {
            out.violation = Some((Violation::new("oracle:crc_syndrome_mismatch", format!("single-bit difference at byte {} bit {} changes crc32 by {:08x}, the linear model predicts {:08x}", DATA_BYTES - 1 - d, b, crc32(&m) ^ base_crc, synd[k])), json!({"k": k})));
            return out;
        }
        checked += 1;
    }
    for i in 0..32 {
        synd.push(1u32 << i);
    }
    let n = synd.len();
    assert_eq!(n, 11776);
    // weight 1
    if let Some(k) = synd.iter().position(|&s| s == 0) {
        out.violation = Some((Violation::new("oracle:crc_undetected_1bit", format!("flipping the single bit with index {k} (counted from the end of the data) is not detected")), json!({"bits": [k]})));
        return out;
    }
    // weight 2
    let mut sorted: Vec<(u32, u32)> = synd.iter().enumerate().map(|(i, &s)| (s, i as u32)).collect();
    sorted.sort();
    for w in sorted.windows(2) {
        if w[0].0 == w[1].0 {
            out.violation = Some((Violation::new("oracle:crc_undetected_2bit", format!("flipping bits {} and {} (distance-from-end indices) is not detected", w[0].1, w[1].1)), json!({"bits": [w[0].1, w[1].1]})));
            return out;
        }
    }
    let keys: Vec<u32> = sorted.iter().map(|p| p.0).collect();
    // weight 3 and 4
    let mut bitset: Vec<u64> = vec![0u64; 1 << 26];
    let mut pairs = 0u64;
    for i in 0..n {
        let si = synd[i];
        for j in (i + 1)..n {
            let x = si ^ synd[j];
            pairs += 1;
            if keys.binary_search(&x).is_ok() {
                let k = sorted[keys.binary_search(&x).unwrap()].1;
                out.violation = Some((Violation::new("oracle:crc_undetected_3bit", format!("flipping bits {i}, {j} and {k} (distance-from-end indices) is not detected")), json!({"bits": [i, j, k]})));
                return out;
            }
            let w = (x >> 6) as usize;
            let m = 1u64 << (x & 63);
            if bitset[w] & m != 0 {
                // find the colliding pair
                let mut other = (0usize, 0usize);
                'f: for a in 0..n {
                    for b in (a + 1)..n {
                        if (a, b) != (i, j) && synd[a] ^ synd[b] == x {
                            other = (a, b);
                            break 'f;
                        }
                    }
                }
                out.violation = Some((
                    Violation::new("oracle:crc_undetected_4bit", format!("flipping bits {i}, {j}, {} and {} (distance-from-end indices) is not detected", other.0, other.1)),
                    json!({"bits": [i, j, other.0, other.1]}),
                ));
                return out;
            }
            bitset[w] |= m;
        }
    }
    out.evaluations = checked;
    out.distinct_nontrivial = 0;
    out.coverage.insert(
        "crc_enumeration".into(),
        json!({
            "exhaustive": true,
            "bit_positions": n,
            "single_bit_syndromes": n,
            "pairwise_xors_checked": pairs,
            "patterns_decided": "all C(11776,1)+C(11776,2)+C(11776,3)+C(11776,4) error patterns, for every frame length 5..=1472",
            "table_affinity_checks": 65536,
            "recurrence_and_syndrome_cross_checks": checked,
            "matches_documented_polynomial_0x132c00699": refcodec::crc_documented(&base) == base_crc,
        }),
    );
    out.coverage.insert("exhaustive".into(), json!(false));
    out.samples.push(json!({"crc_syndrome_examples": [format!("{:08x}", synd[0]), format!("{:08x}", synd[1]), format!("{:08x}", synd[11743])]}));
    out
}
