//! C07 — connections exist only after a nonce-validated 3-way handshake.

use crate::engine::*;
use crate::sim::world::*;
use proptest::prelude::*;
use serde::{Deserialize, Serialize};
use std::collections::HashMap;
use std::net::SocketAddr;
use uflow::verif::Serialize as _;
use uflow::verif::*;

#[derive(Clone, Debug, Serialize, Deserialize)]
pub struct ClientSpec {
    pub cfg: EpCfg,
    pub latency_us: [u32; 2],
    pub fates: [Vec<Fate>; 2],
    pub start_tick: u16,
    pub echoes: u8,
    pub echo_size: u16,
    /// after Connect the server pushes this many Reliable packets of `bulk_size` bytes to the client at once
    #[serde(default)]
    pub bulk: u8,
    #[serde(default)]
    pub bulk_size: u16,
    /// once connected, everything this client sends is lost for this long (the server may time the connection
    /// out while the client still believes in it)
    #[serde(default)]
    pub mute_after_connect_ms: u32,
    /// the client application calls disconnect() right after submitting its last (Reliable) echo packet - "on
    /// Connect: say something, then leave gracefully"
    #[serde(default)]
    pub leave_after_last_echo: bool,
}

#[derive(Clone, Debug, Serialize, Deserialize)]
pub enum NonceSel {
    Random(u32),
    /// the nonce of the chosen client's own SYN, plus offset
    ClientNonce(i8),
    /// the nonce of the latest SYN-ACK the server sent to the chosen client, plus offset
    ServerNonce(i8),
    /// the nonce of the first SYN-ACK the server ever sent to that address (stale if a later attempt exists)
    FirstServerNonce,
}

#[derive(Clone, Debug, Serialize, Deserialize)]
pub enum FKind {
    Syn { version: u8 },
    SynAck,
    Ack,
    Error(u8),
    Disconnect,
    DisconnectAck,
    /// not a forgery: a late network duplicate of a handshake frame that really travelled in this direction
    /// earlier (selected among those on the wire so far)
    Duplicate(u16),
}

#[derive(Clone, Debug, Serialize, Deserialize)]
pub struct Forge {
    pub at_tick: u16,
    /// client whose address / nonces are used
    pub client: u8,
    /// true: datagram goes to the server with the client's address as source; false: it goes to the
    /// client with the server's address as source
    pub to_server: bool,
    pub kind: FKind,
    pub nonce: NonceSel,
}

#[derive(Clone, Debug, Serialize, Deserialize)]
pub struct Case {
    pub seed: u64,
    pub server: ServerCfg,
    pub clients: Vec<ClientSpec>,
    pub forges: Vec<Forge>,
    pub ticks: u16,
    pub dt_us: u32,
    /// when present, a dedicated history runs instead: one address connects, closes, and connects again
    #[serde(default)]
    pub reconnect: Option<Reconnect>,
}

/// One address, two connections in a row: the first is closed gracefully (by either side); the server application
/// tidies up in its Disconnect handler (`Server::drop(addr)` of the lingering entry) or leaves the entry alone; the
/// client program starts again from the same local address `gap_ms` later; the first `lost` datagrams of the second
/// handshake are lost in the given direction; then both applications exchange a small Reliable packet every second
/// for 26 s on a loss-free link - beyond every timer the first connection may have left behind.
#[derive(Clone, Debug, Serialize, Deserialize)]
pub struct Reconnect {
    pub closed_by_client: bool,
    pub app_drops_closed_entry: bool,
    pub gap_ms: u32,
    pub lost: u8,
    pub lost_to_server: bool,
    pub latency_us: u32,
    pub step_us: u32,
}

fn run_reconnect(c: &Case, r: &Reconnect) -> CaseResult {
    let mut classes: Vec<&'static str> = vec!["reconnect_history"];
    let scfg = ServerCfg { handshake_errors: c.server.handshake_errors, ..ServerCfg::default() };
    let ccfg = EpCfg::default();
    let mut w = World::new(c.seed, &scfg);
    let lat = r.latency_us.min(100_000);
    let step = r.step_us.clamp(1_000, 50_000) as u64;
    let first = w.add_client(&ccfg, LinkState { latency_us: [lat, lat], ..LinkState::default() });
    let addr = w.clients[first].addr;
    let mut dropped_by_app = false;
    let mut tick = |w: &mut World, ci: usize, dropped_by_app: &mut bool, may_drop: bool| {
        w.advance(step);
        let evs = w.step_server();
        if may_drop && evs.iter().any(|e| matches!(e, SEv::Disconnect(a) if *a == addr)) && w.server_has_client(&addr) {
            // the application's Disconnect handler forgets the peer
            if let Some(server) = w.server.as_mut() {
                server.drop(&addr);
            }
            *dropped_by_app = true;
        }
        w.step_client(ci);
    };
    // first connection: connect, one packet each way, graceful close
    for _ in 0..(2_000_000 / step).max(40) {
        tick(&mut w, first, &mut dropped_by_app, false);
    }
    if !w.server_client_active(&addr) {
        return CaseResult::ok(false, classes);
    }
    w.client_send(first, world_payload(c.seed, 1, 0, 40), 0, 3);
    w.server_send(first, world_payload(c.seed, 2, 0, 40), 0, 3);
    for _ in 0..(1_000_000 / step).max(20) {
        tick(&mut w, first, &mut dropped_by_app, false);
    }
    if r.closed_by_client {
        if let Some(cl) = w.clients[first].client.as_mut() {
            cl.disconnect();
        }
    } else if let Some(server) = w.server.as_ref() {
        if let Some(rc) = server.client(&addr) {
            rc.borrow_mut().disconnect();
        }
    }
    for _ in 0..(1_000_000 / step).max(20) {
        tick(&mut w, first, &mut dropped_by_app, r.app_drops_closed_entry);
    }
    let closed = w.server_events.iter().any(|e| matches!(e.2, SEv::Disconnect(a) if a == addr)) && w.clients[first].events.iter().any(|e| matches!(e.2, CEv::Disconnect));
    if !closed {
        return CaseResult::ok(false, classes);
    }
    let t_closed = w.now_us;
    // an entry the application left alone lingers for 20 s and ignores connection requests meanwhile: wait it out then
    let gap_ms = if dropped_by_app { r.gap_ms % 19_000 } else { 21_000 + r.gap_ms % 5_000 } as u64;
    let t_again = w.now_us + gap_ms * 1000;
    while w.now_us < t_again {
        tick(&mut w, first, &mut dropped_by_app, false);
    }
    classes.push(if dropped_by_app { "closed_entry_dropped_by_the_application" } else { "closed_entry_left_to_linger" });
    // second connection from the same address
    let mut link = LinkState { latency_us: [lat, lat], ..LinkState::default() };
    link.fates[if r.lost_to_server { 0 } else { 1 }] = (0..r.lost.min(3)).map(|_| Fate::Drop).collect();
    let second = w.reincarnate_client(first, &ccfg, link);
    let n_connects_before = w.server_events.iter().filter(|e| matches!(e.2, SEv::Connect(a) if a == addr)).count();
    let mut sent = [0u32; 2];
    let mut next_send = w.now_us + 8_000_000;
    let t_end = w.now_us + 8_000_000 + 26_000_000;
    while w.now_us < t_end {
        tick(&mut w, second, &mut dropped_by_app, false);
        if w.now_us >= next_send {
            next_send += 1_000_000;
            w.client_send(second, world_payload(c.seed, 3, sent[0], 30), 1, 3);
            sent[0] += 1;
            if w.server_send(second, world_payload(c.seed, 4, sent[1], 30), 1, 3) {
                sent[1] += 1;
            }
        }
    }
    for _ in 0..(2_000_000 / step).max(40) {
        tick(&mut w, second, &mut dropped_by_app, false);
    }
    let c_events: Vec<String> = w.clients[second].events.iter().filter(|e| !matches!(e.2, CEv::Receive(_))).map(|e| format!("{:?}@{}", e.2, e.1)).collect();
    let s_events: Vec<String> = w.server_events.iter().filter(|e| e.1 > t_closed && !matches!(e.2, SEv::Receive(..))).map(|e| format!("{:?}@{}", e.2, e.1)).collect();
    let c_connects = w.clients[second].events.iter().filter(|e| matches!(e.2, CEv::Connect)).count();
    let s_connects = w.server_events.iter().filter(|e| matches!(e.2, SEv::Connect(a) if a == addr)).count() - n_connects_before;
    let c_term = w.clients[second].events.iter().any(|e| matches!(e.2, CEv::Disconnect | CEv::Error(_)));
    let s_term = w.server_events.iter().any(|e| e.1 > t_again && matches!(e.2, SEv::Disconnect(a) | SEv::Error(a, _) if a == addr));
    let got_s = w.server_events.iter().filter(|e| matches!(&e.2, SEv::Receive(a, d) if *a == addr && parse_world_payload(d).map_or(false, |p| p.0 == 3))).count() as u32;
    let got_c = w.clients[second].events.iter().filter(|e| matches!(&e.2, CEv::Receive(d) if parse_world_payload(d).map_or(false, |p| p.0 == 4))).count() as u32;
    let detail = format!("first connection of {addr} closed by the {} at t={t_closed} us, closed entry {}, same address connects again {gap_ms} ms later ({} datagrams lost towards the {}): client events {:?}; server events since the close {:?}; echo packets client->server {}/{} delivered, server->client {}/{}", if r.closed_by_client { "client" } else { "server" }, if dropped_by_app { "dropped by the server application in its Disconnect handler" } else { "left to linger" }, r.lost.min(3), if r.lost_to_server { "server" } else { "client" }, c_events, s_events, got_s, sent[0], got_c, sent[1]);
    if c_connects != 1 || s_connects != 1 {
        return CaseResult::fail("oracle:c07:reconnect:not_one_connect_per_side", format!("the second handshake yielded {c_connects} Connect on the client and {s_connects} on the server; {detail}"));
    }
    if c_term || s_term || got_s != sent[0] || got_c != sent[1] || !w.server_client_active(&addr) {
        return CaseResult::fail("oracle:c07:reconnect:connection_reset_by_leftovers_of_its_predecessor", format!("the second connection did not survive 26 s of regular exchange on a loss-free link; {detail}"));
    }
    CaseResult::ok(true, classes)
}

pub struct C07;

fn epcfg_strategy() -> impl Strategy<Value = EpCfg> {
    (
        prop_oneof![3 => Just(2_000_000u32), 2 => 2_000u32..200_000, 1 => Just(u32::MAX)],
        prop_oneof![3 => Just(2_000_000u32), 2 => 2_000u32..200_000, 1 => Just(u32::MAX)],
        prop_oneof![3 => Just(100_000u32), 2 => 1u32..50_000, 1 => Just(1_000_000u32)],
        prop_oneof![3 => Just(1_000_000u32), 2 => 1u32..120_000, 1 => Just(u32::MAX), 1 => Just(0u32)],
        // configuration values of 2^32 and beyond (4 GiB, 8 GiB ... receive allocations, rates): advertised saturated
        (prop_oneof![6 => Just(0u8), 1 => Just(1u8), 1 => Just(2u8), 1 => any::<u8>()], prop_oneof![8 => Just(0u8), 1 => Just(1u8), 1 => any::<u8>()]),
    )
        .prop_map(|(max_send_rate, max_receive_rate, max_packet_size, max_receive_alloc, (alloc_high, rate_high))| EpCfg { max_send_rate, max_receive_rate, max_packet_size, max_receive_alloc, keepalive: true, keepalive_interval_ms: 1000, active_timeout_ms: 20000, alloc_high, rate_high })
}

fn hs_fate() -> impl Strategy<Value = Fate> {
    prop_oneof![
        6 => prop_oneof![Just(0u32), 0u32..50_000, 50_000u32..3_000_000].prop_map(Fate::Deliver),
        3 => Just(Fate::Drop),
        2 => (0u32..100_000, 0u32..5_000_000).prop_map(|(a, b)| Fate::Dup(a, b)),
        1 => proptest::collection::vec(any::<u16>(), 1..=3).prop_map(Fate::Corrupt),
    ]
}

fn client_strategy() -> impl Strategy<Value = ClientSpec> {
    (
        epcfg_strategy(),
        (0u32..100_000, 0u32..100_000),
        // (one client in ten: exactly the first nine or ten copies of the server's SYN-ACK are lost, so that the handshake
        // completes on the very last retransmissions, 18-20 s after the request)
        (proptest::collection::vec(hs_fate(), 0..12), prop_oneof![9 => proptest::collection::vec(hs_fate(), 0..12), 1 => (9usize..11).prop_map(|n| vec![Fate::Drop; n])]),
        0u16..60,
        0u8..12,
        5u16..3000,
        prop_oneof![2 => Just(0u8), 1 => 1u8..60],
        prop_oneof![Just(1448u16), Just(4000u16), 5u16..6000],
        prop_oneof![4 => Just(0u32), 1 => 1_000u32..30_000],
        prop_oneof![3 => Just(false), 1 => Just(true)],
    )
        .prop_map(|(cfg, (l0, l1), (f0, f1), start_tick, echoes, echo_size, bulk, bulk_size, mute_after_connect_ms, leave_after_last_echo)| ClientSpec { cfg, latency_us: [l0, l1], fates: [f0, f1], start_tick, echoes, echo_size, bulk, bulk_size, mute_after_connect_ms, leave_after_last_echo })
}

fn forge_strategy() -> impl Strategy<Value = Forge> {
    (
        any::<u16>(),
        0u8..6,
        any::<bool>(),
        prop_oneof![
            2 => prop_oneof![4 => Just(3u8), 1 => any::<u8>()].prop_map(|version| FKind::Syn { version }),
            3 => Just(FKind::SynAck),
            4 => Just(FKind::Ack),
            3 => (0u8..3).prop_map(FKind::Error),
            1 => Just(FKind::Disconnect),
            1 => Just(FKind::DisconnectAck),
            4 => any::<u16>().prop_map(FKind::Duplicate),
        ],
        prop_oneof![
            3 => any::<u32>().prop_map(NonceSel::Random),
            2 => prop_oneof![Just(0i8), Just(1i8), Just(-1i8)].prop_map(NonceSel::ClientNonce),
            3 => prop_oneof![Just(1i8), Just(-1i8), Just(2i8)].prop_map(NonceSel::ServerNonce),
            1 => Just(NonceSel::FirstServerNonce),
        ],
    )
        .prop_map(|(at_tick, client, to_server, kind, nonce)| Forge { at_tick, client, to_server, kind, nonce })
}

struct Obs {
    /// nonce of each SYN the client at this address put on the wire
    client_syn_nonce: HashMap<SocketAddr, u32>,
    /// nonces of SYN-ACKs the server sent to this address, in order of first appearance, with wire seq
    server_synack: HashMap<SocketAddr, Vec<(u32, u64)>>,
    seen: usize,
}

impl Obs {
    fn update(&mut self, w: &World) {
        while self.seen < w.wire.len() {
            let r = &w.wire[self.seen];
            self.seen += 1;
            match Frame::read(&r.bytes) {
                Some(Frame::HandshakeSynFrame(f)) if r.to == w.server_addr => {
                    self.client_syn_nonce.insert(r.from, f.nonce);
                }
                Some(Frame::HandshakeSynAckFrame(f)) if r.from == w.server_addr => {
                    let v = self.server_synack.entry(r.to).or_default();
                    if v.last().map_or(true, |l| l.0 != f.nonce) {
                        v.push((f.nonce, r.seq));
                    }
                }
                _ => {}
            }
        }
    }
}

impl Check for C07 {
    type Case = Case;

    fn id(&self) -> &'static str {
        "C07"
    }

    fn strategy(&self, tier: Tier) -> BoxedStrategy<Case> {
        (
            any::<u64>(),
            // limits: generous, exactly the number of clients (no refusal is ever legitimate then), or tight
            (epcfg_strategy(), prop_oneof![3 => Just(32u32), 1 => Just(0u32), 1 => 1u32..4], prop_oneof![3 => Just(4096u32), 2 => Just(0u32), 1 => 1u32..4]),
            proptest::collection::vec(client_strategy(), 1..tier.pick(5, 10)),
            proptest::collection::vec(forge_strategy(), 0..tier.pick(10, 30)),
            60u16..tier.pick(400, 1200),
            prop_oneof![Just(10_000u32), Just(30_000u32), Just(100_000u32), Just(400_000u32)],
        )
            .prop_map(|(seed, (mut ep, max_active, max_total), clients, forges, ticks, dt_us)| {
                let n = clients.len() as u32;
                // a third of the servers give up on a silent peer long before the clients do
                ep.active_timeout_ms = match seed % 3 {
                    0 => 1500 + (seed >> 8) as u32 % 3000,
                    _ => 20000,
                };
                // 0 stands for "exactly as many as there are clients"
                let max_active = if max_active == 0 { n } else { max_active };
                let max_total = if max_total == 0 { n } else { max_total };
                Case { seed, server: ServerCfg { max_total, max_active, handshake_errors: (seed >> 5) & 3 != 0, ep }, clients, forges, ticks, dt_us, reconnect: if seed % 14 == 5 { Some(Reconnect { closed_by_client: (seed >> 9) & 1 == 0, app_drops_closed_entry: (seed >> 10) % 3 != 0, gap_ms: (seed >> 20) as u32 % 100_000, lost: ((seed >> 40) % 4) as u8, lost_to_server: (seed >> 44) & 1 == 0, latency_us: ((seed >> 48) % 60_000) as u32, step_us: [2_000u32, 10_000, 16_000, 50_000][((seed >> 56) % 4) as usize] }) } else { None } }
            })
            .boxed()
    }

    fn cases(&self, tier: Tier) -> u64 {
        tier.pick(120_000, 1_000_000)
    }

    fn max_shrink_iters(&self) -> u32 {
        1500
    }

    fn rule(&self) -> String {
        "one case in fourteen is a Reconnect history: one address connects, exchanges a packet each way and closes gracefully (either side asks); the server application drops the lingering entry in its Disconnect handler (two cases in three; the same address then connects again 0-19 s later) or leaves it alone (the address comes back after 21-26 s); up to three datagrams of the second handshake are lost; then both applications exchange a Reliable packet every second for 26 s on a loss-free link: exactly one Connect per side for the second handshake, no terminal event, every packet delivered - nothing the first connection left behind (timers, entries) may reset or replace the second. Otherwise: case = World with a real Server and 1-4 (quick) real Clients whose configurations are generated independently (compatible or not; receive allocations and rates of 2^32 and beyond included, which are advertised saturated), each on its own link with per-datagram fates for the handshake frames (delay up to 3 s, drop, duplicate up to 5 s apart, corrupt), starting at generated ticks (simultaneous handshakes), one client in ten losing exactly the first nine or ten SYN-ACKs, plus late network duplicates of handshake frames that really travelled (never counted as forgeries), clients that call disconnect() right after submitting their last Reliable packet (one in four), clients whose frames are lost for 1-30 s after they connected while a third of the servers time silent peers out after 1.5-4.5 s, and forged handshake / disconnect frames injected at generated moments with spoofed source addresses (a client's address towards the server, the server's address towards a client) carrying random nonces, genuine nonces +-1, the genuine current nonce, or the nonce of an earlier attempt. After Connect each client runs an ordered echo stream through the server, and the server may push a burst of Reliable packets larger than the client's advertised receive allocation. Monitor oracle over wire and events: server Connect(a) only after an ACK from a carrying the nonce of the latest SYN-ACK sent to a was delivered; client Connect only after a SYN-ACK echoing its SYN nonce was delivered; at most one Connect per client and per server-side connection; the server's Connect never precedes the client's, and once a client is connected and frames are delivered promptly the server reports its Connect within three SYN-ACK repeat intervals (as long as its 22 s handshake budget and the client's timeout allow); no server Connect later than the 22 s budget of its handshake (a stale ACK creates nothing, with handshake errors reported or not); first data frame ids equal the advertised nonces; every connection the server reports was completed with the server nonce the client accepted (a connection is never re-created behind a living client's back); refusals carry the error the documented rule demands and the client reports the same error (ServerFull only when the server's limits are below the number of clients: a client is never refused on account of its own pending entry); no Error event on a client that has connected unless it is a Timeout; echo streams arrive in order without gaps for Reliable packets; the server does not report Error(Timeout) for a connection sooner than its active timeout after Connect, and does not forget a reported connection without a terminal event (addresses that were sent forged frames excepted); bytes per second on the wire stay within min(local max_send_rate, peer max_receive_rate); the bytes the server has outstanding towards a client (fragment-rounded, judged from the wire and the acks delivered) never exceed the max_receive_alloc that client advertised. Non-trivial = at least one handshake frame was lost, duplicated, corrupted or forged. Distinct = distinct serialised case.".into()
    }

    fn assumptions(&self) -> Vec<String> {
        vec![
            "a forged frame carrying the genuine current nonce is an on-path attacker and may legitimately complete or refuse a handshake; the oracle only requires that whatever completes a handshake carries the right nonce".into(),
            "the documented refusal rule: version != 3 -> Version; client max_receive_alloc < server max_packet_size or client max_packet_size > server max_receive_alloc -> Config; limits reached -> ServerFull".into(),
        ]
    }

    fn sample(&self, case: &Case) -> serde_json::Value {
        truncate_value(serde_json::to_value(case).unwrap(), 1)
    }

    fn run(&self, c: &Case) -> CaseResult {
        if let Some(r) = &c.reconnect {
            return run_reconnect(c, r);
        }
        let mut classes: Vec<&'static str> = Vec::new();
        let mut w = World::new(c.seed, &c.server);
        let mut obs = Obs { client_syn_nonce: HashMap::new(), server_synack: HashMap::new(), seen: 0 };
        let n = c.clients.len();
        let mut ci_of: Vec<Option<usize>> = vec![None; n];
        let mut connected_at: Vec<Option<u16>> = vec![None; n];
        let mut sent_echo: Vec<u32> = vec![0; n];
        let mut recv_echo: Vec<u32> = vec![0; n];
        let mut bulk_sent: Vec<u32> = vec![0; n];
        let mut bulk_recv: Vec<u32> = vec![0; n];
        let mut forged = 0u32;
        let mut duplicated = 0u32;
        let mut forged_current_ack: std::collections::HashSet<SocketAddr> = std::collections::HashSet::new();
        let mut forged_current_error: std::collections::HashSet<SocketAddr> = std::collections::HashSet::new();
        let mut forged_disconnect: std::collections::HashSet<SocketAddr> = std::collections::HashSet::new();
        let mut forged_current_synack: std::collections::HashSet<SocketAddr> = std::collections::HashSet::new();
        let mut forged_any: std::collections::HashSet<SocketAddr> = std::collections::HashSet::new();
        // addresses that were sent a forged frame carrying a GENUINE current nonce (only an on-path attacker knows it)
        let mut on_path: std::collections::HashSet<SocketAddr> = std::collections::HashSet::new();
        let dt = c.dt_us.max(1000) as u64;

        for tick in 0..c.ticks {
            w.advance(dt);
            for (k, spec) in c.clients.iter().enumerate() {
                if spec.start_tick == tick && ci_of[k].is_none() {
                    let link = LinkState { latency_us: spec.latency_us, fates: spec.fates.clone(), ..LinkState::default() };
                    ci_of[k] = Some(w.add_client(&spec.cfg, link));
                }
            }
            obs.update(&w);
            // forged frames scheduled for this tick
            for f in c.forges.iter() {
                if crate::engine::pick_index(f.at_tick, c.ticks as usize) != tick as usize {
                    continue;
                }
                let k = (f.client as usize) % n;
                let Some(ci) = ci_of[k] else { continue };
                let caddr = w.clients[ci].addr;
                let cn = obs.client_syn_nonce.get(&caddr).copied();
                let sn = obs.server_synack.get(&caddr).and_then(|v| v.last()).map(|p| p.0);
                let first_sn = obs.server_synack.get(&caddr).and_then(|v| v.first()).map(|p| p.0);
                if let FKind::Duplicate(sel) = &f.kind {
                    let (from, to) = if f.to_server { (caddr, w.server_addr) } else { (w.server_addr, caddr) };
                    let cands: Vec<usize> = w.wire.iter().enumerate().filter(|(_, r)| r.from == from && r.to == to && r.bytes.first().map_or(false, |b| *b < 4)).map(|(j, _)| j).collect();
                    if !cands.is_empty() {
                        let bytes = w.wire[cands[crate::engine::pick_index(*sel, cands.len())]].bytes.clone();
                        w.send_raw(from, to, &bytes, 0);
                        duplicated += 1;
                    }
                    continue;
                }
                let nonce = match &f.nonce {
                    NonceSel::Random(v) => *v,
                    NonceSel::ClientNonce(o) => cn.unwrap_or(12345).wrapping_add(*o as i32 as u32),
                    NonceSel::ServerNonce(o) => sn.unwrap_or(54321).wrapping_add(*o as i32 as u32),
                    NonceSel::FirstServerNonce => first_sn.unwrap_or(999),
                };
                let frame = match &f.kind {
                    // a SYN carrying the client's genuine nonce is a duplicate of the genuine request (same limits);
                    // any other forged SYN advertises limits of its own
                    FKind::Syn { version } if Some(nonce) == cn => {
                        let e = c.clients[k].cfg.to_endpoint();
                        Frame::HandshakeSynFrame(HandshakeSynFrame { version: *version, nonce, max_receive_rate: e.max_receive_rate.min(u32::MAX as usize) as u32, max_packet_size: e.max_packet_size.min(u32::MAX as usize) as u32, max_receive_alloc: e.max_receive_alloc.min(u32::MAX as usize) as u32 })
                    }
                    FKind::Syn { version } => Frame::HandshakeSynFrame(HandshakeSynFrame { version: *version, nonce, max_receive_rate: 1_000_000, max_packet_size: 1000, max_receive_alloc: u32::MAX }),
                    FKind::SynAck => Frame::HandshakeSynAckFrame(HandshakeSynAckFrame { nonce_ack: nonce, nonce: nonce ^ 0x5555, max_receive_rate: 1_000_000, max_packet_size: 1000, max_receive_alloc: 1_000_000 }),
                    FKind::Ack => Frame::HandshakeAckFrame(HandshakeAckFrame { nonce_ack: nonce }),
                    FKind::Error(code) => Frame::HandshakeErrorFrame(HandshakeErrorFrame {
                        nonce_ack: nonce,
                        error: match code % 3 {
                            0 => HandshakeErrorType::Version,
                            1 => HandshakeErrorType::Config,
                            _ => HandshakeErrorType::ServerFull,
                        },
                    }),
                    FKind::Disconnect => Frame::DisconnectFrame(DisconnectFrame {}),
                    FKind::DisconnectAck => Frame::DisconnectAckFrame(DisconnectAckFrame {}),
                    FKind::Duplicate(_) => unreachable!(),
                };
                forged_any.insert(caddr);
                let knows_nonce = match &f.kind {
                    FKind::Syn { .. } | FKind::SynAck | FKind::Error(_) => Some(nonce) == cn,
                    FKind::Ack => Some(nonce) == sn || (first_sn.is_some() && Some(nonce) == first_sn),
                    _ => false,
                };
                if knows_nonce {
                    on_path.insert(caddr);
                }
                // bookkeeping: forged frames that happen to carry the genuine nonce are on-path attacks
                if f.to_server {
                    if matches!(f.kind, FKind::Ack) && Some(nonce) == sn {
                        forged_current_ack.insert(caddr);
                    }
                    if matches!(f.kind, FKind::Disconnect | FKind::DisconnectAck) {
                        forged_disconnect.insert(caddr);
                    }
                    if matches!(f.kind, FKind::Syn { .. }) {
                        // a forged SYN from the client's address may create (or be refused as) an attempt of its own
                        forged_current_ack.insert(caddr);
                        forged_current_error.insert(caddr);
                        forged_current_synack.insert(caddr);
                    }
                    w.send_raw(caddr, w.server_addr, &frame.write(), 0);
                } else {
                    if matches!(f.kind, FKind::Error(_)) && Some(nonce) == cn {
                        forged_current_error.insert(caddr);
                    }
                    if matches!(f.kind, FKind::SynAck) && Some(nonce) == cn {
                        forged_current_synack.insert(caddr);
                    }
                    if matches!(f.kind, FKind::Disconnect | FKind::DisconnectAck) {
                        forged_disconnect.insert(caddr);
                    }
                    w.send_raw(w.server_addr, caddr, &frame.write(), 0);
                }
                forged += 1;
            }
            // server: echo everything back on the same channel, reliably
            let sev = w.step_server();
            for e in sev {
                match e {
                    SEv::Receive(a, data) => {
                        if let Some(ci) = w.addr_to_client.get(&a).copied() {
                            w.server_send(ci, data.to_vec(), 1, 3);
                        }
                    }
                    SEv::Connect(a) => {
                        // bulk push: exercises the allocation limit the client advertised
                        if let Some(ci) = w.addr_to_client.get(&a).copied() {
                            if let Some(k) = ci_of.iter().position(|x| *x == Some(ci)) {
                                let size = (c.clients[k].bulk_size as usize).min(c.server.ep.max_packet_size as usize).max(5);
                                if size <= c.server.ep.max_packet_size as usize {
                                    for j in 0..c.clients[k].bulk {
                                        w.server_send(ci, world_payload(c.seed, 150, j as u32, size), 2, 3);
                                    }
                                    bulk_sent[k] = c.clients[k].bulk as u32;
                                }
                            }
                        }
                    }
                    _ => {}
                }
            }
            w.flush_server();
            for k in 0..n {
                let Some(ci) = ci_of[k] else { continue };
                let evs = w.step_client(ci);
                for e in evs {
                    match e {
                        CEv::Connect => {
                            if connected_at[k].is_some() {
                                return CaseResult::fail("oracle:c07:client_connect_twice", format!("client {k} reported Connect a second time at tick {tick}"));
                            }
                            connected_at[k] = Some(tick);
                            if c.clients[k].mute_after_connect_ms > 0 {
                                w.links[ci].blackout_until_us[0] = w.now_us + c.clients[k].mute_after_connect_ms as u64 * 1000;
                            }
                        }
                        CEv::Receive(data) if parse_world_payload(&data).map_or(false, |p| p.0 == 150) => {
                            bulk_recv[k] += 1;
                        }
                        CEv::Receive(data) => match parse_world_payload(&data) {
                            Some((stream, idx)) if stream == k as u8 && idx == recv_echo[k] && data[..] == world_payload(c.seed, stream, idx, echo_len(c, k))[..] => {
                                recv_echo[k] += 1;
                            }
                            other => {
                                return CaseResult::fail("oracle:c07:echo_stream_discontinuity", format!("client {k} expected echo #{} of its own stream, received {:?} ({} bytes)", recv_echo[k], other, data.len()));
                            }
                        },
                        _ => {}
                    }
                }
                if connected_at[k].is_some() && sent_echo[k] < c.clients[k].echoes as u32 {
                    let size = echo_len(c, k);
                    if size >= 5 {
                        w.client_send(ci, world_payload(c.seed, k as u8, sent_echo[k], size), 1, 3);
                    }
                    sent_echo[k] += 1;
                    if c.clients[k].leave_after_last_echo && size >= 5 && sent_echo[k] == c.clients[k].echoes as u32 {
                        if let Some(cl) = w.clients[ci].client.as_mut() {
                            cl.disconnect();
                        }
                    }
                    w.flush_client(ci);
                }
            }
        }
        obs.update(&w);

        // ---------------- monitor over the logs -----------------------------------------------------
        // ACKs delivered to the server, per source address: (event seq, nonce_ack)
        let mut acks_delivered: HashMap<SocketAddr, Vec<(u64, u32)>> = HashMap::new();
        let mut synacks_delivered: HashMap<SocketAddr, Vec<(u64, u32)>> = HashMap::new();
        let mut synacks_delivered_full: HashMap<SocketAddr, Vec<(u64, u32, u32)>> = HashMap::new();
        for d in w.delivered.iter() {
            match Frame::read(&d.bytes) {
                Some(Frame::HandshakeAckFrame(f)) if d.to == w.server_addr => acks_delivered.entry(d.from).or_default().push((d.seq, f.nonce_ack)),
                Some(Frame::HandshakeSynAckFrame(f)) if d.from == w.server_addr => {
                    synacks_delivered.entry(d.to).or_default().push((d.seq, f.nonce_ack));
                    synacks_delivered_full.entry(d.to).or_default().push((d.seq, f.nonce_ack, f.nonce));
                }
                _ => {}
            }
        }
        // server side
        let mut server_connects: HashMap<SocketAddr, u32> = HashMap::new();
        for (seq, t, e) in w.server_events.iter() {
            if let SEv::Connect(a) = e {
                *server_connects.entry(*a).or_insert(0) += 1;
                // latest SYN-ACK nonce sent to a before this event
                let latest = obs.server_synack.get(a).and_then(|v| v.iter().filter(|p| p.1 < *seq).last()).map(|p| p.0);
                let ok = match latest {
                    Some(nonce) => acks_delivered.get(a).map_or(false, |v| v.iter().any(|(s, n)| *s < *seq && *n == nonce)),
                    None => false,
                };
                // the handshake budget: a pending entry lives for 1 + 10 SYN-ACK transmissions 2 s apart; an ACK that arrives
                // later than that is a stale frame and must not create a connection (whatever the server's error-reporting
                // option says)
                if let Some(nonce) = latest {
                    if let Some(t0) = w.wire.iter().find(|r| r.from == w.server_addr && r.to == *a && matches!(Frame::read(&r.bytes), Some(Frame::HandshakeSynAckFrame(f)) if f.nonce == nonce)).map(|r| r.t_us) {
                        if *t > t0 + 22_000_000 + 4 * dt + 100_000 {
                            return CaseResult::fail(
                                "oracle:c07:connection_created_after_handshake_budget",
                                format!("server reported Connect({a}) at t={t} us; the SYN-ACK of that handshake (nonce {nonce}) was first sent at t={t0} us, so its 22 s budget had long run out: a stale handshake ACK created a connection (handshake errors enabled: {})", c.server.handshake_errors),
                            );
                        }
                    }
                }
                if !ok {
                    return CaseResult::fail(
                        "oracle:c07:server_connect_without_nonce",
                        format!("server reported Connect({a}) at t={t} us, but no ACK carrying the nonce of the latest SYN-ACK sent to that address ({:?}) had been delivered from it; ACKs delivered from it: {:?}", latest, acks_delivered.get(a)),
                    );
                }
            }
        }
        for k in 0..n {
            let Some(ci) = ci_of[k] else { continue };
            let slot = &w.clients[ci];
            let a = slot.addr;
            let my_nonce = obs.client_syn_nonce.get(&a).copied();
            // client side Connect needs a delivered SYN-ACK echoing its nonce
            for (seq, t, e) in slot.events.iter() {
                match e {
                    CEv::Connect => {
                        let ok = my_nonce.map_or(false, |n| synacks_delivered.get(&a).map_or(false, |v| v.iter().any(|(s, na)| *s < *seq && *na == n)));
                        if !ok {
                            return CaseResult::fail("oracle:c07:client_connect_without_nonce", format!("client {k} reported Connect at t={t} us without having received a SYN-ACK echoing its nonce {:?}", my_nonce));
                        }
                    }
                    CEv::Error(err) => {
                        let was_connected = slot.events.iter().any(|(s2, _, e2)| *s2 < *seq && matches!(e2, CEv::Connect));
                        if was_connected && *err != SErr::Timeout {
                            return CaseResult::fail("oracle:c07:handshake_error_on_established_connection", format!("client {k} reported Error({:?}) at t={t} us after it had connected", err));
                        }
                        if !was_connected && *err != SErr::Timeout && !forged_current_error.contains(&a) {
                            // must match the documented refusal rule
                            let want = expected_refusal(&c.server, &c.clients[k].cfg);
                            let full_possible = c.server.max_active < n as u32 || c.server.max_total < n as u32;
                            let ok = match want {
                                Some(wanted) => *err == wanted || (*err == SErr::ServerFull && full_possible),
                                None => *err == SErr::ServerFull && full_possible,
                            };
                            if !ok {
                                return CaseResult::fail(
                                    "oracle:c07:wrong_refusal",
                                    format!("client {k} (cfg {:?}) was refused with {:?} by a server with cfg {:?}; the documented rule gives {:?}", c.clients[k].cfg, err, c.server.ep, want),
                                );
                            }
                        }
                    }
                    _ => {}
                }
            }
            let connected = slot.events.iter().any(|(_, _, e)| matches!(e, CEv::Connect));
            let refused_rule = expected_refusal(&c.server, &c.clients[k].cfg);
            if connected && refused_rule.is_some() && !forged_current_synack.contains(&a) {
                return CaseResult::fail("oracle:c07:connected_despite_mismatch", format!("client {k} connected although the documented rule refuses it with {:?} (client {:?}, server {:?})", refused_rule, c.clients[k].cfg, c.server.ep));
            }
            if server_connects.get(&a).copied().unwrap_or(0) > 1 && !forged_disconnect.contains(&a) {
                // a second server-side connection for the same address needs a terminal event in between (C08 checks the order);
                // here: the client connected only once, so two server connections mean a replaced / duplicated connection
                let terminals = w.server_events.iter().filter(|(_, _, e)| matches!(e, SEv::Disconnect(x) | SEv::Error(x, _) if x == &a)).count();
                if terminals == 0 {
                    return CaseResult::fail("oracle:c07:server_connect_twice", format!("server reported Connect({a}) {} times without a terminal event in between", server_connects[&a]));
                }
            }
            // both ends agree on the starting sequence numbers of EVERY connection the server reports: the SYN-ACK whose
            // acknowledgement connects the server carries the server nonce of the SYN-ACK the client accepted. A late
            // duplicate of the client's SYN that reaches a server which has meanwhile forgotten the connection must not
            // be completed into a second server-side connection by the client that still lives in the first one.
            if !on_path.contains(&a) {
                let c_conn_seq = slot.events.iter().find(|(_, _, e)| matches!(e, CEv::Connect)).map(|p| p.0);
                if let (Some(cseq), Some(mine)) = (c_conn_seq, my_nonce) {
                    let accepted = synacks_delivered_full.get(&a).and_then(|v| v.iter().filter(|(s, na, _)| *s < cseq && *na == mine).last().map(|p| p.2));
                    for (sseq, st, e) in w.server_events.iter() {
                        if !matches!(e, SEv::Connect(x) if x == &a) {
                            continue;
                        }
                        let sn = obs.server_synack.get(&a).and_then(|v| v.iter().filter(|p| p.1 < *sseq).last()).map(|p| p.0);
                        if let (Some(sn), Some(acc)) = (sn, accepted) {
                            if sn != acc {
                                return CaseResult::fail(
                                    "oracle:c07:connection_recreated_with_nonce_the_client_never_accepted",
                                    format!("server reported Connect({a}) at t={st} us for a handshake whose SYN-ACK carried server nonce {sn}; client {k} connected once, accepting server nonce {acc}, and never started another attempt: the two ends do not agree on the starting sequence numbers of this connection ({duplicated} late duplicates of genuine handshake frames were delivered, no forged frame touched this address)"),
                                );
                            }
                        }
                    }
                }
            }
            // exactly one Connect on EACH side: the server's Connect follows the client's (the client acknowledges the
            // SYN-ACK that connects it), and once the client is connected and frames flow, the server's pending
            // entry must be promoted by one of the re-acknowledged SYN-ACK repeats (2 s apart)
            {
                let c_conn = slot.events.iter().find(|(_, _, e)| matches!(e, CEv::Connect)).map(|p| (p.0, p.1));
                let s_conn = w.server_events.iter().find(|(_, _, e)| matches!(e, SEv::Connect(x) if x == &a)).map(|p| (p.0, p.1));
                if let Some((sseq, st)) = s_conn {
                    // (a forged SYN with a nonce of the forger's own choice may open an attempt at the server, but
                    // nobody can complete it: the client only acknowledges a SYN-ACK echoing its own nonce)
                    if c_conn.map_or(true, |(cseq, _)| cseq > sseq) && !on_path.contains(&a) {
                        return CaseResult::fail("oracle:c07:server_connected_before_client", format!("server reported Connect({a}) at t={st} us although client {k} had not connected (client Connect: {:?}); no forged frame carried a genuine nonce", c_conn));
                    }
                }
                if let (Some((_, tc)), None, false) = (c_conn, s_conn, forged_any.contains(&a)) {
                    // time from which every datagram between the two was delivered promptly
                    let mut t0 = tc;
                    for r in w.wire.iter().filter(|r| (r.from == a && r.to == w.server_addr) || (r.from == w.server_addr && r.to == a)) {
                        let late = match &r.fate {
                            Fate::Deliver(d) => if *d > 100_000 { Some(*d as u64) } else { None },
                            Fate::Dup(x, y) => Some((*x).max(*y) as u64),
                            _ => Some(0),
                        };
                        if let Some(l) = late {
                            t0 = t0.max(r.t_us + l);
                        }
                    }
                    let lat = (c.clients[k].latency_us[0] + c.clients[k].latency_us[1]) as u64;
                    let need = t0 + 3 * 2_000_000 + 1_000_000 + 4 * lat + 4 * dt;
                    let first_synack = w.wire.iter().find(|r| r.from == w.server_addr && r.to == a && matches!(Frame::read(&r.bytes), Some(Frame::HandshakeSynAckFrame(_)))).map(|r| r.t_us);
                    let refused = w.wire.iter().any(|r| r.from == w.server_addr && r.to == a && matches!(Frame::read(&r.bytes), Some(Frame::HandshakeErrorFrame(_))));
                    let client_ended = slot.events.iter().find(|(_, _, e)| matches!(e, CEv::Disconnect | CEv::Error(_))).map(|p| p.1);
                    let server_still_trying = first_synack.map_or(false, |t| need <= t + 20_000_000);
                    // (a client that has left - its own Disconnect request is on the wire - no longer completes handshakes)
                    let client_left = w.wire.iter().any(|r| r.from == a && r.to == w.server_addr && r.t_us <= need && r.bytes.first() == Some(&4));
                    if w.now_us >= need && server_still_trying && !client_left && !refused && need <= tc + 18_000_000 && client_ended.map_or(true, |t| t > need) {
                        return CaseResult::fail(
                            "oracle:c07:server_never_connected",
                            format!("client {k} reported Connect at t={tc} us; from t={t0} us on every datagram between it and the server was delivered promptly, yet by t={} us the server had not reported Connect({a}) (first SYN-ACK at {:?} us, SYN-ACK repeats are 2 s apart and an active client re-acknowledges them)", w.now_us, first_synack),
                        );
                    }
                    classes.push("client_connected_server_not_yet");
                }
            }
            // sequence-number agreement
            if connected {
                if let Some(nonce) = my_nonce {
                    if let Some(first) = w.wire.iter().find(|r| r.from == a && matches!(Frame::read(&r.bytes), Some(Frame::DataFrame(_)))) {
                        if let Some(Frame::DataFrame(df)) = Frame::read(&first.bytes) {
                            if df.sequence_id != nonce {
                                return CaseResult::fail("oracle:c07:client_start_sequence", format!("client {k}: first data frame has id {} but it advertised nonce {}", df.sequence_id, nonce));
                            }
                            if let Some(dg) = df.datagrams.first() {
                                if dg.sequence_id != nonce & 0xFFFFF {
                                    return CaseResult::fail("oracle:c07:client_start_packet_id", format!("client {k}: first packet id {} but nonce & 0xFFFFF = {}", dg.sequence_id, nonce & 0xFFFFF));
                                }
                            }
                        }
                    }
                }
                if server_connects.get(&a).copied().unwrap_or(0) >= 1 {
                    // the server's first data frame towards this client uses the nonce of the SYN-ACK the client accepted (the latest before Connect)
                    let sconn_seq = w.server_events.iter().find(|(_, _, e)| matches!(e, SEv::Connect(x) if x == &a)).map(|p| p.0).unwrap_or(0);
                    let snonce = obs.server_synack.get(&a).and_then(|v| v.iter().filter(|p| p.1 < sconn_seq).last()).map(|p| p.0);
                    if let (Some(snonce), Some(first)) = (snonce, w.wire.iter().find(|r| r.to == a && r.from == w.server_addr && matches!(Frame::read(&r.bytes), Some(Frame::DataFrame(_))))) {
                        if let Some(Frame::DataFrame(df)) = Frame::read(&first.bytes) {
                            if df.sequence_id != snonce && server_connects[&a] == 1 {
                                return CaseResult::fail("oracle:c07:server_start_sequence", format!("server's first data frame to client {k} has id {} but its SYN-ACK advertised nonce {}", df.sequence_id, snonce));
                            }
                        }
                    }
                }
            }
            // negotiated allocation: what the server has outstanding towards this client never exceeds the
            // max_receive_alloc the client advertised (fragment-rounded), judged from the wire alone
            // (not where a forger who knew a genuine nonce took part in the handshake: the limits the server holds may
            // then be the forger's - found by the thorough tier: a forged SYN with limits of its own opened the attempt
            // before the client started, and a forged ACK carrying the server's nonce completed it)
            if connected && server_connects.get(&a).copied().unwrap_or(0) == 1 && !on_path.contains(&a) {
                let sconn_seq = w.server_events.iter().find(|(_, _, e)| matches!(e, SEv::Connect(x) if x == &a)).map(|p| p.0).unwrap_or(0);
                if let Some(snonce) = obs.server_synack.get(&a).and_then(|v| v.iter().filter(|p| p.1 < sconn_seq).last()).map(|p| p.0) {
                    let limit = crate::props::c06::ceil_frag(c.clients[k].cfg.to_endpoint().max_receive_alloc.min(u32::MAX as usize)) as u64;
                    let mut tr = crate::sim::wiremodel::OutstandingTracker::new(snonce);
                    // merge: data frames emitted by the server towards a (wire order) and acks from a delivered to the server
                    let mut evs: Vec<(u64, bool, usize)> = Vec::new();
                    for (i, r) in w.wire.iter().enumerate() {
                        if r.from == w.server_addr && r.to == a && r.bytes.first() == Some(&10) {
                            evs.push((r.seq, true, i));
                        }
                    }
                    for (i, d) in w.delivered.iter().enumerate() {
                        if d.from == a && d.to == w.server_addr && d.bytes.first() == Some(&12) {
                            evs.push((d.seq, false, i));
                        }
                    }
                    evs.sort();
                    for (_, is_data, i) in evs {
                        if is_data {
                            if let Some(Frame::DataFrame(df)) = Frame::read(&w.wire[i].bytes) {
                                for dg in df.datagrams.iter() {
                                    let (count, total) = tr.on_datagram(dg.sequence_id, dg.fragment_id_last, dg.data.len() as u32);
                                    if total > limit || count > 4096 {
                                        return CaseResult::fail(
                                            "oracle:c07:negotiated_allocation_not_respected",
                                            format!("the server has {total} fragment-rounded bytes in {count} packets outstanding towards client {k}, which advertised max_receive_alloc = {} (rounded {limit}); client cfg {:?}", c.clients[k].cfg.max_receive_alloc, c.clients[k].cfg),
                                        );
                                    }
                                }
                            }
                        } else if let Some(Frame::AckFrame(af)) = Frame::read(&w.delivered[i].bytes) {
                            tr.on_ack_base(af.packet_window_base_id);
                        }
                    }
                    if bulk_sent[k] > 0 {
                        classes.push("bulk_push_checked");
                    }
                }
            }
            // negotiated rate: average bytes per second from the client stay within min(client send, server receive)
            if connected {
                let ceiling = (c.clients[k].cfg.to_endpoint().max_send_rate as f64).min(c.server.ep.to_endpoint().max_receive_rate.min(u32::MAX as usize) as f64);
                let frames: Vec<(u64, usize)> = w.wire.iter().filter(|r| r.from == a && r.bytes.first().map_or(false, |b| *b >= 10)).map(|r| (r.t_us, r.bytes.len())).collect();
                if let (Some(first), Some(last)) = (frames.first(), frames.last()) {
                    let total: usize = frames.iter().map(|f| f.1).sum();
                    let span = (last.0 - first.0) as f64 / 1e6;
                    let allowed = ceiling * (span + 3.0 + 2.0 * dt as f64 / 1e6) + 2.0 * 1472.0;
                    if total as f64 > allowed {
                        return CaseResult::fail("oracle:c07:negotiated_rate_not_respected", format!("client {k} put {total} bytes on the wire in {span:.3} s; min(own max_send_rate {}, server max_receive_rate {}) = {ceiling} B/s allows {allowed:.0}", c.clients[k].cfg.max_send_rate, c.server.ep.max_receive_rate));
                    }
                }
                let sceiling = (c.server.ep.to_endpoint().max_send_rate as f64).min(c.clients[k].cfg.to_endpoint().max_receive_rate.min(u32::MAX as usize) as f64);
                let frames: Vec<(u64, usize)> = w.wire.iter().filter(|r| r.to == a && r.from == w.server_addr && r.bytes.first().map_or(false, |b| *b >= 10)).map(|r| (r.t_us, r.bytes.len())).collect();
                if let (Some(first), Some(last)) = (frames.first(), frames.last()) {
                    let total: usize = frames.iter().map(|f| f.1).sum();
                    let span = (last.0 - first.0) as f64 / 1e6;
                    let allowed = sceiling * (span + 3.0 + 2.0 * dt as f64 / 1e6) + 2.0 * 1472.0;
                    if total as f64 > allowed {
                        return CaseResult::fail("oracle:c07:negotiated_rate_not_respected", format!("server put {total} bytes on the wire towards client {k} in {span:.3} s; min(own max_send_rate {}, client max_receive_rate {}) = {sceiling} B/s allows {allowed:.0}", c.server.ep.max_send_rate, c.clients[k].cfg.max_receive_rate));
                    }
                }
            }
            if connected {
                classes.push("client_connected");
            }
            if recv_echo[k] > 0 {
                classes.push("echo_received");
            }
            if forged_current_ack.contains(&a) || forged_current_error.contains(&a) || forged_current_synack.contains(&a) {
                classes.push("forged_frame_with_genuine_nonce");
            }
        }
        // a completed handshake yields a connection, not a leftover that some stale handshake timer tears down: the server
        // does not time an established connection out before its own active timeout has passed since Connect, and does not
        // forget it without a terminal event
        for (k, _spec) in c.clients.iter().enumerate() {
            let Some(ci) = ci_of[k] else { continue };
            let a = w.clients[ci].addr;
            if forged_any.contains(&a) {
                continue;
            }
            let Some((cseq, ct)) = w.server_events.iter().find(|(_, _, e)| matches!(e, SEv::Connect(x) if *x == a)).map(|p| (p.0, p.1)) else { continue };
            let term = w.server_events.iter().find(|(s, _, e)| *s > cseq && matches!(e, SEv::Disconnect(x) | SEv::Error(x, _) if *x == a));
            if let Some((_, t, SEv::Error(_, SErr::Timeout))) = term {
                if *t + 2000 < ct + c.server.ep.active_timeout_ms as u64 * 1000 {
                    return CaseResult::fail(
                        "oracle:c07:connection_torn_down_within_its_own_timeout",
                        format!("the server reported Connect({a}) at t={ct} us and Error({a}, Timeout) at t={t} us, only {} us later; its active_timeout_ms is {} (the handshake had taken {} SYN-ACK transmissions)", t - ct, c.server.ep.active_timeout_ms, w.wire.iter().filter(|r| r.to == a && r.seq < cseq && matches!(Frame::read(&r.bytes), Some(Frame::HandshakeSynAckFrame(_)))).count()),
                    );
                }
            }
            if term.is_none() && !w.server_has_client(&a) {
                return CaseResult::fail(
                    "oracle:c07:connection_forgotten_without_terminal_event",
                    format!("the server reported Connect({a}) at t={ct} us and no terminal event for it afterwards, yet Server::client({a}) returns nothing at the end (t={} us)", w.now_us),
                );
            }
        }
        let faults = w.wire.iter().filter(|r| r.bytes.first().map_or(false, |b| *b < 4) && !matches!(r.fate, Fate::Deliver(0))).count();
        if faults > 0 {
            classes.push("handshake_frame_faulted");
        }
        if forged > 0 {
            classes.push("forged_frames");
        }
        if w.wire.iter().any(|r| matches!(Frame::read(&r.bytes), Some(Frame::HandshakeErrorFrame(_)))) {
            classes.push("refusal_sent");
        }
        let simultaneous = c.clients.iter().filter(|s| c.clients.iter().filter(|o| (o.start_tick as i32 - s.start_tick as i32).abs() < 5).count() >= 2).count();
        if simultaneous >= 2 {
            classes.push("simultaneous_handshakes");
        }
        classes.sort();
        classes.dedup();
        CaseResult::ok(faults > 0 || forged > 0, classes)
    }
}

/// Echo packets must fit both endpoints' max_packet_size (documented send() precondition).
fn echo_len(c: &Case, k: usize) -> usize {
    let lim = (c.clients[k].cfg.max_packet_size as usize).min(c.server.ep.max_packet_size as usize);
    if lim < 5 {
        0
    } else {
        (c.clients[k].echo_size as usize).clamp(5, lim)
    }
}

pub fn expected_refusal(server: &ServerCfg, client: &EpCfg) -> Option<SErr> {
    let c = client.to_endpoint();
    let s = server.ep.to_endpoint();
    let c_alloc = c.max_receive_alloc.min(u32::MAX as usize);
    let c_size = c.max_packet_size.min(u32::MAX as usize);
    if c_alloc < s.max_packet_size || c_size > s.max_receive_alloc {
        Some(SErr::Config)
    } else {
        None
    }
}
