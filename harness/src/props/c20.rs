//! C20 — send_buffer_size() is exact and returns to zero.

use crate::engine::*;
use crate::props::c02::{CAP_US, STALL_US};
use crate::props::c12::force_identity_sizes;
use crate::sim::gen::*;
use crate::sim::pair::*;
use crate::sim::wiremodel::*;
use proptest::prelude::*;

pub struct C20;

impl Check for C20 {
    type Case = PairScenario;

    fn id(&self) -> &'static str {
        "C20"
    }

    fn strategy(&self, tier: Tier) -> BoxedStrategy<PairScenario> {
        let p = GenParams { max_ticks: tier.pick(150, 400), max_sends: 6, max_frags: tier.pick(4, 10), low_bandwidth: true, tail: true, modes: [3, 2, 2, 3], ..GenParams::default() };
        // one scenario in four also hands the senders forged ack frames whose packet window base names packets that
        // have not been sent yet (mostly the very next ones)
        (scenario_strategy(&p), proptest::option::weighted(0.25, proptest::collection::vec((any::<u16>(), 0u8..2, prop_oneof![5 => Just(1u16), 3 => 2u16..4, 1 => 4u16..3000]), 1..12)))
            .prop_map(|(mut sc, pre)| {
                if let Some(pre) = pre {
                    sc.premature_acks = pre;
                }
                sc
            })
            .boxed()
    }

    fn extra(&self, tier: Tier, seed: u64) -> ExtraResult {
        if tier != Tier::Thorough {
            return ExtraResult::default();
        }
        // coverage-guided search over the same scenario space with the same oracle (harness/fuzz, target pair_oracles)
        crate::props::pairfuzz::pair_fuzz_extra("C20", seed, 40_000, &|sc| self.run(sc), &|sc| serde_json::to_value(sc).unwrap_or_default())
    }

    fn cases(&self, tier: Tier) -> u64 {
        tier.pick(24_000, 800_000)
    }

    fn max_shrink_iters(&self) -> u32 {
        1500
    }

    fn case_timeout_s(&self) -> u64 {
        120
    }

    fn rule(&self) -> String {
        "case = SimPair scenario (all packets >= 4 bytes) with all modes and sizes, ack loss / delay, TimeSensitive drops, window and allocation stalls, followed by a fair phase; one scenario in four also hands the senders forged ack frames without groups whose packet window base names a packet that has not been sent yet (1..3, rarely up to 3000, beyond the sender's next id - an acknowledgement of nothing, which must stay without effect also when that id comes into use). Model fed only by send() calls, by the sender's emitted data frames (which packet ids exist) and by the ack frames handed to the sender (accepted packet-window bases): with A = payload bytes of packets whose id an accepted base has passed, D = bytes of stale TimeSensitive submissions that were certainly discarded (a later submission has been emitted) and S = bytes of stale TimeSensitive submissions not yet emitted whose fate is not observable, submitted - A - D - S <= send_buffer_size() <= submitted - A - D at every snapshot (after every endpoint step and after every batch of sends / flushes), and exactly 0 at quiescence. Non-trivial = at least one TimeSensitive packet was discarded and at least one ack released two or more packets at once.".into()
    }

    fn assumptions(&self) -> Vec<String> {
        vec!["stale TimeSensitive packets are discarded lazily, so between staleness and the next emission attempt the exact value is not observable; the interval collapses to equality whenever no such packet is outstanding".into()]
    }

    fn run(&self, sc: &PairScenario) -> CaseResult {
        let mut sc = sc.clone();
        force_identity_sizes(&mut sc);
        sc.normalize();
        let mut sim = SimPair::new(&sc);
        for t in sc.ticks.iter() {
            sim.run_tick(t);
        }
        let step_us = sc.tail.as_ref().map(|t| t.step_us as u64).unwrap_or(10_000);
        // keep snapshots for the first part of the tail only (bounded memory), then run on
        let outcome = {
            let o = sim.run_tail_progress(step_us, 5_000_000, 20_000_000);
            if o == TailOutcome::Quiescent {
                o
            } else {
                sim.record_stats = false;
                sim.run_tail_progress(step_us, STALL_US, CAP_US)
            }
        };
        let end_sbs = [sim.hc[0].send_buffer_size(), sim.hc[1].send_buffer_size()];
        let premature_injected = sim.premature_injected;
        let trace = sim.finish();
        let mut classes: Vec<&'static str> = Vec::new();
        let mut ts_dropped = false;
        let mut multi_release = false;

        for s in 0..2 {
            let idmap = match build_id_map(&sc, &trace, s) {
                Ok(m) => m,
                Err(v) => return CaseResult { violation: Some(v), nontrivial: true, classes },
            };
            let subs = &trace.subs[s];
            let evs = sender_events(&trace, s);
            let mut submitted: u64 = 0;
            let mut acked_bytes: u64 = 0;
            let mut base = sc.dirs[s].pkt_base & PKT_MASK;
            let mut next_id = base;
            let mut last_emitted_sub: i64 = -1;
            let mut epoch: u32 = 0;
            let mut n_sub: usize = 0;
            let mut exact_points = 0u32;
            for (_, ev) in evs.iter() {
                match ev {
                    Ev::Submit { sub } => {
                        submitted += subs[*sub as usize].size as u64;
                        n_sub = *sub as usize + 1;
                    }
                    Ev::Step => epoch += 1,
                    Ev::Data { dgs, .. } => {
                        for (pkt, _, _, _) in dgs.iter() {
                            if (pkt.wrapping_sub(next_id) & PKT_MASK) < 0x80000 {
                                next_id = (pkt + 1) & PKT_MASK;
                            }
                            let si = idmap.id_to_sub[pkt] as i64;
                            if si > last_emitted_sub {
                                last_emitted_sub = si;
                            }
                        }
                    }
                    Ev::Ack { packet_base, .. } => {
                        if *packet_base <= PKT_MASK {
                            let delta = packet_base.wrapping_sub(base) & PKT_MASK;
                            let span = next_id.wrapping_sub(base) & PKT_MASK;
                            if delta <= span && delta != 0 {
                                let mut id = base;
                                let mut released = 0;
                                while id != *packet_base {
                                    if let Some(si) = idmap.id_to_sub.get(&id) {
                                        acked_bytes += subs[*si as usize].size as u64;
                                        released += 1;
                                    }
                                    id = (id + 1) & PKT_MASK;
                                }
                                if released >= 2 {
                                    multi_release = true;
                                }
                                base = *packet_base;
                            }
                        }
                    }
                    Ev::Snapshot { stat_idx } => {
                        let st = &trace.stats[s][*stat_idx as usize];
                        // stale TimeSensitive submissions never emitted so far
                        let mut certainly_dropped: u64 = 0;
                        let mut uncertain: u64 = 0;
                        for sub in subs[..n_sub].iter() {
                            if sub.mode == 0 && sub.epoch < epoch && !emitted_before(&idmap, sub.idx, last_emitted_sub) {
                                if (sub.idx as i64) < last_emitted_sub {
                                    certainly_dropped += sub.size as u64;
                                } else {
                                    uncertain += sub.size as u64;
                                }
                            }
                        }
                        let hi = submitted - acked_bytes - certainly_dropped;
                        let lo = hi - uncertain;
                        let got = st.send_buffer_size as u64;
                        if got < lo || got > hi {
                            return CaseResult::fail(
                                if got > hi { "oracle:c20:too_large" } else { "oracle:c20:too_small" },
                                format!(
                                    "sender {s} at t={} us (tick {}, epoch {}): send_buffer_size()={got}, model says between {lo} and {hi} (submitted {submitted} B, acknowledged {acked_bytes} B, stale TimeSensitive certainly discarded {certainly_dropped} B, possibly discarded {uncertain} B)",
                                    st.t_us, st.tick, st.epoch
                                ),
                            );
                        }
                        if uncertain == 0 {
                            exact_points += 1;
                        }
                        if certainly_dropped > 0 {
                            ts_dropped = true;
                        }
                    }
                }
            }
            if exact_points > 0 {
                classes.push("exact_comparison_points");
            }
            if outcome == TailOutcome::Quiescent && end_sbs[s] != 0 {
                return CaseResult::fail("oracle:c20:nonzero_at_quiescence", format!("sender {s}: everything acknowledged and nothing pending, yet send_buffer_size()={}", end_sbs[s]));
            }
        }
        if ts_dropped {
            classes.push("ts_discarded");
        }
        if premature_injected > 0 {
            classes.push("premature_packet_acks_injected");
        }
        if multi_release {
            classes.push("ack_released_several_packets");
        }
        if outcome == TailOutcome::Quiescent {
            classes.push("quiescent");
        }
        CaseResult::ok(ts_dropped && multi_release, classes)
    }
}

fn emitted_before(idmap: &IdMap, sub_idx: u32, _last_emitted_sub: i64) -> bool {
    // the id map is built from the whole run; a submission counts as emitted "so far" only if it
    // is not beyond the newest submission seen on the wire at this point
    idmap.sub_to_id.contains_key(&sub_idx) && (sub_idx as i64) <= _last_emitted_sub
}
