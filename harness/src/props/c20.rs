//! C20 — send_buffer_size() is exact and returns to zero.

use crate::engine::*;
use crate::props::c02::{CAP_US, STALL_US};
use crate::props::c12::force_identity_sizes;
use crate::sim::gen::*;
use crate::sim::pair::*;
use crate::sim::wiremodel::*;
use proptest::prelude::*;

pub struct C20;

/// A backlog of more than 4 GiB: `packets` packets of `size` bytes are submitted to one sender, a few of them travel.
#[derive(Clone, Debug, serde::Serialize, serde::Deserialize)]
pub struct Backlog {
    pub seed: u64,
    pub packets: u16,
    pub size: u32,
    pub mode: u8,
    pub ticks: u8,
}

/// Repeated state updates: the application submits the SAME small payload several times per tick (what a game does
/// with a position that has not changed), TimeSensitive or not, on one channel or two; the link is loss-free.
#[derive(Clone, Debug, serde::Serialize, serde::Deserialize)]
pub struct Repeats {
    pub seed: u64,
    pub ticks: u8,
    pub per_tick: u8,
    pub size: u8,
    pub mode: u8,
    pub two_channels: bool,
    pub dt_ms: u8,
}

#[derive(Clone, Debug, serde::Serialize, serde::Deserialize)]
#[serde(untagged)]
pub enum Case {
    Pair(PairScenario),
    Backlog { backlog: Backlog },
    Repeats { repeats: Repeats },
}

fn run_repeats(r: &Repeats) -> CaseResult {
    let dir = DirCfg { pkt_win_log2: 12, frm_win_log2: 12, pkt_base: (r.seed as u32) & PKT_MASK, frm_base: (r.seed >> 32) as u32, alloc_limit: 1_000_000, bw_limit: 10_000_000 };
    let sc = PairScenario { dirs: [dir.clone(), dir], keepalive_ms: Some(1000), seed: r.seed, zero_ch: 0, zero_mode: 1, links: [LinkCfg { latency_us: 2000, fates: vec![] }, LinkCfg { latency_us: 2000, fates: vec![] }], ticks: vec![], tail: None, premature_acks: Vec::new() };
    let mut sim = SimPair::new(&sc);
    sim.record_stats = false;
    let size = r.size.max(1) as usize;
    let payload: Vec<u8> = (0..size).map(|i| (r.seed >> (i % 8)) as u8).collect();
    let idle = EpAct { step: true, sends: Vec::new(), flushes: 1 };
    let mut accepted: u64 = 0;
    for _ in 0..r.ticks.max(1) {
        sim.run_tick(&Tick { dt_us: r.dt_ms.max(1) as u64 * 1000, acts: [idle.clone(), idle.clone()] });
        for k in 0..r.per_tick.max(2) {
            let before = sim.hc[0].send_buffer_size() as u64;
            sim.hc[0].send(payload.clone().into_boxed_slice(), if r.two_channels { k % 2 } else { 0 }, mode_of(r.mode));
            accepted += size as u64;
            let after = sim.hc[0].send_buffer_size() as u64;
            // (stale TimeSensitive packets are discarded lazily, never by send(): the call adds exactly its payload)
            if after != before + size as u64 {
                return CaseResult::fail("oracle:c20:repeats:send_adds_its_payload", format!("send() of {size} bytes took send_buffer_size() from {before} to {after}"));
            }
        }
        sim.flush(0);
    }
    // everything submitted is transmitted or discarded as stale, and acknowledged, within a few seconds of a loss-free link
    for _ in 0..400 {
        sim.run_tick(&Tick { dt_us: 10_000, acts: [idle.clone(), idle.clone()] });
    }
    let end = sim.hc[0].send_buffer_size();
    let pending = sim.hc[0].is_send_pending();
    if end != 0 && !pending {
        return CaseResult::fail(
            "oracle:c20:repeats:nonzero_when_nothing_is_pending",
            format!("{accepted} bytes were accepted in {} identical packets of {size} bytes (mode {}); four seconds of loss-free exchange later the sender reports nothing pending, yet send_buffer_size() = {end}", accepted / size as u64, r.mode % 4),
        );
    }
    CaseResult::ok(true, vec!["repeated_identical_payloads"])
}

fn run_backlog(b: &Backlog) -> CaseResult {
    let dir = DirCfg { pkt_win_log2: 12, frm_win_log2: 12, pkt_base: (b.seed as u32) & PKT_MASK, frm_base: (b.seed >> 32) as u32, alloc_limit: u32::MAX, bw_limit: 50_000_000 };
    let sc = PairScenario { dirs: [dir.clone(), dir], keepalive_ms: None, seed: b.seed, zero_ch: 0, zero_mode: 1, links: [LinkCfg { latency_us: 1000, fates: vec![] }, LinkCfg { latency_us: 1000, fates: vec![] }], ticks: vec![], tail: None, premature_acks: Vec::new() };
    let mut sim = SimPair::new(&sc);
    sim.record_wire = false;
    sim.record_stats = false;
    let size = (b.size as usize).clamp(1, 65536 * FRAG);
    let mut total: u64 = 0;
    for k in 0..b.packets {
        // (zero pages: the payloads are never written, so the backlog costs address space, not memory)
        sim.hc[0].send(vec![0u8; size].into_boxed_slice(), (k % 4) as u8, mode_of(b.mode));
        total += size as u64;
        let got = sim.hc[0].send_buffer_size() as u64;
        if got != total {
            return CaseResult::fail("oracle:c20:backlog:not_exact", format!("after {} packets of {size} bytes were accepted by send() and nothing was acknowledged, send_buffer_size() = {got}; the total is {total}", k + 1));
        }
    }
    // a little of it travels; the value may only fall by what the peer has acknowledged
    let idle = EpAct { step: true, sends: Vec::new(), flushes: 1 };
    let mut prev = total;
    for _ in 0..b.ticks {
        sim.run_tick(&Tick { dt_us: 10_000, acts: [idle.clone(), idle.clone()] });
        let got = sim.hc[0].send_buffer_size() as u64;
        let delivered: u64 = sim.trace.delivs[1].iter().map(|d| d.data.len() as u64).sum();
        if got > prev || got + delivered < total {
            return CaseResult::fail("oracle:c20:backlog:not_exact", format!("with {total} bytes accepted and {delivered} bytes delivered so far send_buffer_size() went from {prev} to {got}"));
        }
        prev = got;
    }
    CaseResult::ok(total > u32::MAX as u64, vec!["backlog_beyond_4_gib"])
}

impl Check for C20 {
    type Case = Case;

    fn id(&self) -> &'static str {
        "C20"
    }

    fn strategy(&self, tier: Tier) -> BoxedStrategy<Case> {
        let p = GenParams { max_ticks: tier.pick(150, 400), max_sends: 6, max_frags: tier.pick(4, 10), low_bandwidth: true, tail: true, modes: [3, 2, 2, 3], ..GenParams::default() };
        // one scenario in four also hands the senders forged ack frames whose packet window base names packets that
        // have not been sent yet (mostly the very next ones)
        (scenario_strategy(&p), proptest::option::weighted(0.25, proptest::collection::vec((any::<u16>(), 0u8..2, prop_oneof![5 => Just(1u16), 3 => 2u16..4, 1 => 4u16..3000]), 1..12)))
            .prop_map(|(mut sc, pre)| {
                if let Some(pre) = pre {
                    sc.premature_acks = pre;
                }
                // (a handful of cases per run: queue more than 4 GiB)
                if sc.seed % 4000 == 1 {
                    return Case::Backlog { backlog: Backlog { seed: sc.seed, packets: 46 + ((sc.seed >> 20) % 30) as u16, size: (65536 * FRAG) as u32 - ((sc.seed >> 40) % 3000) as u32, mode: (sc.seed >> 13) as u8 % 4, ticks: ((sc.seed >> 50) % 12) as u8 } };
                }
                // one case in forty: the same payload again and again (every other payload in these checks is unique)
                if sc.seed % 40 == 2 {
                    return Case::Repeats { repeats: Repeats { seed: sc.seed, ticks: 5 + ((sc.seed >> 8) % 60) as u8, per_tick: 2 + ((sc.seed >> 16) % 4) as u8, size: 1 + ((sc.seed >> 24) % 40) as u8, mode: ((sc.seed >> 32) % 6) as u8 % 4, two_channels: (sc.seed >> 40) & 3 == 0, dt_ms: [1u8, 5, 16, 50][((sc.seed >> 44) % 4) as usize] } };
                }
                Case::Pair(sc)
            })
            .boxed()
    }

    fn extra(&self, tier: Tier, seed: u64) -> ExtraResult {
        if tier != Tier::Thorough {
            return ExtraResult::default();
        }
        // coverage-guided search over the same scenario space with the same oracle (harness/fuzz, target pair_oracles)
        crate::props::pairfuzz::pair_fuzz_extra("C20", seed, 40_000, &|sc| self.run(&Case::Pair(sc.clone())), &|sc| serde_json::to_value(sc).unwrap_or_default())
    }

    fn cases(&self, tier: Tier) -> u64 {
        tier.pick(24_000, 800_000)
    }

    fn max_shrink_iters(&self) -> u32 {
        1500
    }

    fn case_timeout_s(&self) -> u64 {
        120
    }

    fn rule(&self) -> String {
        "case = SimPair scenario (all packets >= 4 bytes) with all modes and sizes, ack loss / delay, TimeSensitive drops, window and allocation stalls, followed by a fair phase; one case in forty submits the SAME small payload two to five times per tick (state updates that have not changed; TimeSensitive in half of them) over a loss-free link: every send() adds exactly its payload, and when nothing is pending any more the value is 0; a handful of cases per run queue 46-75 packets of the maximum packet size (more than 4 GiB in all; zero pages, never written) and compare send_buffer_size() with the exact total after every send(); one scenario in four also hands the senders forged ack frames without groups whose packet window base names a packet that has not been sent yet (1..3, rarely up to 3000, beyond the sender's next id - an acknowledgement of nothing, which must stay without effect also when that id comes into use). Model fed only by send() calls, by the sender's emitted data frames (which packet ids exist) and by the ack frames handed to the sender (accepted packet-window bases): with A = payload bytes of packets whose id an accepted base has passed, D = bytes of stale TimeSensitive submissions that were certainly discarded (a later submission has been emitted) and S = bytes of stale TimeSensitive submissions not yet emitted whose fate is not observable, submitted - A - D - S <= send_buffer_size() <= submitted - A - D at every snapshot (after every endpoint step and after every batch of sends / flushes), and exactly 0 at quiescence. Non-trivial = at least one TimeSensitive packet was discarded and at least one ack released two or more packets at once.".into()
    }

    fn assumptions(&self) -> Vec<String> {
        vec!["stale TimeSensitive packets are discarded lazily, so between staleness and the next emission attempt the exact value is not observable; the interval collapses to equality whenever no such packet is outstanding".into()]
    }

    fn run(&self, case: &Case) -> CaseResult {
        let sc = match case {
            Case::Pair(sc) => sc,
            Case::Backlog { backlog } => return run_backlog(backlog),
            Case::Repeats { repeats } => return run_repeats(repeats),
        };
        let mut sc = sc.clone();
        force_identity_sizes(&mut sc);
        sc.normalize();
        let mut sim = SimPair::new(&sc);
        for t in sc.ticks.iter() {
            sim.run_tick(t);
        }
        let step_us = sc.tail.as_ref().map(|t| t.step_us as u64).unwrap_or(10_000);
        // keep snapshots for the first part of the tail only (bounded memory), then run on
        let outcome = {
            let o = sim.run_tail_progress(step_us, 5_000_000, 20_000_000);
            if o == TailOutcome::Quiescent {
                o
            } else {
                sim.record_stats = false;
                sim.run_tail_progress(step_us, STALL_US, CAP_US)
            }
        };
        let end_sbs = [sim.hc[0].send_buffer_size(), sim.hc[1].send_buffer_size()];
        let premature_injected = sim.premature_injected;
        let trace = sim.finish();
        let mut classes: Vec<&'static str> = Vec::new();
        let mut ts_dropped = false;
        let mut multi_release = false;

        for s in 0..2 {
            let idmap = match build_id_map(&sc, &trace, s) {
                Ok(m) => m,
                Err(v) => return CaseResult { violation: Some(v), nontrivial: true, classes },
            };
            let subs = &trace.subs[s];
            let evs = sender_events(&trace, s);
            let mut submitted: u64 = 0;
            let mut acked_bytes: u64 = 0;
            let mut base = sc.dirs[s].pkt_base & PKT_MASK;
            let mut next_id = base;
            let mut last_emitted_sub: i64 = -1;
            let mut epoch: u32 = 0;
            let mut n_sub: usize = 0;
            let mut exact_points = 0u32;
            for (_, ev) in evs.iter() {
                match ev {
                    Ev::Submit { sub } => {
                        submitted += subs[*sub as usize].size as u64;
                        n_sub = *sub as usize + 1;
                    }
                    Ev::Step => epoch += 1,
                    Ev::Data { dgs, .. } => {
                        for (pkt, _, _, _) in dgs.iter() {
                            if (pkt.wrapping_sub(next_id) & PKT_MASK) < 0x80000 {
                                next_id = (pkt + 1) & PKT_MASK;
                            }
                            let si = idmap.id_to_sub[pkt] as i64;
                            if si > last_emitted_sub {
                                last_emitted_sub = si;
                            }
                        }
                    }
                    Ev::Ack { packet_base, .. } => {
                        if *packet_base <= PKT_MASK {
                            let delta = packet_base.wrapping_sub(base) & PKT_MASK;
                            let span = next_id.wrapping_sub(base) & PKT_MASK;
                            if delta <= span && delta != 0 {
                                let mut id = base;
                                let mut released = 0;
                                while id != *packet_base {
                                    if let Some(si) = idmap.id_to_sub.get(&id) {
                                        acked_bytes += subs[*si as usize].size as u64;
                                        released += 1;
                                    }
                                    id = (id + 1) & PKT_MASK;
                                }
                                if released >= 2 {
                                    multi_release = true;
                                }
                                base = *packet_base;
                            }
                        }
                    }
                    Ev::Snapshot { stat_idx } => {
                        let st = &trace.stats[s][*stat_idx as usize];
                        // stale TimeSensitive submissions never emitted so far
                        let mut certainly_dropped: u64 = 0;
                        let mut uncertain: u64 = 0;
                        for sub in subs[..n_sub].iter() {
                            if sub.mode == 0 && sub.epoch < epoch && !emitted_before(&idmap, sub.idx, last_emitted_sub) {
                                if (sub.idx as i64) < last_emitted_sub {
                                    certainly_dropped += sub.size as u64;
                                } else {
                                    uncertain += sub.size as u64;
                                }
                            }
                        }
                        let hi = submitted - acked_bytes - certainly_dropped;
                        let lo = hi - uncertain;
                        let got = st.send_buffer_size as u64;
                        if got < lo || got > hi {
                            return CaseResult::fail(
                                if got > hi { "oracle:c20:too_large" } else { "oracle:c20:too_small" },
                                format!(
                                    "sender {s} at t={} us (tick {}, epoch {}): send_buffer_size()={got}, model says between {lo} and {hi} (submitted {submitted} B, acknowledged {acked_bytes} B, stale TimeSensitive certainly discarded {certainly_dropped} B, possibly discarded {uncertain} B)",
                                    st.t_us, st.tick, st.epoch
                                ),
                            );
                        }
                        if uncertain == 0 {
                            exact_points += 1;
                        }
                        if certainly_dropped > 0 {
                            ts_dropped = true;
                        }
                    }
                }
            }
            if exact_points > 0 {
                classes.push("exact_comparison_points");
            }
            if outcome == TailOutcome::Quiescent && end_sbs[s] != 0 {
                return CaseResult::fail("oracle:c20:nonzero_at_quiescence", format!("sender {s}: everything acknowledged and nothing pending, yet send_buffer_size()={}", end_sbs[s]));
            }
        }
        if ts_dropped {
            classes.push("ts_discarded");
        }
        if premature_injected > 0 {
            classes.push("premature_packet_acks_injected");
        }
        if multi_release {
            classes.push("ack_released_several_packets");
        }
        if outcome == TailOutcome::Quiescent {
            classes.push("quiescent");
        }
        CaseResult::ok(ts_dropped && multi_release, classes)
    }
}

fn emitted_before(idmap: &IdMap, sub_idx: u32, _last_emitted_sub: i64) -> bool {
    // the id map is built from the whole run; a submission counts as emitted "so far" only if it
    // is not beyond the newest submission seen on the wire at this point
    idmap.sub_to_id.contains_key(&sub_idx) && (sub_idx as i64) <= _last_emitted_sub
}
