//! C03 — no network input can crash or hang an endpoint (layer A: HalfConnection; layer B: World).
//!
//! Three case kinds. Honest: long histories (250 quick / 600 thorough ticks) of honest traffic under per-frame faults with no hostile frame at all. Layer A: a victim `HalfConnection` (endpoint 0) talks to an honest peer (endpoint 1) through
//! SimPair. The attacker sits at the peer's position on the wire: it sees everything the victim
//! emits (ids, nonces, window bases) and hands the victim structured frames whose fields are drawn
//! relative to that live state, raw bytes, and mutated genuine frames, interleaved with honest
//! traffic and arbitrary tick spacing.

use crate::engine::*;
use crate::sim::gen::*;
use crate::sim::pair::*;
use proptest::prelude::*;
use serde::{Deserialize, Serialize};
use uflow::verif::Serialize as _;
use uflow::verif::{AckFrame, AckGroup, DataFrame, Datagram, Frame, SyncFrame};

/// An id chosen relative to something the attacker can observe.
#[derive(Clone, Debug, Serialize, Deserialize)]
pub struct IdSel {
    /// 0: victim rx window base, 1: victim rx base + window, 2: victim tx base (oldest unacked),
    /// 3: victim tx next, 4: absolute
    pub rel: u8,
    pub delta: i64,
}

#[derive(Clone, Debug, Serialize, Deserialize)]
pub struct HDatagram {
    pub pkt: IdSel,
    pub ch: u8,
    pub w: u16,
    pub h: u16,
    pub frag: u16,
    pub last: u16,
    /// 0: full fragment, 1: empty, 2: short, 3: oversize(1449), 4: as `len`
    pub len_kind: u8,
    pub len: u16,
}

#[derive(Clone, Debug, Serialize, Deserialize)]
pub struct HGroup {
    pub base: IdSel,
    pub bitfield: u32,
    /// 0 correct (computed from the victim's real nonces), 1 flipped, 2 false, 3 true
    pub nonce_kind: u8,
}

#[derive(Clone, Debug, Serialize, Deserialize)]
pub enum Mutation {
    SetByte(u16, u8),
    FlipBit(u16, u8),
    Truncate(u16),
    Append(Vec<u8>),
}

#[derive(Clone, Debug, Serialize, Deserialize)]
pub enum HOp {
    Tick(Tick),
    Data { frame: IdSel, nonce: bool, dgs: Vec<HDatagram> },
    Ack { fbase: IdSel, pbase: IdSel, groups: Vec<HGroup> },
    Sync { frame: Option<IdSel>, packet: Option<IdSel> },
    Raw { bytes: Vec<u8>, fix_crc: bool },
    /// mutate the k-th most recent genuine frame the honest peer emitted and hand it to the victim
    MutateGenuine { back: u8, muts: Vec<Mutation>, fix_crc: bool },
    /// replay a genuine frame from the peer unmodified
    ReplayGenuine { back: u16 },
}

#[derive(Clone, Debug, Serialize, Deserialize)]
pub struct Case {
    pub sc: PairScenario,
    pub ops: Vec<HOp>,
    /// layer B (Client / Server over the virtual switch); when present, `sc` and `ops` are unused
    #[serde(default)]
    pub world: Option<WorldCase>,
}

/// A hostile frame for a connection endpoint; ids are relative to the nonces of the handshake.
#[derive(Clone, Debug, Serialize, Deserialize)]
pub enum BFrame {
    Data { frame: IdSel, nonce: bool, dgs: Vec<HDatagram> },
    Ack { fbase: IdSel, pbase: IdSel, groups: Vec<HGroup> },
    Sync { frame: Option<IdSel>, packet: Option<IdSel> },
    Raw { bytes: Vec<u8>, fix_crc: bool },
    Disconnect,
    DisconnectAck,
    HandshakeError { nonce: IdSel, code: u8 },
}

#[derive(Clone, Debug, Serialize, Deserialize)]
pub enum BOp {
    Tick { dt_us: u32 },
    /// a raw peer opens a handshake with arbitrary advertised limits
    HostileSyn { addr: u8, version: u8, nonce: u32, rate: u32, size: u32, alloc: u32 },
    /// ... and completes it with the nonce the server sent it
    HostileAck { addr: u8 },
    /// a frame from a raw peer (connected or not) to the server
    ToServer { addr: u8, frame: BFrame },
    /// valid API call: the server application sends to the (possibly hostile) peer
    ServerSend { addr: u8, ch: u8, mode: u8, size: u32 },
    ServerDisconnect { addr: u8, now: bool },
    /// start a real client; if `hostile_server`, the genuine server never reaches it and the harness plays the server
    StartClient { hostile_server: bool },
    /// hostile server: answer client k's SYN with arbitrary limits
    HostileSynAck { k: u8, nonce: u32, rate: u32, size: u32, alloc: u32 },
    /// the same with a receive allocation `below` bytes short of the client's own max_packet_size (0 = exactly enough)
    HostileSynAckNear { k: u8, nonce: u32, rate: u32, below: u16 },
    /// a frame "from the server" to real client k
    ToClient { k: u8, frame: BFrame },
    ClientSend { k: u8, ch: u8, mode: u8, size: u32 },
    ClientDisconnect { k: u8, now: bool },
}

#[derive(Clone, Debug, Serialize, Deserialize)]
pub struct WorldCase {
    pub seed: u64,
    pub server_packet_size: u32,
    pub server_alloc: u32,
    pub server_send_rate: u32,
    pub server_recv_rate: u32,
    pub client_packet_size: u32,
    pub client_alloc: u32,
    pub ops: Vec<BOp>,
}

fn delta_strategy() -> impl Strategy<Value = i64> {
    prop_oneof![
        4 => Just(0i64),
        3 => 1i64..4,
        2 => -4i64..0,
        2 => 4i64..70,
        2 => prop_oneof![Just(4095i64), Just(4096), Just(4097), Just(8191), Just(8192), Just(8193), Just(-4096), Just(-4097)],
        1 => -70i64..-4,
        1 => prop_oneof![Just(0x7FFF_FFFFi64), Just(0x8000_0000), Just(0xFFFF_FFFF), Just(0x10_0000), Just(0xF_FFFF), Just(0x8_0000), Just(-0x8_0000)],
        1 => any::<u32>().prop_map(|v| v as i64),
    ]
}

fn idsel(rels: &'static [u8]) -> impl Strategy<Value = IdSel> {
    (proptest::sample::select(rels), delta_strategy()).prop_map(|(rel, delta)| IdSel { rel, delta })
}

fn hdatagram() -> impl Strategy<Value = HDatagram> {
    (
        idsel(&[0, 0, 0, 1, 4]),
        prop_oneof![4 => 0u8..4, 1 => 0u8..64, 1 => 64u8..=255],
        prop_oneof![4 => Just(0u16), 3 => 1u16..6, 1 => any::<u16>()],
        prop_oneof![4 => Just(0u16), 3 => 1u16..6, 1 => any::<u16>()],
        prop_oneof![4 => Just(0u16), 3 => 0u16..5, 1 => any::<u16>()],
        prop_oneof![4 => Just(0u16), 3 => 1u16..5, 1 => Just(65535u16), 1 => any::<u16>(), 1 => 40u16..800],
        prop_oneof![3 => Just(0u8), 1 => Just(1u8), 2 => Just(2u8), 1 => Just(3u8), 1 => Just(4u8)],
        0u16..1500,
    )
        .prop_map(|(pkt, ch, w, h, frag, last, len_kind, len)| HDatagram { pkt, ch, w, h, frag, last, len_kind, len })
}

fn hgroup() -> impl Strategy<Value = HGroup> {
    (idsel(&[2, 2, 3, 3, 4]), prop_oneof![2 => Just(1u32), 2 => Just(u32::MAX), 1 => Just(0u32), 1 => Just(0x8000_0001u32), 3 => any::<u32>()], 0u8..4)
        .prop_map(|(base, bitfield, nonce_kind)| HGroup { base, bitfield, nonce_kind: if nonce_kind == 3 { 0 } else { nonce_kind.min(3) } })
}

fn mutation() -> impl Strategy<Value = Mutation> {
    prop_oneof![
        3 => (any::<u16>(), any::<u8>()).prop_map(|(p, v)| Mutation::SetByte(p, v)),
        3 => (any::<u16>(), 0u8..8).prop_map(|(p, b)| Mutation::FlipBit(p, b)),
        1 => any::<u16>().prop_map(Mutation::Truncate),
        1 => proptest::collection::vec(any::<u8>(), 1..10).prop_map(Mutation::Append),
    ]
}

fn hostile_op() -> impl Strategy<Value = HOp> {
    prop_oneof![
        5 => (idsel(&[0, 0, 0, 1, 4]), any::<bool>(), proptest::collection::vec(hdatagram(), 0..5)).prop_map(|(frame, nonce, dgs)| HOp::Data { frame, nonce, dgs }),
        5 => (idsel(&[2, 2, 3, 3, 4]), idsel(&[2, 2, 3, 3, 4]), proptest::collection::vec(hgroup(), 0..4)).prop_map(|(fbase, pbase, groups)| HOp::Ack { fbase, pbase, groups }),
        3 => (proptest::option::of(idsel(&[0, 0, 1, 4])), proptest::option::of(idsel(&[0, 0, 1, 4]))).prop_map(|(frame, packet)| HOp::Sync { frame, packet }),
        1 => (raw_bytes(80), any::<bool>()).prop_map(|(bytes, fix_crc)| HOp::Raw { bytes, fix_crc }),
        3 => (0u8..4, proptest::collection::vec(mutation(), 1..4), prop_oneof![4 => Just(true), 1 => Just(false)]).prop_map(|(back, muts, fix_crc)| HOp::MutateGenuine { back, muts, fix_crc }),
        1 => any::<u16>().prop_map(|back| HOp::ReplayGenuine { back }),
    ]
}

fn limit_strategy() -> impl Strategy<Value = u32> {
    prop_oneof![3 => Just(0u32), 2 => Just(1u32), 2 => Just(u32::MAX), 2 => 1u32..3000, 3 => 3000u32..2_000_000, 1 => any::<u32>()]
}

fn bframe() -> impl Strategy<Value = BFrame> {
    prop_oneof![
        5 => (idsel(&[0, 0, 0, 1, 4]), any::<bool>(), proptest::collection::vec(hdatagram(), 0..4)).prop_map(|(frame, nonce, dgs)| BFrame::Data { frame, nonce, dgs }),
        5 => (idsel(&[2, 2, 3, 3, 4]), idsel(&[2, 2, 3, 3, 4]), proptest::collection::vec(hgroup(), 0..3)).prop_map(|(fbase, pbase, groups)| BFrame::Ack { fbase, pbase, groups }),
        3 => (proptest::option::of(idsel(&[0, 0, 1, 4])), proptest::option::of(idsel(&[0, 0, 1, 4]))).prop_map(|(frame, packet)| BFrame::Sync { frame, packet }),
        2 => (raw_bytes(60), any::<bool>()).prop_map(|(bytes, fix_crc)| BFrame::Raw { bytes, fix_crc }),
        1 => Just(BFrame::Disconnect),
        1 => Just(BFrame::DisconnectAck),
        1 => (idsel(&[2, 4]), 0u8..3).prop_map(|(nonce, code)| BFrame::HandshakeError { nonce, code }),
    ]
}

fn bop() -> impl Strategy<Value = BOp> {
    prop_oneof![
        10 => prop_oneof![2 => Just(0u32), 6 => 1_000u32..50_000, 2 => 50_000u32..2_500_000, 1 => 2_500_000u32..25_000_000].prop_map(|dt_us| BOp::Tick { dt_us }),
        3 => (0u8..4, prop_oneof![6 => Just(3u8), 1 => any::<u8>()], any::<u32>(), limit_strategy(), limit_strategy(), limit_strategy()).prop_map(|(addr, version, nonce, rate, size, alloc)| BOp::HostileSyn { addr, version, nonce, rate, size, alloc }),
        3 => (0u8..4).prop_map(|addr| BOp::HostileAck { addr }),
        8 => (0u8..4, bframe()).prop_map(|(addr, frame)| BOp::ToServer { addr, frame }),
        4 => (0u8..4, 0u8..64, 0u8..4, prop_oneof![3 => 0u32..100, 2 => 100u32..5000, 1 => 5000u32..200_000, 2 => Just(u32::MAX)]).prop_map(|(addr, ch, mode, size)| BOp::ServerSend { addr, ch, mode, size }),
        1 => (0u8..4, any::<bool>()).prop_map(|(addr, now)| BOp::ServerDisconnect { addr, now }),
        2 => any::<bool>().prop_map(|hostile_server| BOp::StartClient { hostile_server }),
        3 => (0u8..3, any::<u32>(), limit_strategy(), limit_strategy(), limit_strategy()).prop_map(|(k, nonce, rate, size, alloc)| BOp::HostileSynAck { k, nonce, rate, size, alloc }),
        2 => (0u8..3, any::<u32>(), limit_strategy(), prop_oneof![2 => Just(0u16), 4 => 1u16..30, 2 => 30u16..1500, 1 => any::<u16>()]).prop_map(|(k, nonce, rate, below)| BOp::HostileSynAckNear { k, nonce, rate, below }),
        6 => (0u8..3, bframe()).prop_map(|(k, frame)| BOp::ToClient { k, frame }),
        4 => (0u8..3, 0u8..64, 0u8..4, prop_oneof![3 => 0u32..100, 2 => 100u32..5000, 1 => 5000u32..200_000, 2 => Just(u32::MAX)]).prop_map(|(k, ch, mode, size)| BOp::ClientSend { k, ch, mode, size }),
        1 => (0u8..3, any::<bool>()).prop_map(|(k, now)| BOp::ClientDisconnect { k, now }),
    ]
}

fn world_case(tier: Tier) -> BoxedStrategy<WorldCase> {
    let size = || prop_oneof![3 => Just(1_000_000u32), 2 => 1u32..5000, 1 => Just(1u32), 1 => 5000u32..4_000_000, 2 => (1u32..46, prop_oneof![Just(1448u32), Just(1472u32)], -2i32..26).prop_map(|(k, unit, d)| ((k * unit) as i32 + d).max(1) as u32)];
    (any::<u64>(), size(), size(), prop_oneof![3 => Just(2_000_000u32), 1 => 1u32..5000, 1 => Just(u32::MAX)], prop_oneof![3 => Just(2_000_000u32), 1 => 1u32..5000, 1 => Just(u32::MAX)], size(), size(), proptest::collection::vec(bop(), 1..tier.pick(80, 250)))
        .prop_map(|(seed, server_packet_size, server_alloc, server_send_rate, server_recv_rate, client_packet_size, client_alloc, ops)| WorldCase { seed, server_packet_size, server_alloc, server_send_rate, server_recv_rate, client_packet_size, client_alloc, ops })
        .prop_flat_map(|wc| {
            // most cases start with an established hostile connection on each side, so that the bulk of
            // the hostile frames reaches connection logic rather than being dropped as strays
            (Just(wc), prop_oneof![1 => Just(0u8), 3 => Just(1u8), 3 => Just(2u8), 3 => Just(3u8)], any::<u32>(), any::<u32>(), (limit_strategy(), limit_strategy()), (limit_strategy(), limit_strategy()))
        })
        .prop_map(|(mut wc, prelude, n1, n2, (r1, a1), (r2, a2))| {
            let mut pre: Vec<BOp> = Vec::new();
            if prelude & 1 != 0 {
                // a raw peer whose advertised limits pass the server's checks, with arbitrary rate / allocation beyond that
                let alloc = a1.max(wc.server_packet_size.clamp(1, 1_000_000));
                pre.push(BOp::HostileSyn { addr: 0, version: 3, nonce: n1, rate: r1.max(1), size: 1, alloc });
                pre.push(BOp::Tick { dt_us: 1000 });
                pre.push(BOp::HostileAck { addr: 0 });
                pre.push(BOp::Tick { dt_us: 1000 });
            }
            if prelude & 2 != 0 {
                pre.push(BOp::StartClient { hostile_server: true });
                pre.push(BOp::Tick { dt_us: 1000 });
                let alloc = a2.max(wc.client_packet_size.clamp(1, 1_000_000));
                pre.push(BOp::HostileSynAck { k: 0, nonce: n2, rate: r2.max(1), size: 1, alloc });
                pre.push(BOp::Tick { dt_us: 1000 });
            }
            pre.extend(std::mem::take(&mut wc.ops));
            wc.ops = pre;
            wc
        })
        .boxed()
}

/// arbitrary bytes, or a short run of one byte value (0x00 and 0xff pass trivially through length / checksum arithmetic)
fn raw_bytes(max: usize) -> BoxedStrategy<Vec<u8>> {
    prop_oneof![
        3 => proptest::collection::vec(any::<u8>(), 0..max),
        1 => (0usize..12, prop_oneof![Just(0u8), Just(0xffu8), any::<u8>()]).prop_map(|(n, b)| vec![b; n]),
    ]
    .boxed()
}

pub struct C03;

struct Attacker {
    /// victim's receive-side bases as last advertised in an ack frame it emitted
    v_rx_frame_base: u32,
    v_rx_pkt_base: u32,
    v_tx_frame_base: u32,
    v_tx_frame_next: u32,
    v_tx_pkt_base: u32,
    v_tx_pkt_next: u32,
    rx_win: u32,
    nonces: std::collections::HashMap<u32, bool>,
    seen_wire: usize,
}

impl Attacker {
    fn new(sc: &PairScenario) -> Self {
        Attacker {
            v_rx_frame_base: sc.dirs[1].frm_base,
            v_rx_pkt_base: sc.dirs[1].pkt_base & PKT_MASK,
            v_tx_frame_base: sc.dirs[0].frm_base,
            v_tx_frame_next: sc.dirs[0].frm_base,
            v_tx_pkt_base: sc.dirs[0].pkt_base & PKT_MASK,
            v_tx_pkt_next: sc.dirs[0].pkt_base & PKT_MASK,
            rx_win: 1 << sc.dirs[1].pkt_win_log2,
            nonces: std::collections::HashMap::new(),
            seen_wire: 0,
        }
    }

    /// Learns from what the victim (endpoint 0) and the honest peer (endpoint 1) put on the wire.
    fn observe(&mut self, sim: &SimPair) {
        let w = &sim.trace.wire[0];
        while self.seen_wire < w.len() {
            if let Some(f) = Frame::read(&w[self.seen_wire].bytes) {
                match f {
                    Frame::DataFrame(d) => {
                        self.v_tx_frame_next = d.sequence_id.wrapping_add(1);
                        self.nonces.insert(d.sequence_id, d.nonce);
                        for dg in d.datagrams.iter() {
                            let lead = dg.sequence_id.wrapping_sub(self.v_tx_pkt_base) & PKT_MASK;
                            let cur = self.v_tx_pkt_next.wrapping_sub(self.v_tx_pkt_base) & PKT_MASK;
                            if lead < 0x80000 && lead + 1 > cur {
                                self.v_tx_pkt_next = dg.sequence_id.wrapping_add(1) & PKT_MASK;
                            }
                        }
                    }
                    Frame::AckFrame(a) => {
                        self.v_rx_frame_base = a.frame_window_base_id;
                        self.v_rx_pkt_base = a.packet_window_base_id;
                    }
                    _ => {}
                }
            }
            self.seen_wire += 1;
        }
        // the honest peer's acks tell where the victim's tx windows start
        if let Some(last_ack) = sim.trace.wire[1].iter().rev().find_map(|r| match Frame::read(&r.bytes) {
            Some(Frame::AckFrame(a)) => Some(a),
            _ => None,
        }) {
            self.v_tx_frame_base = last_ack.frame_window_base_id;
            self.v_tx_pkt_base = last_ack.packet_window_base_id;
        }
    }

    fn resolve(&self, s: &IdSel, packet_space: bool) -> u32 {
        let base: u32 = match (s.rel, packet_space) {
            (0, false) => self.v_rx_frame_base,
            (0, true) => self.v_rx_pkt_base,
            (1, false) => self.v_rx_frame_base.wrapping_add(self.rx_win),
            (1, true) => self.v_rx_pkt_base.wrapping_add(self.rx_win),
            (2, false) => self.v_tx_frame_base,
            (2, true) => self.v_tx_pkt_base,
            (3, false) => self.v_tx_frame_next,
            (3, true) => self.v_tx_pkt_next,
            _ => 0,
        };
        (base as i64).wrapping_add(s.delta) as u32
    }
}

fn set_crc(bytes: &mut Vec<u8>) {
    if bytes.len() >= 5 {
        let n = bytes.len();
        let c = uflow::verif::crc32(&bytes[..n - 4]);
        bytes[n - 4..].copy_from_slice(&c.to_be_bytes());
    }
}

impl Check for C03 {
    type Case = Case;

    fn id(&self) -> &'static str {
        "C03"
    }

    fn strategy(&self, tier: Tier) -> BoxedStrategy<Case> {
        let p = GenParams { max_ticks: 1, max_sends: 4, max_frags: 3, tail: false, max_fates: 60, ..GenParams::default() };
        let tick = tick_strategy(&p);
        let max_ops = tier.pick(60usize, 200usize);
        let layer_a = (scenario_strategy(&p), proptest::collection::vec(prop_oneof![3 => tick.prop_map(HOp::Tick), 4 => hostile_op()], 1..max_ops)).prop_map(|(mut sc, ops)| {
            sc.ticks.clear();
            Case { sc, ops, world: None }
        });
        let q = GenParams { max_ticks: 1, max_sends: 1, faults: false, tail: false, max_fates: 1, ..GenParams::default() };
        let layer_b = (scenario_strategy(&q), world_case(tier)).prop_map(|(mut sc, w)| {
            sc.ticks.clear();
            Case { sc, ops: Vec::new(), world: Some(w) }
        });
        // long histories of honest but lossy traffic (no hostile frames at all): state that only builds up over
        // many round trips - loss histories, reorder buffers, rate-controller phases - is part of what "any timing
        // of step() and any network fate" can reach
        let h = GenParams { max_ticks: tier.pick(250, 600), max_sends: 6, max_frags: 3, tail: false, ..GenParams::default() };
        let honest = scenario_strategy(&h).prop_map(|mut sc| {
            let ops = std::mem::take(&mut sc.ticks).into_iter().map(HOp::Tick).collect();
            Case { sc, ops, world: None }
        });
        // ... and streams of hundreds of tiny packets per tick with parent leads at the header field widths (valid API
        // calls only; what the frame packer does with them must not trip its own assertions)
        let bulk = bulk_scenario_strategy(tier.pick(100, 300), tier.pick(30, 80), true, false).prop_map(|mut sc| {
            let ops = std::mem::take(&mut sc.ticks).into_iter().map(HOp::Tick).collect();
            Case { sc, ops, world: None }
        });
        prop_oneof![120 => layer_a, 80 => layer_b, 20 => honest, 3 => bulk].boxed()
    }

    fn cases(&self, tier: Tier) -> u64 {
        tier.pick(120_000, 6_000_000)
    }

    fn hang_is_violation(&self) -> bool {
        true
    }

    fn case_timeout_s(&self) -> u64 {
        10
    }

    fn extra(&self, tier: Tier, seed: u64) -> ExtraResult {
        let mut out = ExtraResult::default();
        if tier == Tier::Thorough {
            let seeds: Vec<Vec<u8>> = (0..8u64).map(|k| crate::util::fill_bytes(seed ^ (k * 77), 600)).collect();
            let fz = run_fuzz("hc_hostile", 1_500_000, seed, 4096, &seeds);
            out.coverage.insert("fuzz_hc_hostile".into(), serde_json::json!({"engine": "libFuzzer via cargo-fuzz", "execs": fz.execs, "note": fz.note, "artifact": fz.artifact.as_ref().map(|p| p.display().to_string())}));
            out.evaluations += fz.execs;
            if let Some(a) = fz.artifact {
                out.violation = Some((Violation::new("fuzz:hc_hostile", format!("libFuzzer target hc_hostile stopped on an input it saved as {}: {}", a.display(), fz.note)), serde_json::json!({"artifact": a.display().to_string()})));
            }
        }
        out
    }

    fn rule(&self) -> String {
        "bulk case (1 in 75) = an honest stream of hundreds of tiny packets per tick whose parent leads sit at the header field widths (127..129, 255..257). honest case (1 in 11) = a long history (250 quick / 600 thorough ticks) of honest traffic under per-frame faults, no hostile frame at all. layer A case = honest SimPair configuration + op sequence mixing honest ticks (sends in all modes, step/flush at arbitrary spacing incl. 0) with hostile input handed to the victim: CRC-valid data / ack / sync frames whose ids are drawn relative to the victim's live window state (base, base+W, +-1, +-W, 2^20, 2^31, 2^32-1, random), datagrams with arbitrary channel / parent leads / fragment ids / counts / lengths, ack groups with correct, flipped or constant nonce, raw bytes, mutated and replayed genuine frames. Non-trivial = at least one hostile frame passed Frame::read (reached the connection logic). Distinct = distinct serialised case.".into()
    }

    fn assumptions(&self) -> Vec<String> {
        vec![
            "valid API calls only: channel < 64, packet length <= the peer's advertised receive allocation".into(),
            "built with debug assertions and overflow checks on: an assertion reachable from network input is a violation".into(),
            "a panic whose location is inside /repo/src is attributed to the library; one elsewhere aborts the run as an internal error".into(),
        ]
    }

    fn run(&self, case: &Case) -> CaseResult {
        // a block released twice makes the system allocator abort (or corrupts its heap): a crash like any other
        let _ = (crate::alloc::take_double_frees(), crate::alloc::take_invalid_frees());
        let r = {
            // freed blocks are held back until the case is over, so that a stale pointer is recognised instead of
            // hitting whatever was allocated there next
            struct Scope;
            impl Drop for Scope {
                fn drop(&mut self) {
                    crate::alloc::quarantine_end();
                }
            }
            crate::alloc::quarantine_begin();
            let _scope = Scope;
            self.run_inner(case)
        };
        let (df, size) = crate::alloc::take_double_frees();
        let inv = crate::alloc::take_invalid_frees();
        if r.violation.is_none() && (df > 0 || inv > 0) {
            return CaseResult::fail("heap:double_or_invalid_free", format!("{df} heap block(s) released twice (first: {size} bytes), {inv} release(s) of pointers that are not live blocks - with the system allocator this aborts the process"));
        }
        r
    }
}

impl C03 {
    fn run_inner(&self, case: &Case) -> CaseResult {
        if let Some(w) = &case.world {
            return run_world(w);
        }
        let mut sc = case.sc.clone();
        // sends appear inside ops; make normalize see them
        sc.ticks = case.ops.iter().filter_map(|o| if let HOp::Tick(t) = o { Some(t.clone()) } else { None }).collect();
        sc.normalize();
        // keep hostile fragment-count claims from committing gigabytes per worker
        for d in sc.dirs.iter_mut() {
            d.alloc_limit = d.alloc_limit.min(4 << 20);
        }
        sc.normalize();
        let ticks = std::mem::take(&mut sc.ticks);
        let mut sim = SimPair::new(&sc);
        let mut att = Attacker::new(&sc);
        let mut tick_iter = ticks.iter();
        let mut reached = 0u32;
        let mut classes: Vec<&'static str> = Vec::new();

        for op in case.ops.iter() {
            att.observe(&sim);
            match op {
                HOp::Tick(_) => {
                    let t = tick_iter.next().unwrap();
                    sim.run_tick(t);
                }
                HOp::Data { frame, nonce, dgs } => {
                    let datagrams: Vec<Datagram> = dgs
                        .iter()
                        .map(|d| {
                            let len = match d.len_kind {
                                0 => FRAG,
                                1 => 0,
                                2 => (d.len % 64) as usize,
                                3 => FRAG + 1,
                                _ => d.len as usize,
                            };
                            Datagram {
                                sequence_id: att.resolve(&d.pkt, true) & PKT_MASK,
                                channel_id: d.ch & 63,
                                window_parent_lead: d.w,
                                channel_parent_lead: d.h,
                                fragment_id: if d.last == 0 { 0 } else { d.frag },
                                fragment_id_last: d.last,
                                data: vec![0xA5u8; len].into_boxed_slice(),
                            }
                        })
                        .collect();
                    if datagrams.iter().any(|d| d.fragment_id_last as usize * FRAG > 10_000_000) {
                        classes.push("huge_fragment_count");
                    }
                    let f = Frame::DataFrame(DataFrame { sequence_id: att.resolve(frame, false), nonce: *nonce, datagrams });
                    let bytes = f.write();
                    if sim.handle_bytes(0, &bytes) {
                        reached += 1;
                        classes.push("hostile_data");
                    }
                }
                HOp::Ack { fbase, pbase, groups } => {
                    let frame_acks: Vec<AckGroup> = groups
                        .iter()
                        .map(|g| {
                            let base_id = att.resolve(&g.base, false);
                            let mut true_nonce = false;
                            for i in 0..32u32 {
                                if g.bitfield & (1 << i) != 0 {
                                    true_nonce ^= att.nonces.get(&base_id.wrapping_add(i)).copied().unwrap_or(false);
                                }
                            }
                            let nonce = match g.nonce_kind {
                                0 => true_nonce,
                                1 => !true_nonce,
                                2 => false,
                                _ => true,
                            };
                            AckGroup { base_id, bitfield: g.bitfield, nonce }
                        })
                        .collect();
                    let f = Frame::AckFrame(AckFrame { frame_window_base_id: att.resolve(fbase, false), packet_window_base_id: att.resolve(pbase, true), frame_acks });
                    if sim.handle_bytes(0, &f.write()) {
                        reached += 1;
                        classes.push("hostile_ack");
                    }
                }
                HOp::Sync { frame, packet } => {
                    let f = Frame::SyncFrame(SyncFrame { next_frame_id: frame.as_ref().map(|s| att.resolve(s, false)), next_packet_id: packet.as_ref().map(|s| att.resolve(s, true)) });
                    if sim.handle_bytes(0, &f.write()) {
                        reached += 1;
                        classes.push("hostile_sync");
                    }
                }
                HOp::Raw { bytes, fix_crc } => {
                    let mut b = bytes.clone();
                    if *fix_crc {
                        set_crc(&mut b);
                    }
                    if sim.handle_bytes(0, &b) {
                        reached += 1;
                        classes.push("raw_accepted");
                    }
                }
                HOp::MutateGenuine { back, muts, fix_crc } => {
                    let w = &sim.trace.wire[1];
                    if w.is_empty() {
                        continue;
                    }
                    let k = w.len() - 1 - (*back as usize).min(w.len() - 1);
                    let mut b = w[k].bytes.to_vec();
                    for m in muts {
                        match m {
                            Mutation::SetByte(p, v) => {
                                if !b.is_empty() {
                                    let i = pick_index(*p, b.len());
                                    b[i] = *v;
                                }
                            }
                            Mutation::FlipBit(p, bit) => {
                                if !b.is_empty() {
                                    let i = pick_index(*p, b.len());
                                    b[i] ^= 1 << bit;
                                }
                            }
                            Mutation::Truncate(p) => {
                                let i = pick_index(*p, b.len() + 1);
                                b.truncate(i);
                            }
                            Mutation::Append(v) => b.extend_from_slice(v),
                        }
                    }
                    if *fix_crc {
                        set_crc(&mut b);
                    }
                    if sim.handle_bytes(0, &b) {
                        reached += 1;
                        classes.push("mutated_genuine_accepted");
                    }
                }
                HOp::ReplayGenuine { back } => {
                    let w = &sim.trace.wire[1];
                    if w.is_empty() {
                        continue;
                    }
                    let k = w.len() - 1 - pick_index(*back, w.len());
                    let b = w[k].bytes.clone();
                    if sim.handle_bytes(0, &b) {
                        reached += 1;
                        classes.push("replayed_genuine");
                    }
                }
            }
        }
        // a few closing honest ticks: the victim must still step / flush / receive
        for _ in 0..5 {
            sim.advance(20_000);
            sim.endpoint_step(0);
            sim.endpoint_step(1);
        }
        if let Some(l) = sim.trace.wire[0].iter().chain(sim.trace.wire[1].iter()).map(|w| w.bytes.len()).max() {
            if l > MAX_FRAME {
                return CaseResult::fail("oracle:c03:oversize_frame", format!("an endpoint emitted a frame of {l} bytes"));
            }
        }
        CaseResult::ok(reached > 0, classes)
    }
}

// ------------------------------------------------------------------------------------------------
// Layer B: Client / Server over the virtual switch
// ------------------------------------------------------------------------------------------------

use crate::sim::world::*;
use std::collections::HashMap;
use std::net::SocketAddr;
use uflow::verif::{DisconnectAckFrame, DisconnectFrame, HandshakeAckFrame, HandshakeErrorFrame, HandshakeErrorType, HandshakeSynAckFrame, HandshakeSynFrame};

/// What the harness knows about one hostile connection (as the attacker would).
#[derive(Default, Clone)]
struct Peer {
    /// nonce the victim advertised (its tx base) and nonce the attacker advertised (victim's rx base)
    victim_nonce: Option<u32>,
    attacker_nonce: Option<u32>,
}

fn resolve_b(p: &Peer, s: &IdSel, packet_space: bool) -> u32 {
    let rx = p.attacker_nonce.unwrap_or(0);
    let tx = p.victim_nonce.unwrap_or(0);
    let base = match s.rel {
        0 => rx,
        1 => rx.wrapping_add(4096),
        2 => tx,
        3 => tx.wrapping_add(3),
        _ => 0,
    };
    let base = if packet_space { base & PKT_MASK } else { base };
    (base as i64).wrapping_add(s.delta) as u32
}

fn build_bframe(f: &BFrame, p: &Peer) -> Vec<u8> {
    match f {
        BFrame::Data { frame, nonce, dgs } => {
            let datagrams: Vec<Datagram> = dgs
                .iter()
                .map(|d| {
                    let len = match d.len_kind {
                        0 => FRAG,
                        1 => 0,
                        2 => (d.len % 64) as usize,
                        3 => FRAG + 1,
                        _ => d.len as usize,
                    };
                    Datagram {
                        sequence_id: resolve_b(p, &d.pkt, true) & PKT_MASK,
                        channel_id: d.ch & 63,
                        window_parent_lead: d.w,
                        channel_parent_lead: d.h,
                        fragment_id: if d.last == 0 { 0 } else { d.frag },
                        fragment_id_last: d.last,
                        data: vec![0xA5u8; len].into_boxed_slice(),
                    }
                })
                .collect();
            Frame::DataFrame(DataFrame { sequence_id: resolve_b(p, frame, false), nonce: *nonce, datagrams }).write().to_vec()
        }
        BFrame::Ack { fbase, pbase, groups } => {
            let frame_acks = groups.iter().map(|g| AckGroup { base_id: resolve_b(p, &g.base, false), bitfield: g.bitfield, nonce: g.nonce_kind % 2 == 1 }).collect();
            Frame::AckFrame(AckFrame { frame_window_base_id: resolve_b(p, fbase, false), packet_window_base_id: resolve_b(p, pbase, true), frame_acks }).write().to_vec()
        }
        BFrame::Sync { frame, packet } => Frame::SyncFrame(SyncFrame { next_frame_id: frame.as_ref().map(|s| resolve_b(p, s, false)), next_packet_id: packet.as_ref().map(|s| resolve_b(p, s, true)) }).write().to_vec(),
        BFrame::Raw { bytes, fix_crc } => {
            let mut b = bytes.clone();
            if *fix_crc {
                set_crc(&mut b);
            }
            b
        }
        BFrame::Disconnect => Frame::DisconnectFrame(DisconnectFrame {}).write().to_vec(),
        BFrame::DisconnectAck => Frame::DisconnectAckFrame(DisconnectAckFrame {}).write().to_vec(),
        BFrame::HandshakeError { nonce, code } => Frame::HandshakeErrorFrame(HandshakeErrorFrame {
            nonce_ack: resolve_b(p, nonce, false),
            error: match code % 3 {
                0 => HandshakeErrorType::Version,
                1 => HandshakeErrorType::Config,
                _ => HandshakeErrorType::ServerFull,
            },
        })
        .write()
        .to_vec(),
    }
}

fn run_world(c: &WorldCase) -> CaseResult {
    let mut classes: Vec<&'static str> = vec!["layer_b"];
    let clamp = |v: u32| v.clamp(1, 4 << 20);
    let scfg = ServerCfg {
        max_total: 4096,
        max_active: 32,
        handshake_errors: true,
        ep: EpCfg { max_send_rate: c.server_send_rate.max(1), max_receive_rate: c.server_recv_rate.max(1), max_packet_size: clamp(c.server_packet_size).min(1_000_000), max_receive_alloc: clamp(c.server_alloc), keepalive: true, keepalive_interval_ms: 1000, active_timeout_ms: 20000, alloc_high: 0, rate_high: 0 },
    };
    let ccfg = EpCfg { max_packet_size: clamp(c.client_packet_size).min(1_000_000), max_receive_alloc: clamp(c.client_alloc), keepalive_interval_ms: 1000, ..EpCfg::default() };
    let mut w = World::new(c.seed, &scfg);
    let mut raw: HashMap<SocketAddr, Peer> = HashMap::new();
    let mut real: Vec<(usize, bool, Peer)> = Vec::new();
    let mut seen_wire = 0usize;
    let mut reached = 0u32;

    macro_rules! observe {
        () => {
            while seen_wire < w.wire.len() {
                let r = &w.wire[seen_wire];
                seen_wire += 1;
                if r.from == w.server_addr {
                    if let Some(Frame::HandshakeSynAckFrame(f)) = Frame::read(&r.bytes) {
                        if let Some(p) = raw.get_mut(&r.to) {
                            p.victim_nonce = Some(f.nonce);
                        }
                    }
                } else if let Some(Frame::HandshakeSynFrame(f)) = Frame::read(&r.bytes) {
                    for (ci, _, p) in real.iter_mut() {
                        if w.clients[*ci].addr == r.from {
                            p.victim_nonce = Some(f.nonce);
                        }
                    }
                }
            }
        };
    }
    macro_rules! step_all {
        () => {
            w.step_server();
            for (ci, _, _) in real.iter() {
                w.step_client(*ci);
            }
            observe!();
        };
    }

    for op in c.ops.iter() {
        match op {
            BOp::Tick { dt_us } => {
                w.advance(*dt_us as u64);
                step_all!();
            }
            BOp::HostileSyn { addr, version, nonce, rate, size, alloc } => {
                let a = raw_addr(*addr as u32);
                raw.entry(a).or_default().attacker_nonce = Some(*nonce);
                let f = Frame::HandshakeSynFrame(HandshakeSynFrame { version: *version, nonce: *nonce, max_receive_rate: *rate, max_packet_size: *size, max_receive_alloc: *alloc });
                w.send_raw(a, w.server_addr, &f.write(), 0);
                classes.push("hostile_syn");
            }
            BOp::HostileAck { addr } => {
                let a = raw_addr(*addr as u32);
                if let Some(n) = raw.get(&a).and_then(|p| p.victim_nonce) {
                    w.send_raw(a, w.server_addr, &Frame::HandshakeAckFrame(HandshakeAckFrame { nonce_ack: n }).write(), 0);
                    classes.push("hostile_handshake_completed");
                }
            }
            BOp::ToServer { addr, frame } => {
                let a = raw_addr(*addr as u32);
                let p = raw.get(&a).cloned().unwrap_or_default();
                let bytes = build_bframe(frame, &p);
                if Frame::read(&bytes).is_some() && w.server_client_active(&a) {
                    reached += 1;
                    classes.push("hostile_frame_to_established_server_connection");
                }
                w.send_raw(a, w.server_addr, &bytes, 0);
            }
            BOp::ServerSend { addr, ch, mode, size } => {
                let a = raw_addr(*addr as u32);
                if let Some(server) = w.server.as_ref() {
                    if let Some(rc) = server.client(&a) {
                        // documented precondition: len <= the server's own max_packet_size
                        let len = (*size as usize).min(scfg.ep.max_packet_size as usize);
                        rc.borrow_mut().send(vec![7u8; len].into_boxed_slice(), (*ch % 64) as usize, mode_of(*mode));
                        classes.push("server_send_to_hostile_peer");
                    }
                }
            }
            BOp::ServerDisconnect { addr, now } => {
                let a = raw_addr(*addr as u32);
                if let Some(server) = w.server.as_ref() {
                    if let Some(rc) = server.client(&a) {
                        if *now {
                            rc.borrow_mut().disconnect_now()
                        } else {
                            rc.borrow_mut().disconnect()
                        }
                    }
                }
            }
            BOp::StartClient { hostile_server } => {
                if real.len() < 3 {
                    let mut link = LinkState::default();
                    if *hostile_server {
                        // the genuine server never reaches this client: the harness plays the server
                        link.blackout_until_us = [u64::MAX, u64::MAX];
                    }
                    let ci = w.add_client(&ccfg, link);
                    real.push((ci, *hostile_server, Peer::default()));
                    observe!();
                }
            }
            BOp::HostileSynAck { k, nonce, rate, size, alloc } => {
                if !real.is_empty() {
                    let i = *k as usize % real.len();
                    let (ci, _, p) = &mut real[i];
                    if let Some(cn) = p.victim_nonce {
                        p.attacker_nonce = Some(*nonce);
                        let f = Frame::HandshakeSynAckFrame(HandshakeSynAckFrame { nonce_ack: cn, nonce: *nonce, max_receive_rate: *rate, max_packet_size: *size, max_receive_alloc: *alloc });
                        let to = w.clients[*ci].addr;
                        w.send_raw(w.server_addr, to, &f.write(), 0);
                        classes.push("hostile_syn_ack");
                    }
                }
            }
            BOp::HostileSynAckNear { k, nonce, rate, below } => {
                if !real.is_empty() {
                    let i = *k as usize % real.len();
                    let (ci, _, p) = &mut real[i];
                    if let Some(cn) = p.victim_nonce {
                        p.attacker_nonce = Some(*nonce);
                        let alloc = ccfg.max_packet_size.saturating_sub(*below as u32);
                        let f = Frame::HandshakeSynAckFrame(HandshakeSynAckFrame { nonce_ack: cn, nonce: *nonce, max_receive_rate: (*rate).max(1), max_packet_size: 1, max_receive_alloc: alloc });
                        let to = w.clients[*ci].addr;
                        w.send_raw(w.server_addr, to, &f.write(), 0);
                        classes.push("hostile_syn_ack_allocation_near_packet_size");
                    }
                }
            }
            BOp::ToClient { k, frame } => {
                if !real.is_empty() {
                    let i = *k as usize % real.len();
                    let (ci, _, p) = &real[i];
                    let bytes = build_bframe(frame, p);
                    let to = w.clients[*ci].addr;
                    if Frame::read(&bytes).is_some() && w.clients[*ci].client.as_ref().map_or(false, |cl| cl.is_active()) {
                        reached += 1;
                        classes.push("hostile_frame_to_established_client");
                    }
                    w.send_raw(w.server_addr, to, &bytes, 0);
                }
            }
            BOp::ClientSend { k, ch, mode, size } => {
                if !real.is_empty() {
                    let i = *k as usize % real.len();
                    let ci = real[i].0;
                    // documented precondition: len <= the client's own max_packet_size
                    let len = (*size as usize).min(ccfg.max_packet_size as usize);
                    w.client_send(ci, vec![9u8; len], *ch, *mode);
                }
            }
            BOp::ClientDisconnect { k, now } => {
                if !real.is_empty() {
                    let i = *k as usize % real.len();
                    if let Some(cl) = w.clients[real[i].0].client.as_mut() {
                        if *now {
                            cl.disconnect_now()
                        } else {
                            cl.disconnect()
                        }
                    }
                }
            }
        }
    }
    // a few more steps so that queued hostile input is processed
    for _ in 0..5 {
        w.advance(20_000);
        step_all!();
    }
    // ---- the server keeps serving: a fresh honest client completes an echo exchange -----------------
    let honest_cfg = EpCfg { max_packet_size: 1000, max_receive_alloc: scfg.ep.max_packet_size.max(1000), keepalive_interval_ms: 1000, ..EpCfg::default() };
    let servable = scfg.ep.max_receive_alloc >= 1000 && scfg.ep.max_packet_size >= 16;
    if servable {
        let ci = w.add_client(&honest_cfg, LinkState::default());
        let mut connected = false;
        let mut echoed = false;
        let probe = world_payload(c.seed, 200, 0, 16);
        for _ in 0..400 {
            w.advance(20_000);
            let sev = w.step_server();
            for e in sev {
                if let SEv::Receive(a, data) = e {
                    if a == w.clients[ci].addr {
                        if let Some(server) = w.server.as_ref() {
                            if let Some(rc) = server.client(&a) {
                                rc.borrow_mut().send(data, 0, uflow::SendMode::Reliable);
                            }
                        }
                    }
                }
            }
            w.flush_server();
            for (k, _, _) in real.iter() {
                w.step_client(*k);
            }
            for e in w.step_client(ci) {
                match e {
                    CEv::Connect => {
                        connected = true;
                        w.client_send(ci, probe.clone(), 0, 3);
                    }
                    CEv::Receive(d) if d[..] == probe[..] => echoed = true,
                    _ => {}
                }
            }
            if echoed {
                break;
            }
        }
        if !echoed {
            return CaseResult::fail(
                if connected { "oracle:c03:server_stopped_serving:no_echo" } else { "oracle:c03:server_stopped_serving:no_connect" },
                format!("after the hostile phase a fresh honest client {} within 8 s (server cfg {:?}); client events: {:?}", if connected { "connected but its echo never came back" } else { "could not connect" }, scfg.ep, w.clients[ci].events.iter().map(|e| &e.2).collect::<Vec<_>>()),
            );
        }
        classes.push("honest_echo_after_hostile_phase");
    }
    classes.sort();
    classes.dedup();
    CaseResult::ok(reached > 0, classes)
}
