//! C03 — no network input can crash or hang an endpoint (layer A: HalfConnection; layer B: World).
//!
//! Layer A: a victim `HalfConnection` (endpoint 0) talks to an honest peer (endpoint 1) through
//! SimPair. The attacker sits at the peer's position on the wire: it sees everything the victim
//! emits (ids, nonces, window bases) and hands the victim structured frames whose fields are drawn
//! relative to that live state, raw bytes, and mutated genuine frames, interleaved with honest
//! traffic and arbitrary tick spacing.

use crate::engine::*;
use crate::sim::gen::*;
use crate::sim::pair::*;
use proptest::prelude::*;
use serde::{Deserialize, Serialize};
use uflow::verif::Serialize as _;
use uflow::verif::{AckFrame, AckGroup, DataFrame, Datagram, Frame, SyncFrame};

/// An id chosen relative to something the attacker can observe.
#[derive(Clone, Debug, Serialize, Deserialize)]
pub struct IdSel {
    /// 0: victim rx window base, 1: victim rx base + window, 2: victim tx base (oldest unacked),
    /// 3: victim tx next, 4: absolute
    pub rel: u8,
    pub delta: i64,
}

#[derive(Clone, Debug, Serialize, Deserialize)]
pub struct HDatagram {
    pub pkt: IdSel,
    pub ch: u8,
    pub w: u16,
    pub h: u16,
    pub frag: u16,
    pub last: u16,
    /// 0: full fragment, 1: empty, 2: short, 3: oversize(1449), 4: as `len`
    pub len_kind: u8,
    pub len: u16,
}

#[derive(Clone, Debug, Serialize, Deserialize)]
pub struct HGroup {
    pub base: IdSel,
    pub bitfield: u32,
    /// 0 correct (computed from the victim's real nonces), 1 flipped, 2 false, 3 true
    pub nonce_kind: u8,
}

#[derive(Clone, Debug, Serialize, Deserialize)]
pub enum Mutation {
    SetByte(u16, u8),
    FlipBit(u16, u8),
    Truncate(u16),
    Append(Vec<u8>),
}

#[derive(Clone, Debug, Serialize, Deserialize)]
pub enum HOp {
    Tick(Tick),
    Data { frame: IdSel, nonce: bool, dgs: Vec<HDatagram> },
    Ack { fbase: IdSel, pbase: IdSel, groups: Vec<HGroup> },
    Sync { frame: Option<IdSel>, packet: Option<IdSel> },
    Raw { bytes: Vec<u8>, fix_crc: bool },
    /// mutate the k-th most recent genuine frame the honest peer emitted and hand it to the victim
    MutateGenuine { back: u8, muts: Vec<Mutation>, fix_crc: bool },
    /// replay a genuine frame from the peer unmodified
    ReplayGenuine { back: u16 },
}

#[derive(Clone, Debug, Serialize, Deserialize)]
pub struct Case {
    pub sc: PairScenario,
    pub ops: Vec<HOp>,
}

fn delta_strategy() -> impl Strategy<Value = i64> {
    prop_oneof![
        4 => Just(0i64),
        3 => 1i64..4,
        2 => -4i64..0,
        2 => 4i64..70,
        2 => prop_oneof![Just(4095i64), Just(4096), Just(4097), Just(8191), Just(8192), Just(8193), Just(-4096), Just(-4097)],
        1 => -70i64..-4,
        1 => prop_oneof![Just(0x7FFF_FFFFi64), Just(0x8000_0000), Just(0xFFFF_FFFF), Just(0x10_0000), Just(0xF_FFFF), Just(0x8_0000), Just(-0x8_0000)],
        1 => any::<u32>().prop_map(|v| v as i64),
    ]
}

fn idsel(rels: &'static [u8]) -> impl Strategy<Value = IdSel> {
    (proptest::sample::select(rels), delta_strategy()).prop_map(|(rel, delta)| IdSel { rel, delta })
}

fn hdatagram() -> impl Strategy<Value = HDatagram> {
    (
        idsel(&[0, 0, 0, 1, 4]),
        prop_oneof![4 => 0u8..4, 1 => 0u8..64, 1 => 64u8..=255],
        prop_oneof![4 => Just(0u16), 3 => 1u16..6, 1 => any::<u16>()],
        prop_oneof![4 => Just(0u16), 3 => 1u16..6, 1 => any::<u16>()],
        prop_oneof![4 => Just(0u16), 3 => 0u16..5, 1 => any::<u16>()],
        prop_oneof![4 => Just(0u16), 3 => 1u16..5, 1 => Just(65535u16), 1 => any::<u16>(), 1 => 40u16..800],
        prop_oneof![3 => Just(0u8), 1 => Just(1u8), 2 => Just(2u8), 1 => Just(3u8), 1 => Just(4u8)],
        0u16..1500,
    )
        .prop_map(|(pkt, ch, w, h, frag, last, len_kind, len)| HDatagram { pkt, ch, w, h, frag, last, len_kind, len })
}

fn hgroup() -> impl Strategy<Value = HGroup> {
    (idsel(&[2, 2, 3, 3, 4]), prop_oneof![2 => Just(1u32), 2 => Just(u32::MAX), 1 => Just(0u32), 1 => Just(0x8000_0001u32), 3 => any::<u32>()], 0u8..4)
        .prop_map(|(base, bitfield, nonce_kind)| HGroup { base, bitfield, nonce_kind: if nonce_kind == 3 { 0 } else { nonce_kind.min(3) } })
}

fn mutation() -> impl Strategy<Value = Mutation> {
    prop_oneof![
        3 => (any::<u16>(), any::<u8>()).prop_map(|(p, v)| Mutation::SetByte(p, v)),
        3 => (any::<u16>(), 0u8..8).prop_map(|(p, b)| Mutation::FlipBit(p, b)),
        1 => any::<u16>().prop_map(Mutation::Truncate),
        1 => proptest::collection::vec(any::<u8>(), 1..10).prop_map(Mutation::Append),
    ]
}

fn hostile_op() -> impl Strategy<Value = HOp> {
    prop_oneof![
        5 => (idsel(&[0, 0, 0, 1, 4]), any::<bool>(), proptest::collection::vec(hdatagram(), 0..5)).prop_map(|(frame, nonce, dgs)| HOp::Data { frame, nonce, dgs }),
        5 => (idsel(&[2, 2, 3, 3, 4]), idsel(&[2, 2, 3, 3, 4]), proptest::collection::vec(hgroup(), 0..4)).prop_map(|(fbase, pbase, groups)| HOp::Ack { fbase, pbase, groups }),
        3 => (proptest::option::of(idsel(&[0, 0, 1, 4])), proptest::option::of(idsel(&[0, 0, 1, 4]))).prop_map(|(frame, packet)| HOp::Sync { frame, packet }),
        1 => (proptest::collection::vec(any::<u8>(), 0..80), any::<bool>()).prop_map(|(bytes, fix_crc)| HOp::Raw { bytes, fix_crc }),
        3 => (0u8..4, proptest::collection::vec(mutation(), 1..4), prop_oneof![4 => Just(true), 1 => Just(false)]).prop_map(|(back, muts, fix_crc)| HOp::MutateGenuine { back, muts, fix_crc }),
        1 => any::<u16>().prop_map(|back| HOp::ReplayGenuine { back }),
    ]
}

pub struct C03;

struct Attacker {
    /// victim's receive-side bases as last advertised in an ack frame it emitted
    v_rx_frame_base: u32,
    v_rx_pkt_base: u32,
    v_tx_frame_base: u32,
    v_tx_frame_next: u32,
    v_tx_pkt_base: u32,
    v_tx_pkt_next: u32,
    rx_win: u32,
    nonces: std::collections::HashMap<u32, bool>,
    seen_wire: usize,
}

impl Attacker {
    fn new(sc: &PairScenario) -> Self {
        Attacker {
            v_rx_frame_base: sc.dirs[1].frm_base,
            v_rx_pkt_base: sc.dirs[1].pkt_base & PKT_MASK,
            v_tx_frame_base: sc.dirs[0].frm_base,
            v_tx_frame_next: sc.dirs[0].frm_base,
            v_tx_pkt_base: sc.dirs[0].pkt_base & PKT_MASK,
            v_tx_pkt_next: sc.dirs[0].pkt_base & PKT_MASK,
            rx_win: 1 << sc.dirs[1].pkt_win_log2,
            nonces: std::collections::HashMap::new(),
            seen_wire: 0,
        }
    }

    /// Learns from what the victim (endpoint 0) and the honest peer (endpoint 1) put on the wire.
    fn observe(&mut self, sim: &SimPair) {
        let w = &sim.trace.wire[0];
        while self.seen_wire < w.len() {
            if let Some(f) = Frame::read(&w[self.seen_wire].bytes) {
                match f {
                    Frame::DataFrame(d) => {
                        self.v_tx_frame_next = d.sequence_id.wrapping_add(1);
                        self.nonces.insert(d.sequence_id, d.nonce);
                        for dg in d.datagrams.iter() {
                            let lead = dg.sequence_id.wrapping_sub(self.v_tx_pkt_base) & PKT_MASK;
                            let cur = self.v_tx_pkt_next.wrapping_sub(self.v_tx_pkt_base) & PKT_MASK;
                            if lead < 0x80000 && lead + 1 > cur {
                                self.v_tx_pkt_next = dg.sequence_id.wrapping_add(1) & PKT_MASK;
                            }
                        }
                    }
                    Frame::AckFrame(a) => {
                        self.v_rx_frame_base = a.frame_window_base_id;
                        self.v_rx_pkt_base = a.packet_window_base_id;
                    }
                    _ => {}
                }
            }
            self.seen_wire += 1;
        }
        // the honest peer's acks tell where the victim's tx windows start
        if let Some(last_ack) = sim.trace.wire[1].iter().rev().find_map(|r| match Frame::read(&r.bytes) {
            Some(Frame::AckFrame(a)) => Some(a),
            _ => None,
        }) {
            self.v_tx_frame_base = last_ack.frame_window_base_id;
            self.v_tx_pkt_base = last_ack.packet_window_base_id;
        }
    }

    fn resolve(&self, s: &IdSel, packet_space: bool) -> u32 {
        let base: u32 = match (s.rel, packet_space) {
            (0, false) => self.v_rx_frame_base,
            (0, true) => self.v_rx_pkt_base,
            (1, false) => self.v_rx_frame_base.wrapping_add(self.rx_win),
            (1, true) => self.v_rx_pkt_base.wrapping_add(self.rx_win),
            (2, false) => self.v_tx_frame_base,
            (2, true) => self.v_tx_pkt_base,
            (3, false) => self.v_tx_frame_next,
            (3, true) => self.v_tx_pkt_next,
            _ => 0,
        };
        (base as i64).wrapping_add(s.delta) as u32
    }
}

fn set_crc(bytes: &mut Vec<u8>) {
    if bytes.len() >= 5 {
        let n = bytes.len();
        let c = uflow::verif::crc32(&bytes[..n - 4]);
        bytes[n - 4..].copy_from_slice(&c.to_be_bytes());
    }
}

impl Check for C03 {
    type Case = Case;

    fn id(&self) -> &'static str {
        "C03"
    }

    fn strategy(&self, tier: Tier) -> BoxedStrategy<Case> {
        let p = GenParams { max_ticks: 1, max_sends: 4, max_frags: 3, tail: false, max_fates: 60, ..GenParams::default() };
        let tick = tick_strategy(&p);
        let max_ops = tier.pick(60usize, 200usize);
        (scenario_strategy(&p), proptest::collection::vec(prop_oneof![3 => tick.prop_map(HOp::Tick), 4 => hostile_op()], 1..max_ops))
            .prop_map(|(mut sc, ops)| {
                sc.ticks.clear();
                Case { sc, ops }
            })
            .boxed()
    }

    fn cases(&self, tier: Tier) -> u64 {
        tier.pick(40_000, 3_000_000)
    }

    fn hang_is_violation(&self) -> bool {
        true
    }

    fn case_timeout_s(&self) -> u64 {
        10
    }

    fn rule(&self) -> String {
        "layer A case = honest SimPair configuration + op sequence mixing honest ticks (sends in all modes, step/flush at arbitrary spacing incl. 0) with hostile input handed to the victim: CRC-valid data / ack / sync frames whose ids are drawn relative to the victim's live window state (base, base+W, +-1, +-W, 2^20, 2^31, 2^32-1, random), datagrams with arbitrary channel / parent leads / fragment ids / counts / lengths, ack groups with correct, flipped or constant nonce, raw bytes, mutated and replayed genuine frames. Non-trivial = at least one hostile frame passed Frame::read (reached the connection logic). Distinct = distinct serialised case.".into()
    }

    fn assumptions(&self) -> Vec<String> {
        vec![
            "valid API calls only: channel < 64, packet length <= the peer's advertised receive allocation".into(),
            "built with debug assertions and overflow checks on: an assertion reachable from network input is a violation".into(),
            "a panic whose location is inside /repo/src is attributed to the library; one elsewhere aborts the run as an internal error".into(),
        ]
    }

    fn run(&self, case: &Case) -> CaseResult {
        let mut sc = case.sc.clone();
        // sends appear inside ops; make normalize see them
        sc.ticks = case.ops.iter().filter_map(|o| if let HOp::Tick(t) = o { Some(t.clone()) } else { None }).collect();
        sc.normalize();
        // keep hostile fragment-count claims from committing gigabytes per worker
        for d in sc.dirs.iter_mut() {
            d.alloc_limit = d.alloc_limit.min(4 << 20);
        }
        sc.normalize();
        let ticks = std::mem::take(&mut sc.ticks);
        let mut sim = SimPair::new(&sc);
        let mut att = Attacker::new(&sc);
        let mut tick_iter = ticks.iter();
        let mut reached = 0u32;
        let mut classes: Vec<&'static str> = Vec::new();

        for op in case.ops.iter() {
            att.observe(&sim);
            match op {
                HOp::Tick(_) => {
                    let t = tick_iter.next().unwrap();
                    sim.run_tick(t);
                }
                HOp::Data { frame, nonce, dgs } => {
                    let datagrams: Vec<Datagram> = dgs
                        .iter()
                        .map(|d| {
                            let len = match d.len_kind {
                                0 => FRAG,
                                1 => 0,
                                2 => (d.len % 64) as usize,
                                3 => FRAG + 1,
                                _ => d.len as usize,
                            };
                            Datagram {
                                sequence_id: att.resolve(&d.pkt, true) & PKT_MASK,
                                channel_id: d.ch & 63,
                                window_parent_lead: d.w,
                                channel_parent_lead: d.h,
                                fragment_id: if d.last == 0 { 0 } else { d.frag },
                                fragment_id_last: d.last,
                                data: vec![0xA5u8; len].into_boxed_slice(),
                            }
                        })
                        .collect();
                    if datagrams.iter().any(|d| d.fragment_id_last as usize * FRAG > 10_000_000) {
                        classes.push("huge_fragment_count");
                    }
                    let f = Frame::DataFrame(DataFrame { sequence_id: att.resolve(frame, false), nonce: *nonce, datagrams });
                    let bytes = f.write();
                    if sim.handle_bytes(0, &bytes) {
                        reached += 1;
                        classes.push("hostile_data");
                    }
                }
                HOp::Ack { fbase, pbase, groups } => {
                    let frame_acks: Vec<AckGroup> = groups
                        .iter()
                        .map(|g| {
                            let base_id = att.resolve(&g.base, false);
                            let mut true_nonce = false;
                            for i in 0..32u32 {
                                if g.bitfield & (1 << i) != 0 {
                                    true_nonce ^= att.nonces.get(&base_id.wrapping_add(i)).copied().unwrap_or(false);
                                }
                            }
                            let nonce = match g.nonce_kind {
                                0 => true_nonce,
                                1 => !true_nonce,
                                2 => false,
                                _ => true,
                            };
                            AckGroup { base_id, bitfield: g.bitfield, nonce }
                        })
                        .collect();
                    let f = Frame::AckFrame(AckFrame { frame_window_base_id: att.resolve(fbase, false), packet_window_base_id: att.resolve(pbase, true), frame_acks });
                    if sim.handle_bytes(0, &f.write()) {
                        reached += 1;
                        classes.push("hostile_ack");
                    }
                }
                HOp::Sync { frame, packet } => {
                    let f = Frame::SyncFrame(SyncFrame { next_frame_id: frame.as_ref().map(|s| att.resolve(s, false)), next_packet_id: packet.as_ref().map(|s| att.resolve(s, true)) });
                    if sim.handle_bytes(0, &f.write()) {
                        reached += 1;
                        classes.push("hostile_sync");
                    }
                }
                HOp::Raw { bytes, fix_crc } => {
                    let mut b = bytes.clone();
                    if *fix_crc {
                        set_crc(&mut b);
                    }
                    if sim.handle_bytes(0, &b) {
                        reached += 1;
                        classes.push("raw_accepted");
                    }
                }
                HOp::MutateGenuine { back, muts, fix_crc } => {
                    let w = &sim.trace.wire[1];
                    if w.is_empty() {
                        continue;
                    }
                    let k = w.len() - 1 - (*back as usize).min(w.len() - 1);
                    let mut b = w[k].bytes.to_vec();
                    for m in muts {
                        match m {
                            Mutation::SetByte(p, v) => {
                                if !b.is_empty() {
                                    let i = pick_index(*p, b.len());
                                    b[i] = *v;
                                }
                            }
                            Mutation::FlipBit(p, bit) => {
                                if !b.is_empty() {
                                    let i = pick_index(*p, b.len());
                                    b[i] ^= 1 << bit;
                                }
                            }
                            Mutation::Truncate(p) => {
                                let i = pick_index(*p, b.len() + 1);
                                b.truncate(i);
                            }
                            Mutation::Append(v) => b.extend_from_slice(v),
                        }
                    }
                    if *fix_crc {
                        set_crc(&mut b);
                    }
                    if sim.handle_bytes(0, &b) {
                        reached += 1;
                        classes.push("mutated_genuine_accepted");
                    }
                }
                HOp::ReplayGenuine { back } => {
                    let w = &sim.trace.wire[1];
                    if w.is_empty() {
                        continue;
                    }
                    let k = w.len() - 1 - pick_index(*back, w.len());
                    let b = w[k].bytes.clone();
                    if sim.handle_bytes(0, &b) {
                        reached += 1;
                        classes.push("replayed_genuine");
                    }
                }
            }
        }
        // a few closing honest ticks: the victim must still step / flush / receive
        for _ in 0..5 {
            sim.advance(20_000);
            sim.endpoint_step(0);
            sim.endpoint_step(1);
        }
        if let Some(l) = sim.trace.wire[0].iter().chain(sim.trace.wire[1].iter()).map(|w| w.bytes.len()).max() {
            if l > MAX_FRAME {
                return CaseResult::fail("oracle:c03:oversize_frame", format!("an endpoint emitted a frame of {l} bytes"));
            }
        }
        CaseResult::ok(reached > 0, classes)
    }
}
