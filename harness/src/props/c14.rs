//! C14 — the allowed send rate obeys the RFC 5348 bounds.
//!
//! Drives `SendRateComp` directly with generated feedback histories and compares every step with
//! an independent evaluation of the RFC formulas, used as bounds.

use crate::engine::*;
use proptest::prelude::*;
use serde::{Deserialize, Serialize};
use uflow::verif::{FeedbackData, SendRateComp};

const S: f64 = 1472.0;
const FLOOR: u32 = 23; // s / t_mbi = 1472 / 64

#[derive(Clone, Debug, Serialize, Deserialize)]
pub struct Fb {
    pub rtt_ms: u32,
    pub recv: u32,
    pub loss: f64,
    pub rl: bool,
}

#[derive(Clone, Debug, Serialize, Deserialize)]
pub enum Op {
    Sent,
    Step { dt_ms: u32, fb: Option<Fb> },
}

#[derive(Clone, Debug, Serialize, Deserialize)]
pub struct Direct {
    pub ceiling: u32,
    pub ops: Vec<Op>,
}

/// Endpoints variant: the "configured ceiling" of a connection between a real Client and Server is
/// min(own max_send_rate, the PEER's max_receive_rate); all three settings of each side (send rate, receive rate,
/// receive allocation - neighbours in the handshake frames) are generated independently.
#[derive(Clone, Debug, Serialize, Deserialize)]
pub struct EpRates {
    pub seed: u64,
    /// (max_send_rate, max_receive_rate, max_receive_alloc)
    pub server: (u32, u32, u32),
    pub client: (u32, u32, u32),
    pub latency_us: [u32; 2],
    pub period_us: u32,
    /// every n-th datagram of each direction is lost (0 = none)
    pub drop_every: [u8; 2],
    /// (tick, from_client, size, count)
    pub sends: Vec<(u16, bool, u16, u8)>,
    pub ticks: u16,
}

#[derive(Clone, Debug, Serialize, Deserialize)]
#[serde(untagged)]
pub enum Case {
    Direct(Direct),
    Endpoints { endpoints: EpRates },
}

fn run_endpoints(c: &EpRates) -> CaseResult {
    use crate::sim::world::*;
    let mut classes: Vec<&'static str> = vec!["endpoints"];
    let ep = |r: &(u32, u32, u32)| EpCfg { max_send_rate: r.0.max(1472), max_receive_rate: r.1.max(1472), max_receive_alloc: r.2.max(3000), max_packet_size: 1400, ..EpCfg::default() };
    let scfg = ServerCfg { ep: ep(&c.server), ..ServerCfg::default() };
    let ccfg = ep(&c.client);
    let mut w = World::new(c.seed, &scfg);
    let mut fates: [Vec<Fate>; 2] = [Vec::new(), Vec::new()];
    for d in 0..2 {
        if c.drop_every[d] > 0 {
            for k in 0..4000usize {
                // (the handshake itself is left alone)
                fates[d].push(if k > 3 && k % (c.drop_every[d] as usize + 1) == 0 { Fate::Drop } else { Fate::Deliver(0) });
            }
        }
    }
    let ci = w.add_client(&ccfg, LinkState { latency_us: c.latency_us, fates, ..LinkState::default() });
    let caddr = w.clients[ci].addr;
    let period = c.period_us.max(1000) as u64;
    let ceil = [(ccfg.max_send_rate as f64).min(scfg.ep.max_receive_rate as f64), (scfg.ep.max_send_rate as f64).min(ccfg.max_receive_rate as f64)];
    let mut idx = [0u32; 2];
    let mut peak = [0.0f64; 2];
    let mut below_peak = [false; 2];
    for tick in 0..c.ticks {
        w.advance(period);
        for (at, from_client, size, count) in c.sends.iter() {
            if crate::engine::pick_index(*at, c.ticks as usize) == tick as usize {
                for _ in 0..*count {
                    let d = if *from_client { 0 } else { 1 };
                    let payload = world_payload(c.seed, d as u8 * 100, idx[d], (*size as usize).clamp(5, 1400));
                    idx[d] += 1;
                    if *from_client {
                        w.client_send(ci, payload, 0, 3);
                    } else {
                        w.server_send(ci, payload, 0, 3);
                    }
                }
            }
        }
        w.step_server();
        w.step_client(ci);
        let rates = [
            w.clients[ci].client.as_ref().and_then(|cl| cl.verif_stats()).map(|v| v.send_rate),
            w.server.as_ref().and_then(|s| s.client(&caddr).and_then(|rc| rc.borrow().verif_stats())).map(|v| v.send_rate),
        ];
        for d in 0..2 {
            if let Some(x) = rates[d] {
                if x > ceil[d] {
                    return CaseResult::fail(
                        if d == 0 { "oracle:endpoints:above_negotiated_ceiling:client" } else { "oracle:endpoints:above_negotiated_ceiling:server" },
                        format!(
                            "t={} us: the allowed send rate of {} is {x} B/s; the configured ceiling of that direction is min(its max_send_rate, the peer's max_receive_rate) = {} B/s (server send/receive/alloc {:?}, client {:?})",
                            w.now_us, if d == 0 { "the client" } else { "the server" }, ceil[d], c.server, c.client
                        ),
                    );
                }
                if x < (FLOOR as f64).min(ceil[d]) {
                    return CaseResult::fail("oracle:endpoints:below_floor", format!("t={} us: allowed send rate {x} B/s of endpoint {d} is below the s/64 floor", w.now_us));
                }
                if x < peak[d] {
                    below_peak[d] = true;
                }
                peak[d] = peak[d].max(x);
            }
        }
    }
    let mut nontrivial = false;
    for d in 0..2 {
        if peak[d] >= ceil[d] {
            classes.push("endpoints_rate_reached_the_ceiling");
            nontrivial = true;
        }
        if below_peak[d] {
            classes.push("endpoints_rate_fell");
        }
    }
    if (c.server.1 as f64) < (c.client.0 as f64).min(c.server.2 as f64) || (c.client.1 as f64) < (c.server.0 as f64).min(c.client.2 as f64) {
        classes.push("endpoints_peer_receive_rate_binds_and_differs_from_alloc");
    }
    CaseResult::ok(nontrivial, classes)
}

fn x_bps(r: f64, p: f64) -> f64 {
    // RFC 5348 section 3.1 with b = 1 and t_RTO = 4R
    let f = (2.0 * p / 3.0).sqrt() + 12.0 * (3.0 * p / 8.0).sqrt() * p * (1.0 + 32.0 * p * p);
    S / (r * f)
}

fn loss_strategy() -> impl Strategy<Value = f64> {
    prop_oneof![
        3 => Just(0.0f64),
        3 => (0.0f64..6.0).prop_map(|e| 10f64.powf(-e)),
        1 => Just(1.0f64),
        1 => Just(1e-9f64),
        1 => 0.0f64..=1.0,
    ]
}

fn fb_strategy() -> impl Strategy<Value = Fb> {
    (
        prop_oneof![4 => Just(0u32), 8 => 1u32..300, 4 => 300u32..5000, 2 => 5000u32..120_000, 2 => 120_000u32..2_000_000],
        prop_oneof![2 => Just(0u32), 3 => 1u32..20_000, 3 => any::<u32>(), 1 => Just(u32::MAX), 2 => 20_000u32..20_000_000],
        loss_strategy(),
        any::<bool>(),
    )
        .prop_map(|(rtt_ms, recv, loss, rl)| Fb { rtt_ms, recv, loss, rl })
}

fn op_strategy() -> impl Strategy<Value = Op> {
    prop_oneof![
        1 => Just(Op::Sent),
        6 => (
            prop_oneof![2 => Just(0u32), 4 => 1u32..60, 3 => 60u32..3000, 2 => 3000u32..120_000, 1 => 120_000u32..10_000_000],
            proptest::option::weighted(0.55, fb_strategy())
        ).prop_map(|(dt_ms, fb)| Op::Step { dt_ms, fb }),
    ]
}

fn ceiling_strategy() -> impl Strategy<Value = u32> {
    prop_oneof![
        1 => Just(1472u32),
        1 => Just(u32::MAX),
        1 => Just(1u32 << 31),
        1 => Just((1u32 << 31) - 1),
        3 => (0.0f64..1.0).prop_map(|u| (1472.0 * (u32::MAX as f64 / 1472.0).powf(u)) as u32),
        2 => 1472u32..4_000_000,
    ]
}

pub struct C14;

impl Check for C14 {
    type Case = Case;

    fn id(&self) -> &'static str {
        "C14"
    }

    fn strategy(&self, tier: Tier) -> BoxedStrategy<Case> {
        let max_ops = tier.pick(40usize, 160usize);
        let direct = (ceiling_strategy(), proptest::collection::vec(op_strategy(), 1..max_ops)).prop_map(|(ceiling, ops)| Case::Direct(Direct { ceiling, ops }));
        let rate = || prop_oneof![1 => Just(1472u32), 3 => 1472u32..60_000, 3 => 60_000u32..4_000_000, 1 => Just(u32::MAX), 1 => (0.0f64..1.0).prop_map(|u| (1472.0 * (u32::MAX as f64 / 1472.0).powf(u)) as u32)];
        let alloc = || prop_oneof![2 => 3000u32..60_000, 3 => 60_000u32..4_000_000, 1 => Just(1_000_000u32), 1 => Just(u32::MAX)];
        let triple = move || (rate(), rate(), alloc());
        let endpoints = (
            (any::<u64>(), triple(), triple()),
            (prop_oneof![Just(0u32), 0u32..5_000, 5_000u32..80_000], prop_oneof![Just(0u32), 0u32..5_000, 5_000u32..80_000]),
            prop_oneof![Just(2_000u32), Just(10_000u32), Just(16_000u32), Just(50_000u32)],
            (prop_oneof![3 => Just(0u8), 2 => 3u8..40], prop_oneof![3 => Just(0u8), 2 => 3u8..40]),
            proptest::collection::vec((any::<u16>(), any::<bool>(), prop_oneof![5u16..200, 200u16..1400], 1u8..60), 1..12),
            tier.pick(60u16..400, 100u16..1500),
        )
            .prop_map(|((seed, server, client), (l0, l1), period_us, (d0, d1), sends, ticks)| Case::Endpoints { endpoints: EpRates { seed, server, client, latency_us: [l0, l1], period_us, drop_every: [d0, d1], sends, ticks } });
        // (an endpoint case costs about as much as a thousand direct ones)
        prop_oneof![3000 => direct, 1 => endpoints].boxed()
    }

    fn cases(&self, tier: Tier) -> u64 {
        tier.pick(2_400_000, 30_000_000)
    }

    fn hang_is_violation(&self) -> bool {
        true
    }

    fn case_timeout_s(&self) -> u64 {
        10
    }

    fn rule(&self) -> String {
        "case = (ceiling >= 1472 B/s, sequence of notify_frame_sent / step(dt, optional feedback{rtt sample 0..120 s, now and then up to 2000 s (an application that was suspended with frames waiting in its socket measures such samples; beyond 2000 s the equation cannot be inverted for rates near 2^32 B/s any more), receive rate 0..2^32-1, loss rate 0..1, rate-limited flag})) driven directly into SendRateComp; about one case in 3000 (they cost a thousand times more) is an Endpoints case instead: a real Client and Server whose max_send_rate, max_receive_rate and max_receive_alloc are generated independently exchange Reliable bursts over a link that loses every n-th datagram or none, and after every step the allowed send rate of each side must lie between the s/64 floor and the configured ceiling of its direction, min(own max_send_rate, the peer's max_receive_rate); non-trivial (direct cases) = the history reaches equation mode (a feedback reported loss) and contains at least one no-feedback step that changed the rate or the RTO (an expiry); distinct = distinct serialised case".into()
    }

    fn assumptions(&self) -> Vec<String> {
        vec![
            "bounds, not exact values: X <= max(X_Bps(R,p),23)/0.95+1 after feedback in equation mode (5% inversion tolerance on the step that first reports loss, with p as handed to the loss-history reset callback), X <= max(2*X_old, 4380/R)+1 in slow start, floor(X_old/2) <= X_new <= X_old on a step without feedback, min(23,ceiling) <= X <= ceiling always".into(),
            "now_ms is monotone; nothing is asserted before the first notify_frame_sent (the component is documented to ignore steps until then)".into(),
        ]
    }

    fn run(&self, case: &Case) -> CaseResult {
        let case = match case {
            Case::Direct(d) => d,
            Case::Endpoints { endpoints } => return run_endpoints(endpoints),
        };
        let mut comp = SendRateComp::new(case.ceiling);
        let mut now_ms: u64 = 0;
        let mut started = false;
        let mut eqn = false;
        let mut prev_loss = 0.0f64;
        let mut model_rtt: Option<f64> = None;
        let mut expiries = 0u32;
        let mut classes: Vec<&'static str> = Vec::new();
        let ceiling = case.ceiling as f64;

        for (i, op) in case.ops.iter().enumerate() {
            match op {
                Op::Sent => {
                    comp.notify_frame_sent(now_ms);
                    started = true;
                }
                Op::Step { dt_ms, fb } => {
                    now_ms += *dt_ms as u64;
                    let x_old = comp.send_rate();
                    let rto_old = comp.rto_ms();
                    let mut reset_p: Option<f64> = None;
                    let feedback = fb.as_ref().map(|f| FeedbackData { rtt_ms: f.rtt_ms as u64, receive_rate: f.recv, loss_rate: f.loss, rate_limited: f.rl });
                    comp.step(now_ms, feedback, |p| reset_p = Some(p));
                    let x = comp.send_rate();

                    if !started {
                        if x != x_old || comp.rtt_s().is_some() {
                            return CaseResult::fail("oracle:changed_before_first_send", format!("op {i}: state changed before any frame was sent"));
                        }
                        continue;
                    }

                    // global bounds
                    if x > ceiling {
                        return CaseResult::fail(
                            if fb.is_some() { "oracle:above_ceiling:feedback" } else { "oracle:above_ceiling:nofeedback" },
                            format!("op {i}: allowed rate {x} exceeds configured ceiling {ceiling} (previous {x_old})"),
                        );
                    }
                    if x < (FLOOR as f64).min(ceiling) {
                        return CaseResult::fail(
                            if fb.is_some() { "oracle:below_floor:feedback" } else { "oracle:below_floor:nofeedback" },
                            format!("op {i}: allowed rate {x} is below the s/64 floor (previous {x_old})"),
                        );
                    }

                    if let Some(f) = fb {
                        // RTT estimate
                        let sample = f.rtt_ms as f64 / 1000.0;
                        let want = match model_rtt {
                            None => sample,
                            Some(r) => 0.9 * r + 0.1 * sample,
                        };
                        model_rtt = Some(want);
                        let got = comp.rtt_s();
                        let ok = match got {
                            Some(g) => (g - want).abs() <= 1e-9 * want.abs().max(1e-12) + 1e-15,
                            None => false,
                        };
                        if !ok {
                            return CaseResult::fail("oracle:rtt_average", format!("op {i}: rtt estimate {:?}, expected 0.9*old+0.1*sample = {want}", got));
                        }
                        // RTT estimate must track the model from here on, so re-anchor on the observed value
                        let r = want;

                        let loss_increase = f.loss > prev_loss;
                        prev_loss = f.loss;
                        if eqn || loss_increase {
                            let first = !eqn;
                            eqn = true;
                            let p = if first {
                                classes.push("first_loss");
                                match reset_p {
                                    Some(p) => p,
                                    None => return CaseResult::fail("oracle:no_loss_history_reset", format!("op {i}: first loss report did not re-initialise the loss history")),
                                }
                            } else {
                                f.loss
                            };
                            let bound = x_bps(r, p).max(FLOOR as f64) / 0.95 + 1.0;
                            if x > bound {
                                return CaseResult::fail(
                                    if first { "oracle:above_equation:first_loss" } else { "oracle:above_equation" },
                                    format!("op {i}: allowed rate {x} exceeds the throughput equation X_Bps(R={r}, p={p}) = {} (bound {bound})", x_bps(r, p)),
                                );
                            }
                        } else {
                            let bound = (2.0 * x_old).max(4380.0 / r) + 1.0;
                            if x > bound {
                                return CaseResult::fail("oracle:slow_start_more_than_doubles", format!("op {i}: slow start raised the rate from {x_old} to {x}; at most max(2*X, 4380/R) = {bound} is allowed (R={r})"));
                            }
                        }
                    } else {
                        if x > x_old {
                            return CaseResult::fail("oracle:increase_without_feedback", format!("op {i}: rate rose from {x_old} to {x} on a step without feedback (eqn mode: {eqn})"));
                        }
                        if x < (x_old / 2.0).floor() {
                            return CaseResult::fail("oracle:more_than_halved", format!("op {i}: a single step without feedback cut the rate from {x_old} to {x}"));
                        }
                        if x != x_old || comp.rto_ms() != rto_old {
                            expiries += 1;
                        }
                    }
                }
            }
        }
        if eqn {
            classes.push("reached_equation_mode");
        }
        if expiries > 0 {
            classes.push("had_expiry");
        }
        CaseResult::ok(eqn && expiries > 0, classes)
    }
}
