//! C04 — fragmentation and reassembly are exact for every packet size.

use crate::engine::*;
use crate::props::c02::{CAP_US, STALL_US};
use crate::sim::gen::*;
use crate::sim::ledger::*;
use crate::sim::pair::*;
use proptest::prelude::*;
use serde::{Deserialize, Serialize};
use uflow::verif::Serialize as _;
use uflow::verif::{DataFrame, Datagram, Frame, FrameSink, HalfConnection, HalfConnectionConfig, PacketSink};

#[derive(Clone, Debug, Serialize, Deserialize)]
pub struct Forge {
    /// which datagram (selector) to derive the forged fragment from
    pub sel: u16,
    /// 0: last fragment id +1, 1: last fragment id -1 (or +2), 2: other channel, 3: window lead +1, 4: channel lead +1 (and window lead), 5: last = 0
    pub kind: u8,
    /// position (selector) in the arrival script after which the forged fragment arrives
    pub at: u16,
}

#[derive(Clone, Debug, Serialize, Deserialize)]
pub struct Reassembly {
    pub seed: u64,
    pub pkt_base: u32,
    pub frm_base: u32,
    pub packets: Vec<SendSpec>,
    /// arrival script: selectors over the list of genuine datagrams (repetitions allowed); every
    /// datagram not mentioned arrives afterwards, in order
    pub script: Vec<u16>,
    /// how many datagrams are packed into one data frame (1..)
    pub per_frame: u8,
    /// call receive() after every n-th frame (0 = only at the end)
    pub receive_every: u8,
    pub forges: Vec<Forge>,
    pub reverse_rest: bool,
}

#[derive(Clone, Debug, Serialize, Deserialize)]
pub enum Case {
    Reassembly(Reassembly),
    EndToEnd(PairScenario),
}

struct Sink(Vec<Box<[u8]>>);
impl FrameSink for Sink {
    fn send(&mut self, frame_data: &[u8]) {
        self.0.push(frame_data.into());
    }
}
struct PSink(Vec<Box<[u8]>>);
impl PacketSink for PSink {
    fn send(&mut self, packet_data: Box<[u8]>) {
        self.0.push(packet_data);
    }
}

pub struct C04;

fn boundary_size(max_frags: u32) -> BoxedStrategy<u32> {
    let f = FRAG as u32;
    prop_oneof![
        1 => Just(0u32),
        1 => Just(1u32),
        2 => 2u32..f,
        8 => (1u32..=max_frags, prop_oneof![Just(-1i32), Just(0), Just(1)]).prop_map(move |(k, d)| ((k * f) as i32 + d).max(0) as u32),
        3 => (f + 1)..=(max_frags * f),
    ]
    .boxed()
}

fn reassembly_strategy(tier: Tier) -> BoxedStrategy<Reassembly> {
    let max_frags = tier.pick(12u32, 150u32);
    let spec = (prop_oneof![3 => 0u8..3, 1 => 0u8..64], prop_oneof![1 => Just(1u8), 1 => Just(2u8), 3 => Just(3u8)], boundary_size(max_frags)).prop_map(|(ch, mode, size)| SendSpec { ch, mode, size });
    (
        any::<u64>(),
        prop_oneof![Just(0u32), (0u32..20).prop_map(|d| PKT_MASK - d), 0u32..=PKT_MASK],
        prop_oneof![Just(0u32), (0u32..20).prop_map(|d| u32::MAX - d), any::<u32>()],
        proptest::collection::vec(spec, 1..6),
        proptest::collection::vec(any::<u16>(), 0..tier.pick(60, 400)),
        1u8..4,
        0u8..4,
        proptest::collection::vec((any::<u16>(), 0u8..6, any::<u16>()).prop_map(|(sel, kind, at)| Forge { sel, kind, at }), 0..4),
        any::<bool>(),
    )
        .prop_map(|(seed, pkt_base, frm_base, packets, script, per_frame, receive_every, forges, reverse_rest)| Reassembly { seed, pkt_base, frm_base, packets, script, per_frame, receive_every, forges, reverse_rest })
        .boxed()
}

/// One packet near the largest size the library accepts (65536 fragments), alone or with small neighbours.
fn huge_reassembly_strategy() -> BoxedStrategy<Reassembly> {
    let f = FRAG as u32;
    let size = prop_oneof![
        2 => Just(65536 * f),
        1 => Just(65536 * f - 1),
        1 => Just(65535 * f + 1),
        1 => Just(65535 * f),
        2 => (20_000u32..=65536, prop_oneof![Just(-1i32), Just(0), Just(1)]).prop_map(move |(k, d)| (((k * f) as i64 + d as i64).min((65536 * f) as i64)) as u32),
    ];
    let small = (0u8..3, 1u8..4, boundary_size(2)).prop_map(|(ch, mode, size)| SendSpec { ch, mode, size });
    (
        any::<u64>(),
        prop_oneof![Just(0u32), (0u32..4).prop_map(|d| PKT_MASK - d), 0u32..=PKT_MASK],
        prop_oneof![Just(0u32), (0u32..70_000).prop_map(|d| u32::MAX - d), any::<u32>()],
        (0u8..3, prop_oneof![Just(1u8), Just(2u8), Just(3u8)], size).prop_map(|(ch, mode, size)| SendSpec { ch, mode, size }),
        proptest::collection::vec(small, 0..3),
        any::<bool>(),
        proptest::collection::vec(any::<u16>(), 0..200),
        0u8..4,
        proptest::collection::vec((any::<u16>(), 0u8..6, any::<u16>()).prop_map(|(sel, kind, at)| Forge { sel, kind, at }), 0..4),
        any::<bool>(),
    )
        .prop_map(|(seed, pkt_base, frm_base, big, mut small, big_first, script, receive_every, forges, reverse_rest)| {
            if big_first {
                small.insert(0, big);
            } else {
                small.push(big);
            }
            Reassembly { seed, pkt_base, frm_base, packets: small, script, per_frame: 1, receive_every, forges, reverse_rest }
        })
        .boxed()
}

fn run_reassembly(r: &Reassembly) -> CaseResult {
    let mut classes: Vec<&'static str> = Vec::new();
    let total: usize = r.packets.iter().map(|p| ((p.size as usize + FRAG - 1) / FRAG).max(1) * FRAG).sum::<usize>() + FRAG;
    let cfg = HalfConnectionConfig {
        tx_frame_base_id: r.frm_base,
        rx_frame_base_id: r.frm_base,
        tx_frame_window_size: 4096,
        rx_frame_window_size: 4096,
        tx_packet_base_id: r.pkt_base & PKT_MASK,
        rx_packet_base_id: r.pkt_base & PKT_MASK,
        tx_packet_window_size: 4096,
        rx_packet_window_size: 4096,
        tx_bandwidth_limit: u32::MAX,
        tx_alloc_limit: total,
        rx_alloc_limit: total,
        keepalive_interval_ms: None,
    };
    let mut rx = HalfConnection::new(cfg);

    // --- genuine fragmenter: an honest transfer over an ideal link, observed on the wire ---------
    let mut subs: Vec<Sub> = Vec::new();
    let mut sends: Vec<SendSpec> = Vec::new();
    // packets of 1..3 bytes cannot carry a unique identity; the skip rule below needs one, so they
    // are given 4 more bytes here (sizes 0..3 are covered by C01 / C05)
    let packets: Vec<SendSpec> = r.packets.iter().map(|p| SendSpec { ch: p.ch, mode: p.mode, size: if (1..4).contains(&p.size) { p.size + 4 } else { p.size } }).collect();
    let r = &Reassembly { packets, ..r.clone() };
    for (i, p) in r.packets.iter().enumerate() {
        let (ch, mode) = if p.size == 0 { (0u8, 3u8) } else { (p.ch % 64, p.mode % 4) };
        subs.push(Sub { seq: 0, idx: i as u32, tick: 0, epoch: 0, t_us: 0, ch, mode, size: p.size });
        sends.push(SendSpec { ch, mode, size: p.size });
    }
    let dir = DirCfg { pkt_win_log2: 12, frm_win_log2: 12, pkt_base: r.pkt_base & PKT_MASK, frm_base: r.frm_base, alloc_limit: total as u32, bw_limit: u32::MAX };
    let frag_sc = PairScenario {
        dirs: [dir.clone(), dir],
        keepalive_ms: None,
        seed: r.seed,
        zero_ch: 0,
        zero_mode: 3,
        links: [LinkCfg { latency_us: 1000, fates: vec![] }, LinkCfg { latency_us: 1000, fates: vec![] }],
        ticks: vec![Tick { dt_us: 10_000, acts: [EpAct { step: true, sends, flushes: 1 }, EpAct { step: true, sends: vec![], flushes: 0 }] }],
        tail: None,
        premature_acks: Vec::new(),
    };
    let mut fsim = SimPair::new(&frag_sc);
    fsim.run_tick(&frag_sc.ticks[0]);
    fsim.record_stats = false;
    let out = fsim.run_tail_progress(10_000, 600_000_000, 3_600_000_000);
    let ftrace = fsim.finish();
    if out != TailOutcome::Quiescent {
        return CaseResult::fail("oracle:c04:ideal_transfer_did_not_finish", format!("transfer of {:?} over an ideal link ended with {:?}", r.packets, out));
    }
    let mut datagrams: Vec<Datagram> = Vec::new();
    let mut seen = std::collections::HashSet::new();
    let want: usize = r.packets.iter().map(|p| ((p.size as usize + FRAG - 1) / FRAG).max(1)).sum();
    for w in ftrace.wire[0].iter() {
        if w.bytes.len() > MAX_FRAME {
            return CaseResult::fail("oracle:c04:frame_too_long", format!("sender emitted a frame of {} bytes", w.bytes.len()));
        }
        if let Some(Frame::DataFrame(df)) = Frame::read(&w.bytes) {
            for dg in df.datagrams {
                if seen.insert((dg.sequence_id, dg.fragment_id)) {
                    datagrams.push(dg);
                }
            }
        }
    }
    // Parent leads depend on what had been acknowledged when the sender emitted the packet. The
    // arrival orders below correspond to a sender that emitted everything before hearing any
    // acknowledgement, so the leads are normalised to the values of that history: distance to the
    // latest earlier Reliable packet (overall / on the same channel), 0 if there is none.
    {
        let base = r.pkt_base & PKT_MASK;
        for dg in datagrams.iter_mut() {
            let k = (dg.sequence_id.wrapping_sub(base) & PKT_MASK) as usize;
            if k >= subs.len() {
                return CaseResult::fail("oracle:c04:unexpected_packet_id", format!("sender used packet id {} for one of {} packets starting at {}", dg.sequence_id, subs.len(), base));
            }
            let w = (0..k).rev().find(|j| subs[*j].mode == 3).map(|j| (k - j) as u16).unwrap_or(0);
            let h = (0..k).rev().find(|j| subs[*j].mode == 3 && subs[*j].ch == subs[k].ch).map(|j| (k - j) as u16).unwrap_or(0);
            // the genuine header is either the normalised value or 0 (parent already acknowledged)
            if (dg.window_parent_lead != w && dg.window_parent_lead != 0) || (dg.channel_parent_lead != h && dg.channel_parent_lead != 0) {
                return CaseResult::fail("oracle:c04:parent_lead", format!("packet {} was emitted with parent leads ({}, {}), expected ({w}, {h}) or 0", k, dg.window_parent_lead, dg.channel_parent_lead));
            }
            dg.window_parent_lead = w;
            dg.channel_parent_lead = h;
        }
    }
    if datagrams.len() != want {
        return CaseResult::fail("oracle:c04:fragment_count", format!("sender emitted {} distinct fragments for {:?}, expected {}", datagrams.len(), r.packets, want));
    }
    // the honest transfer itself must have delivered everything byte-exact
    {
        let d: Vec<Box<[u8]>> = ftrace.delivs[1].iter().map(|d| d.data.clone()).collect();
        match match_deliveries(r.seed, 0, &subs, &d, 0, true) {
            Ok(m) => {
                if let Some(sub) = subs.iter().find(|s| m.sub_delivered[s.idx as usize].is_none()) {
                    return CaseResult::fail("oracle:c04:ideal_transfer_lost_packet", format!("packet {} ({} bytes) not delivered over an ideal link", sub.idx, sub.size));
                }
            }
            Err(mut v) => {
                v.key = v.key.replace("oracle:c01:", "oracle:c04:ideal:");
                return CaseResult { violation: Some(v), nontrivial: true, classes };
            }
        }
    }

    // --- arrival order ----------------------------------------------------------------------------
    let n = datagrams.len();
    let mut order: Vec<usize> = r.script.iter().map(|s| pick_index(*s, n)).collect();
    let mut mentioned = vec![false; n];
    for &i in &order {
        mentioned[i] = true;
    }
    let mut rest: Vec<usize> = (0..n).filter(|i| !mentioned[*i]).collect();
    if r.reverse_rest {
        rest.reverse();
    }
    let script_len = order.len();
    order.extend(rest);
    // forged fragments: only after a genuine fragment of the same packet has arrived
    let mut arrivals: Vec<(Datagram, bool)> = Vec::new();
    let mut forged_count = 0;
    let mut first_seen = std::collections::HashSet::new();
    let forge_at: Vec<(usize, &Forge)> = r.forges.iter().map(|f| (pick_index(f.at, order.len() + 1), f)).collect();
    for (pos, &i) in order.iter().enumerate() {
        arrivals.push((datagrams[i].clone(), false));
        first_seen.insert(datagrams[i].sequence_id);
        for (at, f) in forge_at.iter() {
            if *at == pos {
                let src = &datagrams[pick_index(f.sel, n)];
                if !first_seen.contains(&src.sequence_id) {
                    continue;
                }
                // Only multi-fragment packets are in assembly long enough for "the first fragment seen" to
                // mean anything; a single-fragment datagram that the receiver skipped leaves no trace, and a
                // forged single-fragment datagram with the same id is then simply a packet of its own.
                if src.fragment_id_last == 0 {
                    continue;
                }
                let mut d = src.clone();
                match f.kind {
                    0 => d.fragment_id_last = d.fragment_id_last.wrapping_add(1),
                    1 => d.fragment_id_last = if d.fragment_id_last > 0 && d.fragment_id < d.fragment_id_last { d.fragment_id_last - 1 } else { d.fragment_id_last.wrapping_add(2) },
                    2 => d.channel_id = (d.channel_id + 1) % 64,
                    3 => d.window_parent_lead = d.window_parent_lead.wrapping_add(1),
                    4 => {
                        d.channel_parent_lead = d.channel_parent_lead.wrapping_add(1);
                        d.window_parent_lead = d.window_parent_lead.max(d.channel_parent_lead);
                    }
                    _ => {
                        d.fragment_id_last = if d.fragment_id_last == 0 { 3 } else { d.fragment_id };
                    }
                }
                // keep the forged datagram multi-fragment, so that it can never complete on its own
                if d.fragment_id_last == 0 {
                    d.fragment_id_last = src.fragment_id_last.wrapping_add(2).max(1);
                }
                if d.fragment_id > d.fragment_id_last {
                    d.fragment_id = d.fragment_id_last;
                }
                if (d.fragment_id_last, d.channel_id, d.window_parent_lead, d.channel_parent_lead) == (src.fragment_id_last, src.channel_id, src.window_parent_lead, src.channel_parent_lead) {
                    // not a header disagreement after all
                    continue;
                }
                if d.fragment_id < d.fragment_id_last && d.data.len() != FRAG {
                    d.data = vec![0x5a; FRAG].into_boxed_slice();
                } else {
                    // forged content differs from the genuine one
                    d.data = d.data.iter().map(|b| b ^ 0xff).collect();
                }
                arrivals.push((d, true));
                forged_count += 1;
            }
        }
    }

    // --- feed the receiver ----------------------------------------------------------------------
    let _ = &mut rx;
    let mut frame_id = r.frm_base;
    let mut delivered: Vec<Box<[u8]>> = Vec::new();
    let per_frame = r.per_frame.max(1) as usize;
    let mut frames_fed = 0usize;
    let mut i = 0;
    while i < arrivals.len() {
        let mut dgs: Vec<Datagram> = Vec::new();
        let mut size = 0usize;
        while i < arrivals.len() && dgs.len() < per_frame && size + arrivals[i].0.data.len() + 14 <= 1462 {
            size += arrivals[i].0.data.len() + 14;
            dgs.push(arrivals[i].0.clone());
            i += 1;
        }
        if dgs.is_empty() {
            dgs.push(arrivals[i].0.clone());
            i += 1;
        }
        if std::env::var_os("VERIF_DEBUG").is_some() {
            for d in dgs.iter() {
                eprintln!("feed frame {} dg seq={} ch={} w={} h={} frag={}/{} len={}", frame_id, d.sequence_id, d.channel_id, d.window_parent_lead, d.channel_parent_lead, d.fragment_id, d.fragment_id_last, d.data.len());
            }
        }
        let bytes = Frame::DataFrame(DataFrame { sequence_id: frame_id, nonce: false, datagrams: dgs }).write();
        frame_id = frame_id.wrapping_add(1);
        match Frame::read(&bytes) {
            Some(Frame::DataFrame(df)) => rx.handle_data_frame(df),
            _ => return CaseResult::fail("oracle:c04:harness_frame_rejected", "a re-packed genuine data frame did not parse"),
        }
        frames_fed += 1;
        if r.receive_every > 0 && frames_fed % r.receive_every as usize == 0 {
            let mut ps = PSink(Vec::new());
            rx.receive(&mut ps);
            delivered.extend(ps.0);
        }
    }
    let mut ps = PSink(Vec::new());
    rx.receive(&mut ps);
    delivered.extend(ps.0);

    // --- oracle -------------------------------------------------------------------------------------
    let m = match match_deliveries(r.seed, 0, &subs, &delivered, 0, false) {
        Ok(m) => m,
        Err(mut v) => {
            v.key = v.key.replace("oracle:c01:", "oracle:c04:");
            v.msg = format!("{} (forged header fragments injected: {})", v.msg, forged_count);
            return CaseResult { violation: Some(v), nontrivial: true, classes };
        }
    };
    if let Err(mut v) = check_reliable_not_skipped(&subs, &m) {
        v.key = v.key.replace("oracle:c02:", "oracle:c04:");
        return CaseResult { violation: Some(v), nontrivial: true, classes };
    }
    for sub in subs.iter() {
        if m.sub_delivered[sub.idx as usize].is_none() {
            // a non-Reliable packet may be skipped once a later packet has been delivered (the receive
            // window moves past incomplete packets that no Reliable packet depends on)
            let skipped_legitimately = sub.mode != 3 && subs.iter().any(|q| q.idx > sub.idx && m.sub_delivered[q.idx as usize].is_some());
            if !skipped_legitimately {
                return CaseResult::fail(
                    format!("oracle:c04:complete_packet_not_delivered:mode{}", sub.mode),
                    format!("packet {} (channel {}, mode {}, {} bytes, {} fragments): every fragment arrived at least once but the packet was never delivered and no later packet was delivered (forged fragments injected: {})", sub.idx, sub.ch, sub.mode, sub.size, ((sub.size as usize + FRAG - 1) / FRAG).max(1), forged_count),
                );
            }
            classes.push("legitimately_skipped");
        }
    }
    if r.packets.iter().any(|p| p.size as usize > 20_000 * FRAG) {
        classes.push("huge_packet_20000_to_65536_fragments");
    }
    if r.packets.iter().any(|p| p.size as usize == 65536 * FRAG) {
        classes.push("maximum_size_packet");
    }
    let multi = r.packets.iter().any(|p| p.size as usize > FRAG);
    let shuffled = script_len > 0 || r.reverse_rest;
    if multi {
        classes.push("multi_fragment");
    }
    if forged_count > 0 {
        classes.push("forged_header_fragment");
    }
    for p in r.packets.iter() {
        let rem = p.size as usize % FRAG;
        if p.size as usize >= FRAG {
            classes.push(if rem == 0 { "size_multiple_of_fragment" } else if rem == 1 { "size_multiple_plus_1" } else if rem == FRAG - 1 { "size_multiple_minus_1" } else { "size_other" });
        }
    }
    if order.len() > n {
        classes.push("repeated_fragments");
    }
    CaseResult::ok(multi && shuffled, classes)
}

fn run_end_to_end(sc: &PairScenario) -> CaseResult {
    let mut sc = sc.clone();
    sc.normalize();
    let mut sim = SimPair::new(&sc);
    for t in sc.ticks.iter() {
        sim.run_tick(t);
    }
    sim.record_stats = false;
    let step_us = sc.tail.as_ref().map(|t| t.step_us as u64).unwrap_or(10_000);
    let outcome = sim.run_tail_progress(step_us, STALL_US, CAP_US);
    let talker = sim.chatter.clone();
    let talking_stall = sim.chatter_stall_max_credit;
    let chatted = sim.chatter_packets;
    let trace = sim.finish();
    let mut classes: Vec<&'static str> = vec!["end_to_end"];
    if chatted > 0 {
        classes.push("tail_with_talking_peer");
    }
    if trace.max_frame_len > MAX_FRAME {
        return CaseResult::fail("oracle:c04:frame_too_long", format!("an endpoint emitted a frame of {} bytes", trace.max_frame_len));
    }
    let mut cut = false;
    for s in 0..2 {
        let m = match match_direction(&sc, &trace, s) {
            Ok(m) => m,
            Err(mut v) => {
                v.key = v.key.replace("oracle:c01:", "oracle:c04:e2e:");
                return CaseResult { violation: Some(v), nontrivial: true, classes };
            }
        };
        if outcome == TailOutcome::Quiescent {
            for sub in trace.subs[s].iter() {
                if sub.mode == 3 && m.sub_delivered[sub.idx as usize].is_none() {
                    return CaseResult::fail("oracle:c04:e2e:reliable_lost", format!("Reliable submission {} ({} bytes) never delivered", sub.idx, sub.size));
                }
            }
        }
        if let TailOutcome::Stalled { since_us } = outcome {
            // "arrives": on a fair network with both sides stepping a Reliable packet cannot stay away for 15 virtual
            // minutes without anything moving. While the peer application keeps talking only the silent direction
            // is judged, and only if it had send credit to spare (the low-credit shape is C02's finding D26, not a
            // question of fragmentation).
            let judged = match (talking_stall, talker.as_ref()) {
                (Some(max_credit), Some(t)) => s != t.e as usize && max_credit >= 64,
                _ => true,
            };
            if !judged {
                classes.push("stall_not_judged_talking_peer_low_credit");
            }
            if let (true, Some(sub)) = (judged, trace.subs[s].iter().find(|sub| sub.mode == 3 && m.sub_delivered[sub.idx as usize].is_none())) {
                return CaseResult::fail(
                    if talking_stall.is_some() { "oracle:c04:e2e:reliable_never_arrives:talking_peer" } else { "oracle:c04:e2e:reliable_never_arrives" },
                    format!("direction {}->{}: fair network since t={} us{}; nothing has moved since t={since_us} us (now {} us) and Reliable submission {} ({} bytes, {} fragments) has not arrived", s, 1 - s, trace.tail_start_us.unwrap_or(0), talker.as_ref().filter(|_| talking_stall.is_some()).map_or(String::new(), |t| format!(", endpoint {} keeps submitting one {}-byte packet every {} us", t.e, t.size, t.gap_us)), trace.end_us, sub.idx, sub.size, (sub.size as usize + FRAG - 1) / FRAG.max(1)),
                );
            }
        }
        // a packet cut across flushes: its fragments appear in frames emitted at different times
        let mut first_time: std::collections::HashMap<u32, u64> = std::collections::HashMap::new();
        for w in trace.wire[s].iter() {
            if let Some(Frame::DataFrame(df)) = Frame::read(&w.bytes) {
                for dg in df.datagrams.iter() {
                    if dg.fragment_id_last > 0 {
                        let t = *first_time.entry(dg.sequence_id).or_insert(w.t_us);
                        if t != w.t_us {
                            cut = true;
                        }
                    }
                }
            }
        }
    }
    if cut {
        classes.push("packet_cut_across_flushes");
    }
    CaseResult::ok(cut, classes)
}

impl Check for C04 {
    type Case = Case;

    fn id(&self) -> &'static str {
        "C04"
    }

    fn strategy(&self, tier: Tier) -> BoxedStrategy<Case> {
        let p = GenParams { max_ticks: tier.pick(100, 300), max_sends: 3, max_frags: tier.pick(8, 40), low_bandwidth: true, tail: true, chatter: true, modes: [1, 2, 2, 4], ..GenParams::default() };
        // a few cases per run carry one packet of up to the maximum size (65536 fragments, ~95 MB; seconds and
        // ~0.6 GB each, hence the low weight)
        prop_oneof![
            tier.pick(6000, 3000) => reassembly_strategy(tier).prop_map(Case::Reassembly),
            tier.pick(2000, 1000) => scenario_strategy(&p).prop_map(Case::EndToEnd),
            tier.pick(5, 2) => huge_reassembly_strategy().prop_map(Case::Reassembly)
        ]
        .boxed()
    }

    fn cases(&self, tier: Tier) -> u64 {
        tier.pick(24_000, 600_000)
    }

    fn max_shrink_iters(&self) -> u32 {
        1500
    }

    fn case_timeout_s(&self) -> u64 {
        120
    }

    fn rule(&self) -> String {
        "two case kinds. Reassembly: 1-5 packets with boundary-biased sizes (0, 1, k*1448+{-1,0,+1}, uniform; a few cases per run with one packet of 20000..65536 fragments incl. exactly the maximum 65536*1448 bytes and its neighbours) are fragmented by a genuine sender HalfConnection; its datagrams are re-packed unmodified into data frames with fresh increasing frame ids in a generated order (permutation, repetition, interleaving across packets, repeats after completion, the rest in order or reversed) and handed to a receiver, with receive() called at generated points; fragments with the same packet id but a disagreeing header (last-fragment id, channel, window / channel parent lead) and different content are injected after the first genuine fragment of that packet. EndToEnd: SimPair with faults and bandwidth ceilings low enough to cut packets across flushes, followed by a fair phase during which, in about 4 of 10 scenarios, one application keeps submitting small packets until the other direction is done. Oracle: in the fair phase a Reliable packet does not stay away for 15 virtual minutes in which nothing moves (under a talking peer only the silent direction is judged and only if it had at least 64 bytes of send credit; the low-credit shape is finding D26 of C02); no emitted frame exceeds 1472 bytes; every delivery byte-identical to its submission; a packet whose every fragment arrived is delivered unless legitimately skipped (non-Reliable and some later packet was delivered, which lets the receive window move past it); forged fragments change nothing. Non-trivial = a multi-fragment packet whose fragments arrived out of order / repeated / interleaved (Reassembly), or a packet cut across flushes (EndToEnd).".into()
    }

    fn assumptions(&self) -> Vec<String> {
        vec![
            "re-packing genuine datagrams into fresh frames is indistinguishable, for the receiver, from loss-and-resend by a genuine sender".into(),
            "forged fragments vary header fields only after a genuine fragment of that packet has been accepted (the statement is about disagreement with the first fragment seen)".into(),
        ]
    }

    fn sample(&self, case: &Case) -> serde_json::Value {
        truncate_value(serde_json::to_value(case).unwrap(), 1)
    }

    fn run(&self, case: &Case) -> CaseResult {
        match case {
            Case::Reassembly(r) => run_reassembly(r),
            Case::EndToEnd(sc) => run_end_to_end(sc),
        }
    }
}
