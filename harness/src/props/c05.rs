//! C05 — ideal network: every packet delivered, global order preserved.

use crate::engine::*;
use crate::props::c02::{CAP_US, STALL_US};
use crate::sim::gen::*;
use crate::sim::ledger::*;
use crate::sim::pair::*;
use proptest::prelude::*;

pub struct C05;

impl Check for C05 {
    type Case = PairScenario;

    fn id(&self) -> &'static str {
        "C05"
    }

    fn strategy(&self, tier: Tier) -> BoxedStrategy<PairScenario> {
        let p = GenParams {
            max_ticks: tier.pick(120, 400),
            max_sends: tier.pick(8, 16),
            max_frags: tier.pick(4, 10),
            faults: false,
            reorder: false,
            tail: true,
            modes: [2, 3, 2, 3],
            max_latency_us: 1_000_000,
            ..GenParams::default()
        };
        prop_oneof![5 => scenario_strategy(&p), 1 => bulk_scenario_strategy(tier.pick(150, 300), tier.pick(40, 120), false, true)].boxed()
    }

    fn cases(&self, tier: Tier) -> u64 {
        tier.pick(20_000, 600_000)
    }

    fn max_shrink_iters(&self) -> u32 {
        800
    }

    fn case_timeout_s(&self) -> u64 {
        120
    }

    fn rule(&self) -> String {
        "case = SimPair scenario with FIFO loss-free links (constant latency 0..1 s per direction), traffic in both directions, all four modes, bursts exceeding the flush budget, the packet / frame windows (2^k) and the receive allocation, arbitrary cadence, base ids anywhere, plus a bulk shape (4096 windows, streams of hundreds of tiny packets per tick with rare Reliable ones); followed by a fair phase to quiescence. Oracle: the delivered sequence at each end equals the opposite end's submission sequence with some TimeSensitive packets removed (same global order across channels, nothing else missing, nothing twice). Non-trivial = some tick submitted more than one packet or a multi-fragment packet, and at least 5 packets were delivered. Distinct = distinct serialised scenario.".into()
    }

    fn assumptions(&self) -> Vec<String> {
        vec!["quiescence is awaited with the progress-based bound of C02 (stall window 15 virtual minutes, cap 6 h)".into(), "payload identity convention of C01".into()]
    }

    fn run(&self, sc: &PairScenario) -> CaseResult {
        let mut sc = sc.clone();
        sc.normalize();
        for l in sc.links.iter_mut() {
            l.fates.clear();
        }
        let mut sim = SimPair::new(&sc);
        for t in sc.ticks.iter() {
            sim.run_tick(t);
        }
        sim.record_stats = false;
        let step_us = sc.tail.as_ref().map(|t| t.step_us as u64).unwrap_or(10_000);
        let outcome = sim.run_tail_progress(step_us, STALL_US, CAP_US);
        let trace = sim.finish();
        let mut classes: Vec<&'static str> = Vec::new();
        let mut burst = false;
        let mut delivered = 0usize;
        for s in 0..2 {
            let m = match match_direction_opt(&sc, &trace, s, true) {
                Ok(m) => m,
                Err(v) => return CaseResult { violation: Some(v), nontrivial: true, classes },
            };
            // global order: matched indices strictly increasing
            for w in m.deliv_to_sub.windows(2) {
                if w[1] <= w[0] {
                    let a = &trace.subs[s][w[0] as usize];
                    let b = &trace.subs[s][w[1] as usize];
                    return CaseResult::fail(
                        "oracle:c05:global_order",
                        format!("direction {}->{}: submission {} (channel {}) was delivered after submission {} (channel {}) on a network that neither loses nor reorders", s, 1 - s, b.idx, b.ch, a.idx, a.ch),
                    );
                }
            }
            delivered += m.deliv_to_sub.len();
            if outcome == TailOutcome::Quiescent {
                for sub in trace.subs[s].iter() {
                    if sub.mode != 0 && m.sub_delivered[sub.idx as usize].is_none() {
                        return CaseResult::fail(
                            format!("oracle:c05:not_delivered:mode{}", sub.mode),
                            format!("direction {}->{}: submission {} (channel {}, mode {}, {} bytes) was never delivered although no frame was lost and the sender has nothing pending", s, 1 - s, sub.idx, sub.ch, sub.mode, sub.size),
                        );
                    }
                }
            }
            if let TailOutcome::Stalled { since_us } = outcome {
                return CaseResult::fail("oracle:c05:stalled", format!("loss-free network, yet no progress since t={since_us} us (now {} us) with data outstanding", trace.end_us));
            }
            for t in sc.ticks.iter() {
                if t.acts[s].sends.len() > 1 || t.acts[s].sends.iter().any(|x| x.size as usize > FRAG) {
                    burst = true;
                }
            }
        }
        match outcome {
            TailOutcome::Quiescent => classes.push("quiescent"),
            TailOutcome::Cap => classes.push("slow_cap"),
            _ => {}
        }
        if trace.subs[0].iter().chain(trace.subs[1].iter()).any(|s| s.mode == 0) {
            classes.push("has_time_sensitive");
        }
        if trace.stats[0].iter().chain(trace.stats[1].iter()).any(|s| s.v.flush_alloc < 0 && s.v.pending_queue_len > 0) {
            classes.push("credit_limited_with_pending");
        }
        if trace.stats[0].iter().chain(trace.stats[1].iter()).any(|s| s.v.send_queue_len > 0 && s.v.pending_queue_len == 0 && s.v.flush_alloc >= 0) {
            classes.push("window_or_alloc_limited");
        }
        crate::props::c01::wrap_classes(&sc, &trace, &mut classes);
        CaseResult::ok(burst && delivered >= 5, classes)
    }
}
