//! C05 — ideal network: every packet delivered, global order preserved.

use crate::engine::*;
use crate::props::c02::{CAP_US, STALL_US};
use crate::sim::gen::*;
use crate::sim::ledger::*;
use crate::sim::pair::*;
use proptest::prelude::*;

pub struct C05;

#[derive(Clone, Debug, serde::Serialize, serde::Deserialize)]
#[serde(untagged)]
pub enum Case {
    Pair(PairScenario),
    Endpoints { endpoints: EpIdeal },
}

/// A real Server and a real Client on an ideal network: phases of streaming in one or both directions that last
/// longer than the active timeouts, keepalive on or off per side. At least one application submits a packet at least
/// every third of the shorter active timeout (the documented condition for running without keepalive), so the
/// connection must stay up and every packet must arrive.
#[derive(Clone, Debug, serde::Serialize, serde::Deserialize)]
pub struct EpIdeal {
    pub seed: u64,
    /// (keepalive, keepalive_interval_ms, active_timeout_ms) of the server and of the client
    pub server: (bool, u32, u32),
    pub client: (bool, u32, u32),
    pub latency_us: [u32; 2],
    pub step_us: u32,
    pub phases: Vec<Phase>,
}

#[derive(Clone, Debug, serde::Serialize, serde::Deserialize)]
pub struct Phase {
    pub dur_ms: u32,
    /// the application that keeps talking in this phase (true = the client) and its interval as a fraction
    /// (1..=255)/255 of the permitted maximum
    pub lead_client: bool,
    pub lead_every: u8,
    /// the other application: submits every `other_every_ms` if Some
    pub other_every_ms: Option<u32>,
    pub ch: u8,
    pub mode: u8,
    pub size: u32,
    /// at the start of the phase one application (true = the client's) does not call step() for 1.0 .. 1.5 times its
    /// OWN active timeout (applied only where that is at most 0.8 times the other side's timeout); the frames
    /// of the other side wait in its socket meanwhile
    #[serde(default)]
    pub stall: Option<(bool, u8)>,
}

fn ep_ideal_strategy(tier: Tier) -> BoxedStrategy<EpIdeal> {
    let side = || (prop_oneof![Just(true), Just(false)], prop_oneof![Just(1000u32), Just(5000u32), Just(30_000u32)], prop_oneof![2 => Just(10_000u32), 4 => Just(20_000u32), 1 => Just(60_000u32)]);
    let phase = (
        prop_oneof![3 => 500u32..5_000, 3 => 5_000u32..30_000, 1 => 30_000u32..70_000],
        any::<bool>(),
        prop_oneof![1 => Just(255u8), 2 => 1u8..=255, 1 => 1u8..20],
        proptest::option::weighted(0.3, prop_oneof![20u32..500, 500u32..10_000]),
        prop_oneof![3 => 0u8..3, 1 => 0u8..64],
        prop_oneof![1 => Just(0u8), 2 => Just(1u8), 2 => Just(2u8), 3 => Just(3u8)],
        prop_oneof![6 => 5u32..200, 2 => 200u32..3000, 1 => 3000u32..12_000],
        proptest::option::weighted(0.3, (any::<bool>(), any::<u8>())),
    )
        .prop_map(|(dur_ms, lead_client, lead_every, other_every_ms, ch, mode, size, stall)| Phase { dur_ms, lead_client, lead_every, other_every_ms, ch, mode, size, stall });
    (any::<u64>(), side(), side(), (prop_oneof![Just(0u32), 0u32..100_000], prop_oneof![Just(0u32), 0u32..100_000]), prop_oneof![Just(5_000u32), Just(16_000u32), Just(30_000u32)], proptest::collection::vec(phase, 1..tier.pick(4, 6)))
        .prop_map(|(seed, server, client, (l0, l1), step_us, phases)| EpIdeal { seed, server, client, latency_us: [l0, l1], step_us, phases })
        .boxed()
}

/// What the two endpoints' counters showed, step by step (used to tell recorded finding D28 from anything else).
#[derive(Default)]
struct Watch {
    /// longest time an endpoint owed acknowledgements while its send credit was negative, us (0 client, 1 server)
    ack_starved_us: [u64; 2],
    starved_since: [Option<u64>; 2],
    /// longest time an endpoint's send credit stayed negative without interruption, us
    credit_negative_us: [u64; 2],
    negative_since: [Option<u64>; 2],
    had_rto: [bool; 2],
    /// the allowed rate was at the s/64 floor at the step the rate controller handled its first feedback or expiry
    floor_at_first_feedback: [bool; 2],
}

impl Watch {
    fn sample(&mut self, side: usize, now_us: u64, st: Option<uflow::verif::VerifStats>) {
        let Some(st) = st else {
            self.starved_since[side] = None;
            self.negative_since[side] = None;
            return;
        };
        if st.flush_alloc < 0 {
            let since = *self.negative_since[side].get_or_insert(now_us);
            self.credit_negative_us[side] = self.credit_negative_us[side].max(now_us - since);
        } else {
            self.negative_since[side] = None;
        }
        if st.ack_queue_len > 0 && st.flush_alloc < 0 {
            let since = *self.starved_since[side].get_or_insert(now_us);
            self.ack_starved_us[side] = self.ack_starved_us[side].max(now_us - since);
        } else {
            self.starved_since[side] = None;
        }
        if st.rto_ms.is_some() && !self.had_rto[side] {
            self.had_rto[side] = true;
            if st.send_rate <= 23.0 {
                self.floor_at_first_feedback[side] = true;
            }
        }
    }
}

/// The connection broke (or stopped moving) on an ideal network.
/// * A Timeout reported although a data / sync / ack frame of the peer had reached the reporting endpoint's socket
///   within its active timeout is never explained by anything a slow peer does: reported as it is.
/// * Otherwise it is recorded finding D28 if an endpoint sat on owed acknowledgements for a second or more, or
///   could not send anything for two seconds or more, because its send credit was negative.
/// * Anything else is reported as it is.
fn broken(w: &crate::sim::world::World, reporter: Option<(std::net::SocketAddr, u64, u64)>, watch: &Watch, suffix: &str, what: String, mut classes: Vec<&'static str>) -> CaseResult {
    let starved = watch.ack_starved_us[0].max(watch.ack_starved_us[1]);
    let negative = watch.credit_negative_us[0].max(watch.credit_negative_us[1]);
    let floor_first = watch.floor_at_first_feedback[0] || watch.floor_at_first_feedback[1];
    let known = "oracle:c05:endpoints:connection_lost:acks_starved_of_send_credit";
    let detail = format!(
        "{what}; longest time an endpoint owed acknowledgements with negative send credit: client {} us, server {} us; longest time with negative send credit: client {} us, server {} us; allowed rate at the floor right after the first feedback: {floor_first}",
        watch.ack_starved_us[0], watch.ack_starved_us[1], watch.credit_negative_us[0], watch.credit_negative_us[1]
    );
    if let Some((addr, t_us, timeout_us)) = reporter {
        if let Some(d) = w.delivered.iter().rev().find(|d| d.to == addr && d.t_us <= t_us && d.t_us + timeout_us > t_us + 2000 && matches!(d.bytes.first(), Some(&10) | Some(&11) | Some(&12))) {
            return CaseResult::fail(
                format!("oracle:c05:endpoints:connection_lost:timeout_without_silence{suffix}"),
                format!("{what}; a frame of type {} from its peer had reached its socket at t={} us, only {} us before (active timeout {} us)", d.bytes[0], d.t_us, t_us - d.t_us, timeout_us),
            );
        }
    }
    if (starved >= 1_000_000 || negative >= 2_000_000) && !floor_first {
        if tolerate_known(known) {
            classes.push("known_d28_acks_starved_of_send_credit");
            return CaseResult::ok(true, classes);
        }
        return CaseResult::fail(known, detail);
    }
    CaseResult::fail(format!("oracle:c05:endpoints:connection_lost{suffix}"), detail)
}

fn run_endpoints(c: &EpIdeal) -> CaseResult {
    use crate::sim::world::*;
    let mut classes: Vec<&'static str> = vec!["endpoints"];
    let scfg = ServerCfg { ep: EpCfg { keepalive: c.server.0, keepalive_interval_ms: c.server.1.max(1), active_timeout_ms: c.server.2.max(1000), ..EpCfg::default() }, ..ServerCfg::default() };
    let ccfg = EpCfg { keepalive: c.client.0, keepalive_interval_ms: c.client.1.max(1), active_timeout_ms: c.client.2.max(1000), ..EpCfg::default() };
    let mut w = World::new(c.seed, &scfg);
    let ci = w.add_client(&ccfg, LinkState { latency_us: c.latency_us, ..LinkState::default() });
    let caddr = w.clients[ci].addr;
    let step = c.step_us.clamp(1_000, 50_000) as u64;
    let mut watch = Watch::default();
    // (stalled[0]: the client application is not stepping, stalled[1]: the server application)
    let mut stalled = [false, false];
    macro_rules! step_both {
        () => {
            w.advance(step);
            if !stalled[1] {
                w.step_server();
            }
            if !stalled[0] {
                w.step_client(ci);
            }
            watch.sample(0, w.now_us, w.clients[ci].client.as_ref().and_then(|cl| cl.verif_stats()));
            watch.sample(1, w.now_us, w.server.as_ref().and_then(|s| s.client(&caddr)).and_then(|rc| rc.borrow().verif_stats()));
        };
    }
    for _ in 0..60 {
        step_both!();
    }
    if !(w.clients[ci].events.iter().any(|e| matches!(e.2, CEv::Connect)) && w.server_client_active(&caddr)) {
        return CaseResult::fail("oracle:c05:endpoints:not_connected", format!("ideal network: client and server did not connect within {} us", 60 * step));
    }
    // the longest silence either application may keep: a third of the shorter active timeout
    let limit_ms = (scfg.ep.active_timeout_ms.min(ccfg.active_timeout_ms) / 3) as u64;
    // submissions per direction (0 = client -> server): (idx, mode, ch, size)
    let mut sent: [Vec<(u32, u8, u8, usize)>; 2] = [Vec::new(), Vec::new()];
    let mut longest_one_way_ms = 0u64;
    for ph in c.phases.iter() {
        let lead_ms = ((limit_ms * ph.lead_every.max(1) as u64) / 255).max(1);
        let lead = if ph.lead_client { 0 } else { 1 };
        let mut next = [0u64; 2];
        let mut t_end = w.now_us + ph.dur_ms as u64 * 1000;
        let mut stall_until = 0u64;
        let mut stall_side = 0usize;
        if let Some((client, f)) = ph.stall {
            stall_side = if client { 0 } else { 1 };
            let own = if client { ccfg.active_timeout_ms } else { scfg.ep.active_timeout_ms } as u64;
            let other = if client { scfg.ep.active_timeout_ms } else { ccfg.active_timeout_ms } as u64;
            let stall_ms = own + own * f as u64 / 510;
            // the side that keeps stepping must be the one that keeps talking, or it would hear nothing it could not
            // also hear from a dead peer; and it must not run into its own timeout
            if stall_ms * 10 <= other * 8 && (stall_side == 0) != ph.lead_client {
                stall_until = w.now_us + stall_ms * 1000;
                t_end = t_end.max(stall_until + 500_000);
                classes.push("endpoints_application_stalled_longer_than_its_own_timeout");
            }
        }
        if ph.other_every_ms.is_none() {
            longest_one_way_ms = longest_one_way_ms.max(ph.dur_ms as u64);
        }
        while w.now_us < t_end {
            stalled = [false, false];
            if w.now_us < stall_until {
                stalled[stall_side] = true;
            }
            for d in 0..2 {
                let every_ms = if d == lead { Some(lead_ms) } else { ph.other_every_ms.map(|v| v as u64) };
                let Some(every_ms) = every_ms else { continue };
                if stalled[d] {
                    continue;
                }
                if w.now_us >= next[d] {
                    next[d] = w.now_us + every_ms * 1000;
                    let idx = sent[d].len() as u32;
                    let data = world_payload(c.seed, d as u8, idx, ph.size as usize);
                    let size = data.len();
                    let ok = if d == 0 {
                        w.client_send(ci, data, ph.ch, ph.mode);
                        true
                    } else {
                        w.server_send(ci, data, ph.ch, ph.mode)
                    };
                    if !ok {
                        if std::env::var("VERIF_DEBUG").is_ok() {
                            for r in w.wire.iter() {
                                eprintln!("t={} {}->{} type={} len={} fate={:?}", r.t_us, r.from.port(), r.to.port(), r.bytes[0], r.bytes.len(), r.fate);
                            }
                        }
                        let rep = w.server_events.iter().find(|e| matches!(e.2, SEv::Error(_, SErr::Timeout))).map(|e| (w.server_addr, e.1, scfg.ep.active_timeout_ms as u64 * 1000));
                        return broken(&w, rep, &watch, "", format!("ideal network, an application submitting at least every {lead_ms} ms (active timeouts {} / {} ms): at t={} us the server no longer has the client (server events: {:?})", scfg.ep.active_timeout_ms, ccfg.active_timeout_ms, w.now_us, w.server_events.iter().filter(|e| !matches!(e.2, SEv::Receive(..))).collect::<Vec<_>>()), classes);
                    }
                    sent[d].push((idx, ph.mode % 4, ph.ch % 64, size));
                }
            }
            step_both!();
            if std::env::var("VERIF_DEBUG").is_ok() && (w.now_us / step) % 20 == 0 {
                eprintln!("S t={} client {:?} server {:?}", w.now_us, w.clients[ci].client.as_ref().and_then(|cl| cl.verif_stats()), w.server.as_ref().and_then(|s| s.client(&caddr)).and_then(|rc| rc.borrow().verif_stats()));
            }
        }
    }
    stalled = [false, false];
    // drain: both keep stepping until neither side has anything queued or in flight (ends at once then: with both
    // keepalives off a silent connection may time out legitimately)
    let drained = |w: &World| -> bool {
        let cs = w.clients[ci].client.as_ref().and_then(|cl| cl.verif_stats());
        let ss = w.server.as_ref().and_then(|s| s.client(&caddr)).and_then(|rc| rc.borrow().verif_stats());
        let idle = |st: &Option<uflow::verif::VerifStats>| st.as_ref().map_or(true, |st| st.send_queue_len == 0 && st.pending_queue_len == 0 && st.resend_queue_len == 0);
        idle(&cs) && idle(&ss) && w.in_flight_count() == 0
    };
    let drain_start = w.now_us;
    let mut last_count = (0usize, 0usize);
    let mut last_progress = w.now_us;
    let mut stalled = false;
    loop {
        if drained(&w) {
            break;
        }
        step_both!();
        let count = (w.server_events.len(), w.clients[ci].events.len());
        if count != last_count {
            last_count = count;
            last_progress = w.now_us;
        } else if w.now_us - last_progress > 120_000_000 {
            stalled = true;
            break;
        }
        if w.now_us - drain_start > 1_800_000_000 {
            classes.push("endpoints_drain_cap");
            return CaseResult::ok(false, classes);
        }
    }
    if std::env::var("VERIF_DEBUG").is_ok() {
        for r in w.wire.iter() {
            eprintln!("t={} {}->{} type={} len={} fate={:?} {}", r.t_us, r.from.port(), r.to.port(), r.bytes[0], r.bytes.len(), r.fate, if r.bytes.len() < 100 { format!("{:?}", crate::sim::world::frame_of(&r.bytes)) } else { String::new() });
        }
    }
    // the connection stayed up
    if let Some(e) = w.clients[ci].events.iter().find(|e| matches!(e.2, CEv::Error(_) | CEv::Disconnect)) {
        let rep = if matches!(e.2, CEv::Error(SErr::Timeout)) { Some((caddr, e.1, ccfg.active_timeout_ms as u64 * 1000)) } else { None };
        return broken(&w, rep, &watch, ":client", format!("ideal network, an application submitting at least every {limit_ms} ms (active timeouts {} / {} ms): the client reported {:?} at t={} us", scfg.ep.active_timeout_ms, ccfg.active_timeout_ms, e.2, e.1), classes);
    }
    if let Some(e) = w.server_events.iter().find(|e| matches!(e.2, SEv::Error(..) | SEv::Disconnect(_))) {
        let rep = if matches!(e.2, SEv::Error(_, SErr::Timeout)) { Some((w.server_addr, e.1, scfg.ep.active_timeout_ms as u64 * 1000)) } else { None };
        return broken(&w, rep, &watch, ":server", format!("ideal network, an application submitting at least every {limit_ms} ms (active timeouts {} / {} ms): the server reported {:?} at t={} us", scfg.ep.active_timeout_ms, ccfg.active_timeout_ms, e.2, e.1), classes);
    }
    if stalled {
        return broken(&w, None, &watch, ":stalled", format!("ideal network: packets still queued, yet no event at either application for 120 s (now t={} us)", w.now_us), classes);
    }
    // every packet, exactly once, in submission order (TimeSensitive ones may be missing)
    for d in 0..2 {
        let got: Vec<(u32, usize)> = if d == 0 {
            w.server_events.iter().filter_map(|e| if let SEv::Receive(a, data) = &e.2 { if *a == caddr { Some(data) } else { None } } else { None }).map(|data| (parse_world_payload(data).filter(|p| p.0 == d as u8).map_or(u32::MAX, |p| p.1), data.len())).collect()
        } else {
            w.clients[ci].events.iter().filter_map(|e| if let CEv::Receive(data) = &e.2 { Some(data) } else { None }).map(|data| (parse_world_payload(data).filter(|p| p.0 == d as u8).map_or(u32::MAX, |p| p.1), data.len())).collect()
        };
        let name = if d == 0 { "client->server" } else { "server->client" };
        let mut gi = 0usize;
        for (idx, mode, ch, size) in sent[d].iter() {
            if gi < got.len() && got[gi].0 == *idx {
                if got[gi].1 != *size {
                    return CaseResult::fail("oracle:c05:endpoints:altered", format!("{name}: packet #{idx} submitted with {size} bytes arrived with {} bytes", got[gi].1));
                }
                gi += 1;
            } else if *mode != 0 {
                return CaseResult::fail(
                    format!("oracle:c05:endpoints:not_delivered_in_order:mode{mode}"),
                    format!("{name}: ideal network, packet #{idx} (channel {ch}, mode {mode}, {size} bytes) is not the next one delivered (next delivered: {:?}; {} of {} submitted were delivered in all)", got.get(gi), got.len(), sent[d].len()),
                );
            }
        }
        if gi < got.len() {
            return CaseResult::fail("oracle:c05:endpoints:unexpected_delivery", format!("{name}: delivery {:?} is not a submitted packet in its place (duplicate, out of order or unknown)", got[gi]));
        }
    }
    let total_ms: u64 = c.phases.iter().map(|p| p.dur_ms as u64).sum();
    if longest_one_way_ms > scfg.ep.active_timeout_ms.min(ccfg.active_timeout_ms) as u64 {
        classes.push("endpoints_one_way_longer_than_timeout");
    }
    if !c.server.0 || !c.client.0 {
        classes.push("endpoints_keepalive_off_somewhere");
    }
    CaseResult::ok(total_ms > 3000 && sent[0].len() + sent[1].len() >= 5, classes)
}

impl Check for C05 {
    type Case = Case;

    fn id(&self) -> &'static str {
        "C05"
    }

    fn strategy(&self, tier: Tier) -> BoxedStrategy<Case> {
        let p = GenParams {
            max_ticks: tier.pick(120, 400),
            max_sends: tier.pick(8, 16),
            max_frags: tier.pick(4, 10),
            faults: false,
            reorder: false,
            tail: true,
            modes: [2, 3, 2, 3],
            max_latency_us: 1_000_000,
            ..GenParams::default()
        };
        prop_oneof![10 => scenario_strategy(&p).prop_map(Case::Pair), 2 => bulk_scenario_strategy(tier.pick(150, 300), tier.pick(40, 120), false, true).prop_map(Case::Pair), 1 => ep_ideal_strategy(tier).prop_map(|endpoints| Case::Endpoints { endpoints })].boxed()
    }

    fn cases(&self, tier: Tier) -> u64 {
        tier.pick(20_000, 600_000)
    }

    fn max_shrink_iters(&self) -> u32 {
        800
    }

    fn case_timeout_s(&self) -> u64 {
        120
    }

    fn rule(&self) -> String {
        "case = SimPair scenario with FIFO loss-free links (constant latency 0..1 s per direction), traffic in both directions, all four modes, bursts exceeding the flush budget, the packet / frame windows (2^k) and the receive allocation, arbitrary cadence, base ids anywhere, plus a bulk shape (4096 windows, streams of hundreds of tiny packets per tick with rare Reliable ones); followed by a fair phase to quiescence; about 1 case in 13 instead runs a real Server and a real Client (World) on a loss-free FIFO network: 1-5 phases of 0.5-70 s in which one application submits a packet (any mode, 5-12000 bytes) at least every third of the shorter active timeout and the other one is silent or submits at its own interval, keepalive on or off per side, active timeouts 10 / 20 / 60 s, in three phases of ten one application stalls (does not call step()) for 1.0-1.5 times its own active timeout while the other keeps talking, then stepping until nothing is queued or in flight - there the connection must stay up (no Error, no Disconnect) and the same delivery oracle applies. Oracle: the delivered sequence at each end equals the opposite end's submission sequence with some TimeSensitive packets removed (same global order across channels, nothing else missing, nothing twice). Non-trivial = some tick submitted more than one packet or a multi-fragment packet, and at least 5 packets were delivered. Distinct = distinct serialised scenario.".into()
    }

    fn assumptions(&self) -> Vec<String> {
        vec!["quiescence is awaited with the progress-based bound of C02 (stall window 15 virtual minutes, cap 6 h)".into(), "payload identity convention of C01".into(), "endpoint cases: known finding D28 is excluded by shape (a connection lost or stalled on the ideal network after an endpoint owed acknowledgements for >= 1 s while its send credit was negative, or had negative credit for >= 2 s, and not the fixed D27 signature; a Timeout reported although a frame of the peer had reached the reporter's socket within its active timeout is never excluded) and counted as class known_d28_acks_starved_of_send_credit".into()]
    }

    fn run(&self, case: &Case) -> CaseResult {
        let sc = match case {
            Case::Pair(sc) => sc,
            Case::Endpoints { endpoints } => return run_endpoints(endpoints),
        };
        let mut sc = sc.clone();
        sc.normalize();
        for l in sc.links.iter_mut() {
            l.fates.clear();
        }
        let mut sim = SimPair::new(&sc);
        for t in sc.ticks.iter() {
            sim.run_tick(t);
        }
        sim.record_stats = false;
        let step_us = sc.tail.as_ref().map(|t| t.step_us as u64).unwrap_or(10_000);
        let outcome = sim.run_tail_progress(step_us, STALL_US, CAP_US);
        let trace = sim.finish();
        let mut classes: Vec<&'static str> = Vec::new();
        let mut burst = false;
        let mut delivered = 0usize;
        for s in 0..2 {
            let m = match match_direction_opt(&sc, &trace, s, true) {
                Ok(m) => m,
                Err(v) => return CaseResult { violation: Some(v), nontrivial: true, classes },
            };
            // global order: matched indices strictly increasing
            for w in m.deliv_to_sub.windows(2) {
                if w[1] <= w[0] {
                    let a = &trace.subs[s][w[0] as usize];
                    let b = &trace.subs[s][w[1] as usize];
                    return CaseResult::fail(
                        "oracle:c05:global_order",
                        format!("direction {}->{}: submission {} (channel {}) was delivered after submission {} (channel {}) on a network that neither loses nor reorders", s, 1 - s, b.idx, b.ch, a.idx, a.ch),
                    );
                }
            }
            delivered += m.deliv_to_sub.len();
            if outcome == TailOutcome::Quiescent {
                for sub in trace.subs[s].iter() {
                    if sub.mode != 0 && m.sub_delivered[sub.idx as usize].is_none() {
                        return CaseResult::fail(
                            format!("oracle:c05:not_delivered:mode{}", sub.mode),
                            format!("direction {}->{}: submission {} (channel {}, mode {}, {} bytes) was never delivered although no frame was lost and the sender has nothing pending", s, 1 - s, sub.idx, sub.ch, sub.mode, sub.size),
                        );
                    }
                }
            }
            if let TailOutcome::Stalled { since_us } = outcome {
                return CaseResult::fail("oracle:c05:stalled", format!("loss-free network, yet no progress since t={since_us} us (now {} us) with data outstanding", trace.end_us));
            }
            for t in sc.ticks.iter() {
                if t.acts[s].sends.len() > 1 || t.acts[s].sends.iter().any(|x| x.size as usize > FRAG) {
                    burst = true;
                }
            }
        }
        match outcome {
            TailOutcome::Quiescent => classes.push("quiescent"),
            TailOutcome::Cap => classes.push("slow_cap"),
            _ => {}
        }
        if trace.subs[0].iter().chain(trace.subs[1].iter()).any(|s| s.mode == 0) {
            classes.push("has_time_sensitive");
        }
        if trace.stats[0].iter().chain(trace.stats[1].iter()).any(|s| s.v.flush_alloc < 0 && s.v.pending_queue_len > 0) {
            classes.push("credit_limited_with_pending");
        }
        if trace.stats[0].iter().chain(trace.stats[1].iter()).any(|s| s.v.send_queue_len > 0 && s.v.pending_queue_len == 0 && s.v.flush_alloc >= 0) {
            classes.push("window_or_alloc_limited");
        }
        crate::props::c01::wrap_classes(&sc, &trace, &mut classes);
        CaseResult::ok(burst && delivered >= 5, classes)
    }
}
