//! C19 — heap discipline: matching deallocations, no leaks on teardown.

use uflow::verif::Serialize as _;
use crate::alloc;
use crate::engine::*;
use crate::sim::gen::*;
use crate::sim::pair::*;
use proptest::prelude::*;
use serde::{Deserialize, Serialize};
use std::cell::Cell;

#[derive(Clone, Debug, Serialize, Deserialize)]
pub struct Case {
    pub sc: PairScenario,
    /// the pair is dropped after this many ticks (selector over the tick list; the rest never runs)
    pub drop_after: u16,
    pub run_tail: bool,
    /// when present, a World script (real Server and Clients) is executed and torn down instead
    #[serde(default)]
    pub world: Option<crate::sim::script::WCase>,
    /// when present, these parser inputs are decoded (and re-encoded when accepted) instead
    #[serde(default)]
    pub codec: Option<Vec<crate::props::c16::Case>>,
    /// when present, the connections of the pair are handed to another thread when the history is over (the library
    /// declares HalfConnection Send): 0 both are dropped there, 1 they are used there first (send, step, flush,
    /// receive), 2 one is dropped there and one here
    #[serde(default)]
    pub thread_move: Option<u8>,
}

pub struct C19;

thread_local! {
    static WARM: Cell<bool> = const { Cell::new(false) };
    static WARM_MOVE: Cell<bool> = const { Cell::new(false) };
}

struct Outcome {
    multi_frag_odd_delivered: bool,
    dropped_in_flight: bool,
    deliveries: usize,
    /// live-byte change on the helper thread (connections handed to it are released there)
    other_thread_delta: i64,
}

// ---- helper thread (one per worker, started lazily): runs one job at a time and reports how the live-byte count of
// ---- ITS thread changed while the job ran. Only a pre-allocated mutex / condvar pair is involved in the hand-over, so
// ---- every block that changes hands is allocated inside the measured interval of one thread and released inside
// ---- that of the other: the two changes add up to zero exactly when nothing is left behind on either thread.
type Job = Box<dyn FnOnce() + Send>;
struct Helper {
    slot: std::sync::Mutex<(Option<Job>, Option<(i64, Mismatches, Option<crate::panics::PanicInfo>)>)>,
    cv: std::sync::Condvar,
}
#[derive(Clone, Copy, Default)]
struct Mismatches {
    layout: u64,
    double_free: u64,
    invalid_free: u64,
}
thread_local! {
    static OTHER_THREAD_PANIC: std::cell::RefCell<Option<crate::panics::PanicInfo>> = const { std::cell::RefCell::new(None) };
    static OTHER_THREAD_FAULTS: Cell<(u64, u64, u64)> = const { Cell::new((0, 0, 0)) };
    static HELPER: std::cell::RefCell<Option<std::sync::Arc<Helper>>> = const { std::cell::RefCell::new(None) };
}

fn on_other_thread(job: Job) -> (i64, Mismatches, Option<crate::panics::PanicInfo>) {
    let h = HELPER.with(|c| {
        let mut c = c.borrow_mut();
        if c.is_none() {
            let h = std::sync::Arc::new(Helper { slot: std::sync::Mutex::new((None, None)), cv: std::sync::Condvar::new() });
            let h2 = h.clone();
            std::thread::spawn(move || loop {
                let job = {
                    let mut g = h2.slot.lock().unwrap();
                    while g.0.is_none() {
                        g = h2.cv.wait(g).unwrap();
                    }
                    g.0.take().unwrap()
                };
                alloc::reset_mismatches();
                let _ = (alloc::take_double_frees(), alloc::take_invalid_frees());
                let before = alloc::live();
                let panicked = std::panic::catch_unwind(std::panic::AssertUnwindSafe(job)).is_err();
                let pi = if panicked { crate::panics::take_last() } else { None };
                let delta = alloc::live() - before;
                let mm = Mismatches { layout: alloc::mismatches().count, double_free: alloc::take_double_frees().0, invalid_free: alloc::take_invalid_frees() };
                let mut g = h2.slot.lock().unwrap();
                g.1 = Some((delta, mm, pi));
                h2.cv.notify_all();
            });
            *c = Some(h);
        }
        c.as_ref().unwrap().clone()
    });
    let mut g = h.slot.lock().unwrap();
    g.0 = Some(job);
    h.cv.notify_all();
    loop {
        if let Some(r) = g.1.take() {
            return r;
        }
        g = h.cv.wait(g).unwrap();
    }
}

struct NullFrames(usize);
impl uflow::verif::FrameSink for NullFrames {
    fn send(&mut self, frame_data: &[u8]) {
        self.0 += frame_data.len();
    }
}
struct NullPackets(usize);
impl uflow::verif::PacketSink for NullPackets {
    fn send(&mut self, packet_data: Box<[u8]>) {
        self.0 += packet_data.len();
    }
}

fn exercise_codec(inputs: &[Vec<u8>]) -> usize {
    use uflow::verif::Serialize as _;
    let mut accepted = 0;
    for b in inputs {
        if let Some(f) = uflow::verif::Frame::read(b) {
            accepted += 1;
            // (the parser accepts datagrams no sender can produce, e.g. fragment id > last fragment id; the library
            // never re-encodes what it has read, and the encoder's assertions do not apply to such values)
            if crate::refcodec::representable(&f) {
                let w = f.write();
                drop(w);
            }
        }
    }
    accepted
}

fn exercise(case: &Case) -> Outcome {
    if let Some(wc) = &case.world {
        // Server, Clients, their connections and everything in flight are dropped at the end of this scope
        let log = crate::sim::script::run_script(wc);
        let deliveries = log.world.server_events.iter().filter(|e| matches!(e.2, crate::sim::world::SEv::Receive(..))).count() + log.world.clients.iter().map(|c| c.events.iter().filter(|e| matches!(e.2, crate::sim::world::CEv::Receive(_))).count()).sum::<usize>();
        let in_flight = log.world.in_flight_count() > 0 || log.world.clients.iter().any(|c| c.client.as_ref().map_or(false, |cl| cl.is_active()));
        drop(log);
        return Outcome { multi_frag_odd_delivered: false, dropped_in_flight: in_flight, deliveries, other_thread_delta: 0 };
    }
    let sc = &case.sc;
    let mut sim = SimPair::new(sc);
    let n = pick_index(case.drop_after, sc.ticks.len() + 1);
    for t in sc.ticks.iter().take(n) {
        sim.run_tick(t);
    }
    if case.run_tail && n == sc.ticks.len() {
        sim.record_stats = false;
        sim.run_tail_progress(10_000, 60_000_000, 600_000_000);
    }
    let dropped_in_flight = !sim.quiescent();
    let odd = sim.trace.delivs.iter().flatten().any(|d| d.data.len() > FRAG && d.data.len() % FRAG != 0);
    let deliveries = sim.trace.delivs[0].len() + sim.trace.delivs[1].len();
    let mut other_thread_delta = 0;
    if let Some(mode) = case.thread_move {
        let now_us = sim.now_us;
        let SimPair { hc, .. } = sim;
        let [a, b] = hc;
        let (there, keep) = if mode % 3 == 2 { (vec![a], Some(b)) } else { (vec![a, b], None) };
        let use_there = mode % 3 == 1;
        let job: Job = Box::new(move || {
            for mut hc in there {
                if use_there {
                    uflow::verif::time::set_ns(now_us * 1000 + 5_000_000);
                    // (one byte: within every peer allocation a scenario can have)
                    hc.send(vec![7u8; 1].into_boxed_slice(), 1, uflow::SendMode::Reliable);
                    let mut fs = NullFrames(0);
                    let mut ps = NullPackets(0);
                    hc.flush(&mut fs);
                    hc.step();
                    hc.receive(&mut ps);
                    hc.flush(&mut fs);
                }
                drop(hc);
            }
        });
        let (delta, mm, pi) = on_other_thread(job);
        other_thread_delta = delta;
        if let Some(pi) = pi {
            OTHER_THREAD_PANIC.with(|p| *p.borrow_mut() = Some(pi));
        }
        if mm.layout > 0 || mm.double_free > 0 || mm.invalid_free > 0 {
            // reported through the same keys as on the case's own thread
            OTHER_THREAD_FAULTS.with(|f| f.set((mm.layout, mm.double_free, mm.invalid_free)));
        }
        drop(keep);
    } else {
        drop(sim);
    }
    Outcome { multi_frag_odd_delivered: odd, dropped_in_flight, deliveries, other_thread_delta }
}

impl Check for C19 {
    type Case = Case;

    fn id(&self) -> &'static str {
        "C19"
    }

    fn strategy(&self, tier: Tier) -> BoxedStrategy<Case> {
        let p = GenParams { max_ticks: tier.pick(120, 300), max_sends: 4, max_frags: tier.pick(6, 16), tail: true, modes: [1, 2, 2, 3], ..GenParams::default() };
        let codec = (scenario_strategy(&GenParams { max_ticks: 1, max_sends: 1, faults: false, tail: false, max_fates: 1, ..GenParams::default() }), proptest::collection::vec(crate::props::c16::parser_input_strategy(), 1..20)).prop_map(|(sc, inputs)| Case { sc, drop_after: 0, run_tail: false, world: None, codec: Some(inputs), thread_move: None });
        // packets of up to 90 fragments (assembly buffers beyond 64 KiB take other paths in allocators and in code
        // that special-cases large blocks)
        let pb = GenParams { max_ticks: tier.pick(60, 150), max_sends: 2, max_frags: 90, tail: true, modes: [1, 2, 2, 3], tight_alloc: false, ..GenParams::default() };
        let pair_big = (scenario_strategy(&pb), prop_oneof![2 => Just(u16::MAX), 3 => any::<u16>()], any::<bool>()).prop_map(|(sc, drop_after, run_tail)| Case { sc, drop_after, run_tail, world: None, codec: None, thread_move: None });
        let pair = (scenario_strategy(&p), prop_oneof![2 => Just(u16::MAX), 3 => any::<u16>()], any::<bool>()).prop_map(|(sc, drop_after, run_tail)| Case { sc, drop_after, run_tail, world: None, codec: None, thread_move: None });
        // Client / Server teardown: World scripts with a short settle phase, so that endpoints are dropped while
        // connections are pending, active (data in flight), closing or lingering
        let sp = crate::sim::script::ScriptParams { max_clients: tier.pick(3, 6), max_ops: tier.pick(80, 250), faults: true, disconnect_weight: 2, drop_weight: 1, send_weight: 10, timeouts: vec![3000, 20000], big_jumps: false, settle_us: 0, replay_weight: 1, vary_server_limits: true, stray_weight: 1, reconnect_weight: 1 };
        let q = GenParams { max_ticks: 1, max_sends: 1, faults: false, tail: false, max_fates: 1, ..GenParams::default() };
        let world = (scenario_strategy(&q), crate::sim::script::wcase_strategy(&sp), prop_oneof![Just(0u64), Just(300_000u64), Just(3_000_000u64), Just(25_000_000u64)]).prop_map(|(sc, mut wc, settle)| {
            wc.settle_us = settle;
            // a third of the server applications stop reading a step's events after the first one (or read none)
            wc.server_event_limit = match wc.seed % 6 {
                0 => Some(1),
                1 => Some(0),
                _ => None,
            };
            Case { sc, drop_after: 0, run_tail: false, world: Some(wc), codec: None, thread_move: None }
        });
        // one burst of a thousand and more tiny Reliable / Persistent packets over a link with 50-150 ms of latency, so
        // that well over a thousand fragments wait for their acknowledgement at once (housekeeping that only starts
        // at such queue lengths), dropped at a generated point or run to the end
        let burst = (scenario_strategy(&GenParams { max_ticks: 1, max_sends: 1, faults: false, tail: true, max_fates: 1, small_windows: false, tight_alloc: false, ..GenParams::default() }), 1100usize..tier.pick(3500, 6000), prop_oneof![Just(2u8), Just(3u8)], 4u32..9, (50_000u32..150_000, 50_000u32..150_000), prop_oneof![2 => Just(u16::MAX), 3 => any::<u16>()], prop_oneof![Just(16_000u64), Just(50_000u64)], 30usize..120)
            .prop_map(|(mut sc, n, mode, size, (l0, l1), drop_after, dt_us, idle)| {
                let sends: Vec<SendSpec> = (0..n).map(|i| SendSpec { ch: (i % 3) as u8, mode, size }).collect();
                let mut ticks = vec![Tick { dt_us, acts: [EpAct { step: true, sends, flushes: 1 }, EpAct { step: true, sends: Vec::new(), flushes: 1 }] }];
                for _ in 0..idle {
                    ticks.push(Tick { dt_us, acts: [EpAct { step: true, sends: Vec::new(), flushes: 0 }, EpAct { step: true, sends: Vec::new(), flushes: 0 }] });
                }
                sc.ticks = ticks;
                sc.links[0].latency_us = l0;
                sc.links[1].latency_us = l1;
                for d in sc.dirs.iter_mut() {
                    d.pkt_win_log2 = 12;
                    d.frm_win_log2 = 12;
                    d.bw_limit = u32::MAX;
                    d.alloc_limit = u32::MAX;
                }
                sc.normalize();
                Case { sc, drop_after, run_tail: true, world: None, codec: None, thread_move: None }
            });
        // the connections change threads before they are released (HalfConnection is declared Send)
        let moved = (scenario_strategy(&GenParams { max_ticks: tier.pick(40, 120), ..p.clone() }), prop_oneof![2 => Just(u16::MAX), 3 => any::<u16>()], any::<bool>(), 0u8..3).prop_map(|(sc, drop_after, run_tail, m)| Case { sc, drop_after, run_tail, world: None, codec: None, thread_move: Some(m) });
        prop_oneof![8 => pair, 2 => pair_big, 4 => world, 2 => codec, 1 => burst, 2 => moved].boxed()
    }

    fn cases(&self, tier: Tier) -> u64 {
        tier.pick(60_000, 600_000)
    }

    fn rule(&self) -> String {
        "case = SimPair scenario (multi-fragment sizes biased to k*1448+-1 and arbitrary non-multiples, all modes, faults, small windows so that the receive window advances over partial packets) executed under the checking allocator, with the whole pair dropped after a generated number of ticks (mid-transfer) or after a fair tail. A third case kind hands the frame parser 1-19 inputs from C16's generators (valid frames, arbitrary bytes, structurally damaged frames with a recomputed checksum), re-encoding what is accepted: rejected input must leave nothing behind (non-trivial there = a damaged data frame of more than 20 bytes was rejected). (a third of the server applications read only the first - or none - of the events of a step() and drop the iterator) A second case kind runs a World script (real Server and 1-3 Clients: sends of all sizes in both directions, disconnects, Server::drop, faults) and drops Server, Clients and everything in flight after 0 / 0.3 / 3 / 25 s of settling. A further case kind hands the pair's connections to another thread when the history is over (HalfConnection is declared Send) and releases them there - at once, after using them there, or one there and one here; the live-byte changes of both threads are added up. Freed blocks are checksummed and quarantined until the case ends. Oracle: no block released twice, no release of a pointer that is not a live block, no write into a released block; the allocator recorded no dealloc / realloc whose size or alignment differs from the one the block was allocated with, and the thread's live-byte count after everything created by the case has been dropped equals the count on entry (one warm-up execution per worker first). Non-trivial = a multi-fragment packet whose length is not a multiple of 1448 completed reassembly and was delivered, or the pair was dropped with data in flight. Distinct = distinct serialised case.".into()
    }

    fn assumptions(&self) -> Vec<String> {
        vec![
            "layout checks cover every block released on the case's thread while the case runs (library and harness alike; the harness itself only uses safe containers)".into(),
            "the soundness of `unsafe impl Send/Sync for HalfConnection` is only touched through whole-object moves between threads (create and use on one, release or use on another); concurrent access is outside the reach of input generation".into(),
        ]
    }

    fn sample(&self, case: &Case) -> serde_json::Value {
        truncate_value(serde_json::to_value(case).unwrap(), 1)
    }

    fn run(&self, case: &Case) -> CaseResult {
        let mut case = case.clone();
        case.sc.normalize();
        if !WARM.with(|w| w.get()) {
            let _ = exercise(&case);
            WARM.with(|w| w.set(true));
        }
        // (the helper thread has first-use effects of its own)
        if case.thread_move.is_some() && !WARM_MOVE.with(|w| w.get()) {
            for m in 0..3 {
                let mut c = case.clone();
                c.thread_move = Some(m);
                let _ = exercise(&c);
            }
            let _ = OTHER_THREAD_FAULTS.with(|f| f.replace((0, 0, 0)));
            let _ = OTHER_THREAD_PANIC.with(|p| p.borrow_mut().take());
            WARM_MOVE.with(|w| w.set(true));
        }
        // parser inputs are built before the measured scope begins
        let codec_inputs: Option<Vec<Vec<u8>>> = case.codec.as_ref().map(|v| v.iter().map(crate::props::c16::case_bytes).collect());
        alloc::reset_mismatches();
        let _ = (alloc::take_double_frees(), alloc::take_invalid_frees(), alloc::take_writes_after_free());
        let before = alloc::live();
        let mut codec_accepted = 0usize;
        let out = {
            // freed blocks are checksummed and held back until the case is over: a second release of a block, or a
            // write into it, is then seen reliably
            struct Scope;
            impl Drop for Scope {
                fn drop(&mut self) {
                    alloc::quarantine_end();
                }
            }
            alloc::quarantine_begin();
            let _scope = Scope;
            if let Some(inputs) = &codec_inputs {
                codec_accepted = exercise_codec(inputs);
                Outcome { multi_frag_odd_delivered: false, dropped_in_flight: false, deliveries: 0, other_thread_delta: 0 }
            } else {
                exercise(&case)
            }
        };
        if let Some(pi) = OTHER_THREAD_PANIC.with(|p| p.borrow_mut().take()) {
            if pi.in_library() {
                return CaseResult::fail(pi.signature(), format!("panic at {}:{} while the connection was used on a thread other than the one that created it: {}", pi.file, pi.line, pi.msg));
            }
            panic!("harness panic on the helper thread at {}:{}: {}", pi.file, pi.line, pi.msg);
        }
        let after = alloc::live() + out.other_thread_delta;
        let mm = alloc::mismatches();
        let other = OTHER_THREAD_FAULTS.with(|f| f.replace((0, 0, 0)));
        if other != (0, 0, 0) {
            return CaseResult::fail(
                if other.0 > 0 { "oracle:c19:layout_mismatch:other_thread" } else { "oracle:c19:double_free:other_thread" },
                format!("connections handed to another thread and released there: {} deallocation(s) with a wrong layout, {} block(s) released twice, {} release(s) of pointers that are not live blocks", other.0, other.1, other.2),
            );
        }
        let mut classes: Vec<&'static str> = Vec::new();
        let (df, df_size) = alloc::take_double_frees();
        if df > 0 {
            return CaseResult::fail("oracle:c19:double_free", format!("{df} heap block(s) were released a second time (the first of them had {df_size} bytes)"));
        }
        let inv = alloc::take_invalid_frees();
        if inv > 0 {
            return CaseResult::fail("oracle:c19:invalid_free", format!("{inv} release(s) of pointers that are not live heap blocks"));
        }
        let waf = alloc::take_writes_after_free();
        if waf > 0 {
            return CaseResult::fail("oracle:c19:write_after_free", format!("{waf} heap block(s) were written to after they had been released"));
        }
        if mm.count > 0 {
            return CaseResult::fail(
                "oracle:c19:layout_mismatch",
                format!(
                    "{} deallocation(s) with a layout different from the allocation's: first one allocated with size {} align {}, released with size {} align {}",
                    mm.count, mm.alloc_size, mm.alloc_align, mm.given_size, mm.given_align
                ),
            );
        }
        if after != before && std::env::var_os("VERIF_DEBUG").is_some() {
            eprintln!("[c19] before={} after_here={} other_delta={} mode={:?}", before, alloc::live(), out.other_thread_delta, case.thread_move);
        }
        if after != before {
            return CaseResult::fail(
                if case.thread_move.is_some() { "oracle:c19:leak:moved_to_another_thread" } else { "oracle:c19:leak" },
                format!("live heap bytes changed by {} across a case whose objects were all dropped{}", after - before, if case.thread_move.is_some() { " (the connections were created and used on one thread and released on another; both threads' counts are added up)" } else { "" }),
            );
        }
        if out.multi_frag_odd_delivered {
            classes.push("odd_multi_fragment_delivered");
        }
        if out.dropped_in_flight {
            classes.push("dropped_with_data_in_flight");
        }
        if out.deliveries > 0 {
            classes.push("delivered_something");
        }
        if case.world.is_some() {
            classes.push("world_teardown");
        }
        if case.thread_move.is_some() {
            classes.push("released_on_another_thread");
        }
        if let Some(inputs) = &codec_inputs {
            classes.push("codec_inputs");
            if codec_accepted < inputs.len() {
                classes.push("codec_input_rejected");
            }
            let rejected_data_frame = inputs.iter().any(|b| b.first() == Some(&10) && b.len() > 20 && uflow::verif::Frame::read(b).is_none());
            return CaseResult::ok(rejected_data_frame, classes);
        }
        CaseResult::ok(out.multi_frag_odd_delivered || out.dropped_in_flight, classes)
    }
}
