//! Coverage-guided campaign shared by the thorough tiers of C01 / C02 / C12 / C20 (target
//! `pair_oracles` of harness/fuzz): libFuzzer mutates byte strings, `sim::decode` turns them into
//! SimPair scenarios, the check's own run function is the oracle. A saved input is decoded here with
//! the same decoder, re-executed in process (which yields the violation key) and stored as an
//! ordinary JSON replay file.

use crate::engine::*;
use crate::sim::decode::{params_for, scenario_from_bytes};
use crate::sim::pair::PairScenario;
use serde_json::Value;

pub fn pair_fuzz_extra(id: &str, seed: u64, runs: u64, run: &dyn Fn(&PairScenario) -> CaseResult, to_case: &dyn Fn(&PairScenario) -> Value) -> ExtraResult {
    let mut out = ExtraResult::default();
    // starting corpus: random strings of several lengths (libFuzzer grows inputs slowly from an empty corpus)
    let seeds: Vec<Vec<u8>> = (0..24u64).map(|k| crate::util::fill_bytes(seed ^ (k * 7919 + 13), 120 + (k as usize % 6) * 260)).collect();
    let fz = run_fuzz_env("pair_oracles", &format!("pair_oracles-{}", id), runs, seed, 2400, &seeds, &[("VERIF_PAIR_ORACLE", id)]);
    let mut info = serde_json::json!({"engine": "libFuzzer via cargo-fuzz", "target": "pair_oracles", "oracle": id, "execs": fz.execs, "note": fz.note, "artifact": fz.artifact.as_ref().map(|p| p.display().to_string())});
    out.evaluations += fz.execs;
    if let Some(a) = fz.artifact {
        let bytes = std::fs::read(&a).unwrap_or_default();
        let (low_bw, max_ticks, max_frags) = params_for(id);
        let sc = scenario_from_bytes(&bytes, low_bw, max_ticks, max_frags);
        let case_v = to_case(&sc);
        let v = match crate::panics::catch(|| run(&sc)) {
            Ok(r) => r.violation,
            Err(pi) if pi.in_library() => Some(Violation::new(pi.signature(), format!("panic at {}:{}: {}", pi.file, pi.line, pi.msg))),
            Err(pi) => Some(Violation::new("fuzz:pair_oracles:harness_panic", format!("panic outside the library at {}:{}: {}", pi.file, pi.line, pi.msg))),
        };
        match v {
            Some(v) => out.violation = Some((Violation::new(v.key, format!("found by the libFuzzer target pair_oracles (input saved as {}): {}", a.display(), v.msg)), case_v)),
            None => {
                // the saved input does not fail when re-executed in process (a libFuzzer timeout / out-of-memory
                // artefact, or state leaking between iterations): reported in the evidence, not as a violation
                info["unreproduced_artifact"] = Value::Bool(true);
            }
        }
    }
    out.coverage.insert(format!("fuzz_pair_oracles_{}", id), info);
    out
}
