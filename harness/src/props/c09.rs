//! C09 — disconnect() flushes reliable data before both sides close.

use crate::engine::*;
use crate::props::c08::{check_event_streams, script_classes};
use crate::sim::script::*;
use crate::sim::world::*;
use proptest::prelude::*;
use std::collections::HashSet;

pub struct C09;

/// World scripts (real Server and Clients), or the mechanism behind the flush clause at the level of one connection's
/// two HalfConnections: disconnect() sends its request once `is_send_pending()` is false, and the peer hands over
/// what receive() yields before it reports Disconnect - so whenever a sender has nothing pending and none of its
/// data frames is still travelling, every Reliable packet it accepted must have been handed over.
#[derive(Clone, Debug, serde::Serialize, serde::Deserialize)]
#[serde(untagged)]
pub enum Case {
    World(WCase),
    Pair { pair: crate::sim::pair::PairScenario },
}

fn run_pair(sc: &crate::sim::pair::PairScenario) -> CaseResult {
    use crate::sim::pair::*;
    let mut sc = sc.clone();
    sc.normalize();
    let mut sim = SimPair::new(&sc);
    sim.record_stats = false;
    let mut classes: Vec<&'static str> = vec!["pair"];
    // identity by the index embedded in payloads of 4 bytes and more (shorter Reliable packets are not judged here;
    // ordering and duplicates are C01's business)
    let mut handed: [std::collections::HashSet<u32>; 2] = [Default::default(), Default::default()];
    let mut seen_delivs = [0usize; 2];
    let mut moments = 0u32;
    let mut reliable = 0usize;
    // judged whenever a sender has nothing pending - the moment disconnect() would send its request - and none of its
    // data frames is travelling
    let mut judge = |sim: &SimPair, when: &str| -> Option<CaseResult> {
        for s in 0..2 {
            if sim.hc[s].is_send_pending() || sim.data_in_flight_to(1 - s) {
                continue;
            }
            let r = 1 - s;
            for d in sim.trace.delivs[r][seen_delivs[r]..].iter() {
                if d.data.len() >= 4 {
                    handed[s].insert(u32::from_be_bytes([d.data[0], d.data[1], d.data[2], d.data[3]]));
                }
            }
            seen_delivs[r] = sim.trace.delivs[r].len();
            moments += 1;
            reliable = reliable.max(sim.trace.subs[s].iter().filter(|sub| sub.mode == 3 && sub.size >= 4).count());
            if let Some(sub) = sim.trace.subs[s].iter().find(|sub| sub.mode == 3 && sub.size >= 4 && !handed[s].contains(&sub.idx)) {
                return Some(CaseResult::fail(
                    "oracle:c09:pair:reliable_not_flushed",
                    format!("direction {}->{} at t={} us ({when}): the sender has nothing pending (disconnect() would send its request now) and none of its data frames is travelling, yet Reliable submission {} (channel {}, {} bytes, submitted at t={} us) has not been handed to the peer application", s, 1 - s, sim.now_us, sub.idx, sub.ch, sub.size, sub.t_us),
                ));
            }
        }
        None
    };
    for t in sc.ticks.iter() {
        sim.run_tick(t);
        if let Some(v) = judge(&sim, "after a tick of the faulty phase") {
            return v;
        }
    }
    let step_us = sc.tail.as_ref().map(|t| t.step_us as u64).unwrap_or(10_000);
    let outcome = sim.run_tail_progress(step_us, crate::props::c02::STALL_US, crate::props::c02::CAP_US);
    if let Some(v) = judge(&sim, "at the end of the fair phase") {
        return v;
    }
    if outcome != TailOutcome::Quiescent {
        classes.push("pair_not_quiescent");
    }
    let trace = sim.finish();
    let faulted = (0..2).any(|s| trace.wire[s].iter().any(|w| !matches!(w.fate, Fate::Deliver(0))));
    if moments > 2 {
        classes.push("pair_judged_at_several_moments");
    }
    CaseResult::ok(reliable > 0 && faulted, classes)
}

fn params(tier: Tier) -> ScriptParams {
    ScriptParams {
        max_clients: tier.pick(2, 4),
        max_ops: tier.pick(100, 300),
        faults: true,
        disconnect_weight: 2,
        drop_weight: 0,
        send_weight: 14,
        timeouts: vec![3000, 20000, 30000],
        big_jumps: false,
        settle_us: 60_000_000,
        replay_weight: 1, vary_server_limits: false, stray_weight: 0, reconnect_weight: 0,
    }
}

const RETRY_BUDGET_US: u64 = 22_000_000;

impl Check for C09 {
    type Case = Case;

    fn id(&self) -> &'static str {
        "C09"
    }

    fn strategy(&self, tier: Tier) -> BoxedStrategy<Case> {
        let p = params(tier);
        // structured shape: connect, exchange, queue a burst, one disconnect() from either side, keep stepping
        let tick = || (prop_oneof![Just(5_000u32), Just(16_000u32), Just(30_000u32), Just(100_000u32)]).prop_map(|dt_us| WOp::Tick { dt_us, server: true, clients: 255 });
        let send = (any::<bool>(), prop_oneof![3 => 0u8..3, 1 => 0u8..64], prop_oneof![1 => 0u8..3, 3 => Just(3u8)], prop_oneof![2 => Just(0u16), 6 => 5u16..200, 2 => 200u16..3000, 1 => 3000u16..20000]).prop_map(|(from_client, ch, mode, size)| if from_client { WOp::ClientSend { c: 0, ch, mode, size } } else { WOp::ServerSend { c: 0, ch, mode, size } });
        let structured = (
            any::<u64>(),
            wclient_strategy(&p),
            proptest::collection::vec(tick(), 8..40),
            proptest::collection::vec(prop_oneof![3 => send, 1 => tick()], 0..tier.pick(60, 200)),
            (any::<bool>(), prop_oneof![5 => Just(false), 1 => Just(true)]),
            proptest::collection::vec(prop_oneof![14 => tick(), 1 => (1u8..4, prop_oneof![4 => 100u32..3000, 1 => Just(10_000_000u32)]).prop_map(|(dirs, len_ms)| WOp::Blackout { c: 0, dirs, len_ms })], 0..60),
            prop_oneof![Just(10_000u32), Just(30_000u32), Just(100_000u32)],
        )
            .prop_map(|(seed, mut client, warm, burst, (from_client, now), after, settle_step_us)| {
                client.start_tick = 0;
                // a lighter fault load than the generic shape: thin the fate scripts
                for d in 0..2 {
                    let mut k = 0;
                    for f in client.fates[d].iter_mut() {
                        k += 1;
                        if k % 3 != 0 {
                            *f = Fate::Deliver(0);
                        }
                    }
                }
                let mut ops = warm;
                ops.extend(burst);
                ops.push(if from_client { WOp::ClientDisconnect { c: 0, now } } else { WOp::ServerDisconnect { c: 0, now } });
                ops.extend(after);
                WCase { seed, server: ServerCfg { ep: EpCfg { keepalive_interval_ms: 1000, ..EpCfg::default() }, ..ServerCfg::default() }, clients: vec![client], ops, settle_step_us, settle_us: 60_000_000, server_event_limit: None }
            });
        let gp = crate::sim::gen::GenParams { max_ticks: tier.pick(150, 400), max_sends: 6, max_frags: 3, tail: true, modes: [1, 1, 1, 4], stall_weight: 4, ..crate::sim::gen::GenParams::default() };
        prop_oneof![2 => wcase_strategy(&p).prop_map(Case::World), 4 => structured.prop_map(Case::World), 1 => crate::sim::gen::scenario_strategy(&gp).prop_map(|pair| Case::Pair { pair })].boxed()
    }

    fn cases(&self, tier: Tier) -> u64 {
        tier.pick(90_000, 1_000_000)
    }

    fn max_shrink_iters(&self) -> u32 {
        1500
    }

    fn rule(&self) -> String {
        "case = World script as in C08 without Server::drop: generated amounts and modes of data queued in both directions when disconnect() / disconnect_now() is called from either side, loss / duplication / reordering of data, ack, disconnect and disconnect-ack frames, blackouts incl. a total one until the end, followed by 60 s of regular stepping. Oracle: (0) a disconnect_now() on an established server-side connection puts the request on the wire at the server's next step, whatever was asked before (a pending graceful disconnect() included); (1) if an endpoint's terminal event is Disconnect and it did not itself ask to disconnect, its Receive events before that Disconnect include every Reliable packet the peer submitted (and had accepted) before the peer's first disconnect() call, provided the peer never called disconnect_now(); (2) with t0 the first time the caller's Disconnect frame appears on the wire, the caller reaches a terminal event by t0 + 22 s + 12 x largest step gap (each of the 11 retry intervals is re-armed at the step that serves it), and the peer by max(t0, arrival of the last datagram it received) + max(22 s, its active_timeout_ms) + 12 x largest step gap; (2') a client that asked to disconnect does not end with Error(Timeout) when the server, having reported Disconnect on one of the client's requests, was handed another intact copy of the request within 19 s and put no DisconnectAck on the wire at the step that served it (Timeout is for an unreachable peer), and the same with the roles exchanged; (3) the event streams are well-formed (nothing after a terminal event). One case in seven instead drives the two HalfConnections of one connection directly (SimPair scenario with faults, tiny to full-size windows, then a fair phase): after every tick and at the end, whenever a sender has nothing pending - the moment disconnect() would send its request - and none of its data frames is travelling, every Reliable packet it accepted so far has been handed to the peer application. Non-trivial = a Reliable packet was still unacknowledged at a disconnect() call and at least one frame was faulted afterwards. Distinct = distinct serialised case.".into()
    }

    fn assumptions(&self) -> Vec<String> {
        vec![
            "a peer that never hears the disconnect can only learn of it through its own silence timer, so its deadline is max(22 s, active_timeout_ms)".into(),
            "sends accepted = submitted while the connection was pending or active on the submitting side".into(),
        ]
    }

    fn sample(&self, case: &Case) -> serde_json::Value {
        truncate_value(serde_json::to_value(case).unwrap(), 1)
    }

    fn run(&self, case: &Case) -> CaseResult {
        let c = match case {
            Case::World(c) => c,
            Case::Pair { pair } => return run_pair(pair),
        };
        let log = run_script(c);
        let w = &log.world;
        let mut classes = Vec::new();
        if let Err(mut v) = check_event_streams(&log) {
            v.key = v.key.replace("oracle:c08:", "oracle:c09:stream:");
            return CaseResult { violation: Some(v), nontrivial: true, classes };
        }
        let gap = log.max_step_gap_us;
        let mut nontrivial = false;

        for k in 0..c.clients.len() {
            let Some(i) = log.ci[k] else { continue };
            let slot = &w.clients[i];
            let addr = slot.addr;
            // API calls concerning this connection
            let c_first_disc = log.api.iter().find(|(_, _, a)| matches!(a, Api::ClientDisconnect { c, .. } if *c == k)).map(|p| p.0);
            let s_first_disc = log.api.iter().find(|(_, _, a)| matches!(a, Api::ServerDisconnect { c, .. } if *c == k)).map(|p| p.0);
            let c_any_now = log.api.iter().any(|(_, _, a)| matches!(a, Api::ClientDisconnect { c, now: true } if *c == k));
            let s_any_now = log.api.iter().any(|(_, _, a)| matches!(a, Api::ServerDisconnect { c, now: true } if *c == k));
            let c_flush_first = log.api.iter().find(|(_, _, a)| matches!(a, Api::ClientDisconnect { c, .. } if *c == k)).map_or(false, |p| matches!(p.2, Api::ClientDisconnect { now: false, .. }));
            let s_flush_first = log.api.iter().find(|(_, _, a)| matches!(a, Api::ServerDisconnect { c, .. } if *c == k)).map_or(false, |p| matches!(p.2, Api::ServerDisconnect { now: false, .. }));

            // terminal events
            let c_term = slot.events.iter().find(|(_, _, e)| matches!(e, CEv::Disconnect | CEv::Error(_))).cloned();
            let s_term = w.server_events.iter().find(|(_, _, e)| matches!(e, SEv::Disconnect(a) | SEv::Error(a, _) if *a == addr)).cloned();
            let s_connected = w.server_events.iter().any(|(_, _, e)| matches!(e, SEv::Connect(a) if *a == addr));

            // ---- (0) "immediately for disconnect_now()": the request is on the wire at the caller's next step, whatever
            // was asked of the connection before (a pending graceful disconnect included)
            for (s_call, _, a) in log.api.iter() {
                if !matches!(a, Api::ServerDisconnect { c, now: true } if *c == k) {
                    continue;
                }
                // the connection was established and had not ended, and no disconnect request of either side had travelled yet
                let connected_before = w.server_events.iter().any(|(s, _, e)| *s < *s_call && matches!(e, SEv::Connect(x) if *x == addr));
                let ended_before = w.server_events.iter().any(|(s, _, e)| *s < *s_call && matches!(e, SEv::Disconnect(x) | SEv::Error(x, _) if *x == addr));
                let dropped_before = log.api.iter().any(|(s, _, a)| *s < *s_call && matches!(a, Api::ServerDrop { c } if *c == k));
                let mut steps_after = w.server_steps.iter().filter(|p| p.0 > *s_call);
                let (Some(s1), Some(s2)) = (steps_after.next(), steps_after.next()) else { continue };
                // (the last request before a step is the one that counts: a later disconnect() turns the request into a
                // graceful one again)
                if log.api.iter().any(|(s, _, a)| *s > *s_call && *s < s1.0 && matches!(a, Api::ServerDisconnect { c, .. } if *c == k)) {
                    continue;
                }
                let request_seen_before = w.wire.iter().any(|r| r.seq < s2.0 && r.bytes.first() == Some(&4) && ((r.from == addr && r.to == w.server_addr) || (r.from == w.server_addr && r.to == addr && r.seq < *s_call)));
                if !connected_before || ended_before || dropped_before || request_seen_before || log.reconnects > 0 {
                    continue;
                }
                let sent = w.wire.iter().any(|r| r.seq > *s_call && r.seq < s2.0 && r.from == w.server_addr && r.to == addr && r.bytes.first() == Some(&4));
                let ended_now = w.server_events.iter().any(|(s, _, e)| *s > *s_call && *s < s2.0 && matches!(e, SEv::Disconnect(x) | SEv::Error(x, _) if *x == addr));
                classes.push("disconnect_now_on_an_established_connection");
                if !sent && !ended_now {
                    let earlier_graceful = log.api.iter().any(|(s, _, a)| *s < *s_call && matches!(a, Api::ServerDisconnect { c, now: false } if *c == k));
                    return CaseResult::fail(
                        "oracle:c09:disconnect_now_not_transmitted_at_once:server",
                        format!("the server application called disconnect_now() on the established connection of client {k} ({addr}); the server's next step() put no disconnect request on the wire (a graceful disconnect() had been requested earlier: {earlier_graceful})"),
                    );
                }
            }
            // ---- (1) flush clause: client disconnect() -> server sees everything --------------------
            if let (Some(s0), true, false, Some((tseq, _, SEv::Disconnect(_)))) = (c_first_disc, c_flush_first, c_any_now, s_term.clone()) {
                if s_first_disc.map_or(true, |sd| sd > tseq) {
                    let got: HashSet<u32> = w.server_events.iter().filter(|(s, _, _)| *s < tseq).filter_map(|(_, _, e)| match e {
                        SEv::Receive(a, d) if *a == addr => parse_world_payload(d).filter(|p| p.0 == k as u8).map(|p| p.1),
                        _ => None,
                    }).collect();
                    for (s, _, a) in log.api.iter() {
                        if let Api::ClientSend { c: kk, idx, mode: 3, .. } = a {
                            if *kk == k && *s < s0 && !got.contains(idx) {
                                return CaseResult::fail(
                                    "oracle:c09:reliable_not_flushed:client_to_server",
                                    format!("client {k} submitted Reliable packet #{idx} before calling disconnect(); the server reported Disconnect({addr}) without having delivered it (delivered: {} packets)", got.len()),
                                );
                            }
                        }
                    }
                    // zero-length Reliable packets carry no identity: they are counted
                    let sent_empty = log.api.iter().filter(|(s, _, a)| *s < s0 && matches!(a, Api::ClientSendEmpty { c: kk } if *kk == k)).count();
                    let got_empty = w.server_events.iter().filter(|(s, _, e)| *s < tseq && matches!(e, SEv::Receive(a, d) if *a == addr && d.is_empty())).count();
                    if got_empty < sent_empty {
                        return CaseResult::fail(
                            "oracle:c09:reliable_not_flushed:client_to_server:empty_packets",
                            format!("client {k} submitted {sent_empty} zero-length Reliable packets before calling disconnect(); the server reported Disconnect({addr}) after delivering only {got_empty} of them"),
                        );
                    }
                    if sent_empty > 0 {
                        classes.push("empty_reliable_before_disconnect");
                    }
                    classes.push("flush_clause_checked_c2s");
                }
            }
            // ---- (1') server-side disconnect() -> client sees everything ------------------------------
            if let (Some(s0), true, false, Some((tseq, _, CEv::Disconnect))) = (s_first_disc, s_flush_first, s_any_now, c_term.clone()) {
                if c_first_disc.map_or(true, |cd| cd > tseq) {
                    let got: HashSet<u32> = slot.events.iter().filter(|(s, _, _)| *s < tseq).filter_map(|(_, _, e)| match e {
                        CEv::Receive(d) => parse_world_payload(d).filter(|p| p.0 == STREAM_S2C + k as u8).map(|p| p.1),
                        _ => None,
                    }).collect();
                    // only packets submitted on the server-side connection disconnect() was called on (an earlier
                    // connection of the same address that ended with an Error took its queue with it)
                    let inst_start = w.server_events.iter().filter(|(s, _, e)| *s < s0 && matches!(e, SEv::Connect(a) if *a == addr)).map(|p| p.0).last().unwrap_or(0);
                    for (s, _, a) in log.api.iter() {
                        if let Api::ServerSend { c: kk, idx, mode: 3, accepted: true, .. } = a {
                            if *kk == k && *s < s0 && *s > inst_start && !got.contains(idx) {
                                return CaseResult::fail(
                                    "oracle:c09:reliable_not_flushed:server_to_client",
                                    format!("the server submitted Reliable packet #{idx} to client {k} before calling disconnect(); the client reported Disconnect without having received it (received: {} packets)", got.len()),
                                );
                            }
                        }
                    }
                    let sent_empty = log.api.iter().filter(|(s, _, a)| *s < s0 && *s > inst_start && matches!(a, Api::ServerSendEmpty { c: kk, accepted: true } if *kk == k)).count();
                    let got_empty = slot.events.iter().filter(|(s, _, e)| *s < tseq && matches!(e, CEv::Receive(d) if d.is_empty())).count();
                    if got_empty < sent_empty {
                        return CaseResult::fail(
                            "oracle:c09:reliable_not_flushed:server_to_client:empty_packets",
                            format!("the server submitted {sent_empty} zero-length Reliable packets to client {k} before calling disconnect(); the client reported Disconnect after receiving only {got_empty} of them"),
                        );
                    }
                    if sent_empty > 0 {
                        classes.push("empty_reliable_before_disconnect");
                    }
                    classes.push("flush_clause_checked_s2c");
                }
            }
            // ---- (2) timing --------------------------------------------------------------------------
            // first Disconnect frame on the wire in each direction
            let c_disc_wire = w.wire.iter().find(|r| r.from == addr && r.bytes.first() == Some(&4)).map(|r| r.t_us);
            let s_disc_wire = w.wire.iter().find(|r| r.to == addr && r.from == w.server_addr && r.bytes.first() == Some(&4)).map(|r| r.t_us);
            let t0 = match (c_disc_wire, s_disc_wire) {
                (Some(a), Some(b)) => Some(a.min(b)),
                (a, b) => a.or(b),
            };
            if let Some(t0) = t0 {
                // frames already in flight at t0 may still arrive later and legitimately refresh the
                // peer's silence timer: count from the last datagram delivered to that side
                let c_last = w.delivered.iter().filter(|d| d.to == addr).map(|d| d.t_us).max().unwrap_or(0).max(t0);
                let s_last = w.delivered.iter().filter(|d| d.from == addr).map(|d| d.t_us).max().unwrap_or(0).max(t0);
                let c_deadline = c_last + RETRY_BUDGET_US.max(slot.cfg.active_timeout_ms as u64 * 1000) + 12 * gap + 1000;
                let s_deadline = s_last + RETRY_BUDGET_US.max(c.server.ep.active_timeout_ms as u64 * 1000) + 12 * gap + 1000;
                let c_caller_deadline = c_disc_wire.map(|t| t + RETRY_BUDGET_US + 12 * gap + 1000);
                let s_caller_deadline = s_disc_wire.map(|t| t + RETRY_BUDGET_US + 12 * gap + 1000);
                // client side
                let c_limit = c_caller_deadline.map_or(c_deadline, |d| d.min(c_deadline));
                if log.end_us > c_limit {
                    let ok = c_term.as_ref().map_or(false, |(_, t, _)| *t <= c_limit);
                    if !ok {
                        return CaseResult::fail(
                            if c_caller_deadline.is_some() { "oracle:c09:caller_not_terminated_in_time:client" } else { "oracle:c09:peer_not_terminated_in_time:client" },
                            format!("client {k}: a disconnect request for its connection first appeared on the wire at t={t0} us; the client had no terminal event by t={c_limit} us (terminal: {:?}; largest step gap {gap} us)", c_term.as_ref().map(|p| (p.1, &p.2))),
                        );
                    }
                }
                // server side (only if it ever had the connection and the application did not drop it)
                if s_connected {
                    let s_limit = s_caller_deadline.map_or(s_deadline, |d| d.min(s_deadline));
                    if log.end_us > s_limit {
                        let ok = s_term.as_ref().map_or(false, |(_, t, _)| *t <= s_limit);
                        if !ok {
                            return CaseResult::fail(
                                if s_caller_deadline.is_some() { "oracle:c09:caller_not_terminated_in_time:server" } else { "oracle:c09:peer_not_terminated_in_time:server" },
                                format!("server, connection of client {k} ({addr}): a disconnect request first appeared on the wire at t={t0} us; no terminal event by t={s_limit} us (terminal: {:?}; largest step gap {gap} us)", s_term.as_ref().map(|p| (p.1, &p.2))),
                            );
                        }
                    }
                }
                // ---- (2') Error(Timeout) is for a peer that has become unreachable -----------------------
                // The client asked to disconnect and ended with Error(Timeout), yet the server had learnt of the
                // disconnect from one of the client's requests (it reported Disconnect at a step that was handed a
                // request and no acknowledgement of a request of its own) and later, while it still answers for the
                // closed connection (20 s; 19 s are demanded), was handed another intact copy of the request
                // without answering it: the peer was reachable and the client was left to time out.
                if let (Some((_, ct, CEv::Error(SErr::Timeout))), Some(_), Some((_, ts, SEv::Disconnect(_)))) = (c_term.clone(), c_disc_wire, s_term.clone()) {
                    let request: Option<Box<[u8]>> = w.wire.iter().find(|r| r.from == addr && r.bytes.first() == Some(&4)).map(|r| r.bytes.clone());
                    let prev_step = w.server_steps.iter().map(|p| p.1).filter(|t| *t < ts).max().unwrap_or(0);
                    let handed = |lo: u64, hi: u64, ty: u8| w.delivered.iter().any(|d| d.from == addr && d.to == w.server_addr && d.t_us > lo && d.t_us <= hi && d.bytes.first() == Some(&ty));
                    if let (Some(request), true, false) = (request, handed(prev_step, ts, 4), handed(prev_step, ts, 5)) {
                        for d in w.delivered.iter().filter(|d| d.from == addr && d.to == w.server_addr && d.t_us > ts && d.bytes == request) {
                            let Some(step_t) = w.server_steps.iter().map(|p| p.1).filter(|t| *t >= d.t_us).min() else { continue };
                            if step_t > ts + 19_000_000 || step_t >= ct {
                                continue;
                            }
                            classes.push("request_resent_to_closed_server");
                            let answered = w.wire.iter().any(|r| r.from == w.server_addr && r.to == addr && r.t_us == step_t && r.bytes.first() == Some(&5));
                            if !answered {
                                return CaseResult::fail(
                                    "oracle:c09:timeout_though_peer_reachable:client",
                                    format!("client {k} asked to disconnect and reported Error(Timeout) at t={ct} us; the server had reported Disconnect({addr}) at t={ts} us on receiving the client's request, and was handed another intact copy of that request at t={} us (served by its step at t={step_t} us, {} us after it closed the connection) without answering it with a DisconnectAck: the peer was reachable", d.t_us, step_t - ts),
                                );
                            }
                        }
                    }
                }
                // the same for the other side: the server asked to disconnect and ended with Error(Timeout) although the
                // client, having reported Disconnect on one of the server's requests, was later handed another intact
                // copy of the request (within 19 s; it answers for 20 s) and did not answer it
                if let (Some((_, st_t, SEv::Error(_, SErr::Timeout))), Some(_), Some((_, tc, CEv::Disconnect))) = (s_term.clone(), s_disc_wire, c_term.clone()) {
                    let request: Option<Box<[u8]>> = w.wire.iter().find(|r| r.to == addr && r.from == w.server_addr && r.bytes.first() == Some(&4)).map(|r| r.bytes.clone());
                    let prev_step = slot.step_times.iter().copied().filter(|t| *t < tc).max().unwrap_or(0);
                    let handed = |lo: u64, hi: u64, ty: u8| w.delivered.iter().any(|d| d.to == addr && d.from == w.server_addr && d.t_us > lo && d.t_us <= hi && d.bytes.first() == Some(&ty));
                    if let (Some(request), true, false) = (request, handed(prev_step, tc, 4), handed(prev_step, tc, 5)) {
                        for d in w.delivered.iter().filter(|d| d.to == addr && d.from == w.server_addr && d.t_us > tc && d.bytes == request) {
                            let Some(step_t) = slot.step_times.iter().copied().filter(|t| *t >= d.t_us).min() else { continue };
                            if step_t > tc + 19_000_000 || step_t >= st_t {
                                continue;
                            }
                            classes.push("request_resent_to_closed_client");
                            let answered = w.wire.iter().any(|r| r.from == addr && r.to == w.server_addr && r.t_us == step_t && r.bytes.first() == Some(&5));
                            if !answered {
                                return CaseResult::fail(
                                    "oracle:c09:timeout_though_peer_reachable:server",
                                    format!("the server asked client {k} ({addr}) to disconnect and reported Error(Timeout) at t={st_t} us; the client had reported Disconnect at t={tc} us on receiving the server's request, and was handed another intact copy of that request at t={} us (served by its step at t={step_t} us, {} us after it closed the connection, active_timeout_ms {}) without answering it with a DisconnectAck: the peer was reachable", d.t_us, step_t - tc, slot.cfg.active_timeout_ms),
                                );
                            }
                        }
                    }
                }
                classes.push("timing_clause_checked");
                if w.wire.iter().any(|r| r.t_us >= t0 && (r.from == addr || r.to == addr) && !matches!(r.fate, Fate::Deliver(0))) {
                    nontrivial = true;
                }
            }
        }
        let _ = script_classes(c, &log, &mut classes);
        classes.sort();
        classes.dedup();
        CaseResult::ok(nontrivial, classes)
    }
}
