//! Checking + counting global allocator.
//!
//! Every block is prefixed with a header recording the layout it was allocated with, so that
//! `dealloc` / `realloc` can compare the layout the caller passes with the true one (the
//! GlobalAlloc contract requires them to match) and always release with the true layout, which
//! keeps the harness itself free of UB when the code under test passes a wrong size.
//! Per-thread live-byte counters give exact attribution because each case runs on one thread.
//! A second release of a block is recorded instead of being passed on; inside a quarantine scope freed
//! blocks are held back (contents intact, checksummed) until the scope ends, so that a second release is seen reliably
//! (the block cannot have been handed out again) and a write into freed memory shows as a changed checksum.

use std::alloc::{GlobalAlloc, Layout, System};
use std::cell::Cell;

const MAGIC: u64 = 0x5546_4c4f_575f_4856; // "UFLOW_HV"
const FREED: u64 = 0x4652_4545_445f_4856; // "FREED_HV"
/// quarantine capacity per thread (entries / bytes); the oldest blocks are really freed beyond it
const QCAP: usize = 1 << 16;
const QBYTES_MAX: usize = 512 << 20;

#[derive(Clone, Copy)]
struct QEntry {
    base: *mut u8,
    total: usize,
    align: usize,
    user_off: usize,
    user_size: usize,
    /// checksum of the contents at the time of release (a later write into the block changes it)
    sum: u64,
}

unsafe fn checksum(p: *const u8, n: usize) -> u64 {
    let mut h: u64 = 0xcbf29ce484222325;
    let words = n / 8;
    let wp = p as *const u64;
    for i in 0..words {
        h = (h ^ std::ptr::read_unaligned(wp.add(i))).wrapping_mul(0x100000001b3);
    }
    for i in words * 8..n {
        h = (h ^ *p.add(i) as u64).wrapping_mul(0x100000001b3);
    }
    h
}

#[repr(C)]
struct Header {
    size: usize,
    align: usize,
    magic: u64,
    _pad: u64,
}

const HDR: usize = 32;

#[derive(Clone, Copy, Debug, Default)]
pub struct Mismatch {
    pub count: u64,
    pub alloc_size: usize,
    pub alloc_align: usize,
    pub given_size: usize,
    pub given_align: usize,
}

thread_local! {
    static LIVE: Cell<i64> = const { Cell::new(0) };
    static PEAK: Cell<i64> = const { Cell::new(0) };
    static ALLOCS: Cell<u64> = const { Cell::new(0) };
    static MISMATCH: Cell<Mismatch> = const { Cell::new(Mismatch { count: 0, alloc_size: 0, alloc_align: 0, given_size: 0, given_align: 0 }) };
    /// quarantine mode: freed blocks are poisoned and kept (so a second free or a late write is seen) until the scope ends
    static QMODE: Cell<bool> = const { Cell::new(false) };
    static QRING: Cell<*mut QEntry> = const { Cell::new(std::ptr::null_mut()) };
    static QHEAD: Cell<usize> = const { Cell::new(0) };
    static QLEN: Cell<usize> = const { Cell::new(0) };
    static QBYTES: Cell<usize> = const { Cell::new(0) };
    /// (count, size of the first block freed twice)
    static DOUBLE_FREE: Cell<(u64, usize)> = const { Cell::new((0, 0)) };
    static INVALID_FREE: Cell<u64> = const { Cell::new(0) };
    static WRITE_AFTER_FREE: Cell<u64> = const { Cell::new(0) };
}

unsafe fn q_release(e: QEntry) {
    // a write into a freed block shows as a changed checksum
    let user = e.base.add(e.user_off);
    if checksum(user, e.user_size) != e.sum {
        let _ = WRITE_AFTER_FREE.try_with(|c| c.set(c.get() + 1));
    }
    System.dealloc(e.base, Layout::from_size_align_unchecked(e.total, e.align));
}

unsafe fn q_pop_oldest() {
    let ring = QRING.with(|r| r.get());
    let head = QHEAD.with(|h| h.get());
    let len = QLEN.with(|l| l.get());
    if ring.is_null() || len == 0 {
        return;
    }
    let e = *ring.add(head);
    QHEAD.with(|h| h.set((head + 1) % QCAP));
    QLEN.with(|l| l.set(len - 1));
    QBYTES.with(|b| b.set(b.get() - e.total));
    q_release(e);
}

unsafe fn q_push(e: QEntry) {
    let mut ring = QRING.with(|r| r.get());
    if ring.is_null() {
        ring = System.alloc(Layout::from_size_align_unchecked(QCAP * std::mem::size_of::<QEntry>(), 16)) as *mut QEntry;
        if ring.is_null() {
            q_release(e);
            return;
        }
        QRING.with(|r| r.set(ring));
    }
    while QLEN.with(|l| l.get()) >= QCAP || (QBYTES.with(|b| b.get()) + e.total > QBYTES_MAX && QLEN.with(|l| l.get()) > 0) {
        q_pop_oldest();
    }
    let head = QHEAD.with(|h| h.get());
    let len = QLEN.with(|l| l.get());
    *ring.add((head + len) % QCAP) = e;
    QLEN.with(|l| l.set(len + 1));
    QBYTES.with(|b| b.set(b.get() + e.total));
}

/// Starts a quarantine scope on this thread: blocks freed from now on are checksummed and held back.
pub fn quarantine_begin() {
    QMODE.with(|q| q.set(true));
}

/// Ends the scope: everything held back is checked for late writes and really freed.
pub fn quarantine_end() {
    QMODE.with(|q| q.set(false));
    unsafe {
        while QLEN.with(|l| l.get()) > 0 {
            q_pop_oldest();
        }
    }
}

/// (blocks freed twice, size of the first such block) since the last call; resets the counter.
pub fn take_double_frees() -> (u64, usize) {
    DOUBLE_FREE.with(|c| c.replace((0, 0)))
}

pub fn take_invalid_frees() -> u64 {
    INVALID_FREE.with(|c| c.replace(0))
}

pub fn take_writes_after_free() -> u64 {
    WRITE_AFTER_FREE.with(|c| c.replace(0))
}

pub struct CheckingAlloc;

#[inline]
fn prefix(align: usize) -> usize {
    if align <= HDR { HDR } else { align }
}

#[inline]
fn track(delta: i64) {
    let _ = LIVE.try_with(|l| {
        let v = l.get() + delta;
        l.set(v);
        if delta > 0 {
            let _ = PEAK.try_with(|p| if v > p.get() { p.set(v) });
            let _ = ALLOCS.try_with(|a| a.set(a.get() + 1));
        }
    });
}

#[inline]
fn note_mismatch(true_size: usize, true_align: usize, layout: Layout) {
    let _ = MISMATCH.try_with(|m| {
        let mut v = m.get();
        if v.count == 0 {
            v.alloc_size = true_size;
            v.alloc_align = true_align;
            v.given_size = layout.size();
            v.given_align = layout.align();
        }
        v.count += 1;
        m.set(v);
    });
}

unsafe impl GlobalAlloc for CheckingAlloc {
    unsafe fn alloc(&self, layout: Layout) -> *mut u8 {
        let pre = prefix(layout.align());
        let total = match layout.size().checked_add(pre) { Some(t) => t, None => return std::ptr::null_mut() };
        let real = Layout::from_size_align_unchecked(total, layout.align().max(16));
        let base = System.alloc(real);
        if base.is_null() {
            return base;
        }
        let user = base.add(pre);
        let hdr = user.sub(HDR) as *mut Header;
        (*hdr).size = layout.size();
        (*hdr).align = layout.align();
        (*hdr).magic = MAGIC;
        track(layout.size() as i64);
        user
    }

    unsafe fn alloc_zeroed(&self, layout: Layout) -> *mut u8 {
        let pre = prefix(layout.align());
        let total = match layout.size().checked_add(pre) { Some(t) => t, None => return std::ptr::null_mut() };
        let real = Layout::from_size_align_unchecked(total, layout.align().max(16));
        let base = System.alloc_zeroed(real);
        if base.is_null() {
            return base;
        }
        let user = base.add(pre);
        let hdr = user.sub(HDR) as *mut Header;
        (*hdr).size = layout.size();
        (*hdr).align = layout.align();
        (*hdr).magic = MAGIC;
        track(layout.size() as i64);
        user
    }

    unsafe fn dealloc(&self, ptr: *mut u8, layout: Layout) {
        let hdr = ptr.sub(HDR) as *mut Header;
        if (*hdr).magic == FREED {
            // released a second time: recorded, never passed on (the system allocator would abort or corrupt its heap)
            let size = (*hdr).size;
            let _ = DOUBLE_FREE.try_with(|c| {
                let (n, s) = c.get();
                c.set((n + 1, if n == 0 { size } else { s }));
            });
            return;
        }
        if (*hdr).magic != MAGIC {
            // not a live block of ours: recorded and left alone
            let _ = INVALID_FREE.try_with(|c| c.set(c.get() + 1));
            return;
        }
        let true_size = (*hdr).size;
        let true_align = (*hdr).align;
        if true_size != layout.size() || true_align != layout.align() {
            note_mismatch(true_size, true_align, layout);
        }
        (*hdr).magic = FREED;
        let pre = prefix(true_align);
        let real = Layout::from_size_align_unchecked(true_size + pre, true_align.max(16));
        track(-(true_size as i64));
        if QMODE.try_with(|q| q.get()).unwrap_or(false) {
            // contents are left as they are (a stale read then behaves as it would with most allocators) and summed
            q_push(QEntry { base: ptr.sub(pre), total: real.size(), align: real.align(), user_off: pre, user_size: true_size, sum: checksum(ptr, true_size) });
            return;
        }
        System.dealloc(ptr.sub(pre), real);
    }

    unsafe fn realloc(&self, ptr: *mut u8, layout: Layout, new_size: usize) -> *mut u8 {
        let hdr = ptr.sub(HDR) as *mut Header;
        if (*hdr).magic != MAGIC {
            // realloc of a freed / foreign block: recorded; the caller gets a fresh block so that the harness stays sane
            if (*hdr).magic == FREED {
                let size = (*hdr).size;
                let _ = DOUBLE_FREE.try_with(|c| {
                    let (n, s) = c.get();
                    c.set((n + 1, if n == 0 { size } else { s }));
                });
            } else {
                let _ = INVALID_FREE.try_with(|c| c.set(c.get() + 1));
            }
            return self.alloc(Layout::from_size_align_unchecked(new_size, layout.align()));
        }
        let true_size = (*hdr).size;
        let true_align = (*hdr).align;
        if true_size != layout.size() || true_align != layout.align() {
            note_mismatch(true_size, true_align, layout);
        }
        if QMODE.try_with(|q| q.get()).unwrap_or(false) {
            // in a quarantine scope a reallocation moves: the old block is held back like any freed block
            let newp = self.alloc(Layout::from_size_align_unchecked(new_size, true_align));
            if newp.is_null() {
                return newp;
            }
            std::ptr::copy_nonoverlapping(ptr, newp, true_size.min(new_size));
            self.dealloc(ptr, Layout::from_size_align_unchecked(true_size, true_align));
            return newp;
        }
        let pre = prefix(true_align);
        let real = Layout::from_size_align_unchecked(true_size + pre, true_align.max(16));
        let new_total = match new_size.checked_add(pre) { Some(t) => t, None => return std::ptr::null_mut() };
        let base = System.realloc(ptr.sub(pre), real, new_total);
        if base.is_null() {
            return base;
        }
        let user = base.add(pre);
        let hdr = user.sub(HDR) as *mut Header;
        (*hdr).size = new_size;
        (*hdr).align = true_align;
        (*hdr).magic = MAGIC;
        track(new_size as i64 - true_size as i64);
        user
    }
}

/// Live bytes allocated minus freed by the current thread (frees of blocks allocated on other
/// threads count negatively; cases are single-threaded so deltas are exact).
pub fn live() -> i64 {
    LIVE.with(|l| l.get())
}

pub fn peak() -> i64 {
    PEAK.with(|p| p.get())
}

pub fn reset_peak() {
    let v = live();
    PEAK.with(|p| p.set(v));
}

pub fn alloc_count() -> u64 {
    ALLOCS.with(|a| a.get())
}

pub fn mismatches() -> Mismatch {
    MISMATCH.with(|m| m.get())
}

pub fn reset_mismatches() {
    MISMATCH.with(|m| m.set(Mismatch::default()));
}
