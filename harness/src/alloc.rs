//! Checking + counting global allocator.
//!
//! Every block is prefixed with a header recording the layout it was allocated with, so that
//! `dealloc` / `realloc` can compare the layout the caller passes with the true one (the
//! GlobalAlloc contract requires them to match) and always release with the true layout, which
//! keeps the harness itself free of UB when the code under test passes a wrong size.
//! Per-thread live-byte counters give exact attribution because each case runs on one thread.

use std::alloc::{GlobalAlloc, Layout, System};
use std::cell::Cell;

const MAGIC: u64 = 0x5546_4c4f_575f_4856; // "UFLOW_HV"

#[repr(C)]
struct Header {
    size: usize,
    align: usize,
    magic: u64,
    _pad: u64,
}

const HDR: usize = 32;

#[derive(Clone, Copy, Debug, Default)]
pub struct Mismatch {
    pub count: u64,
    pub alloc_size: usize,
    pub alloc_align: usize,
    pub given_size: usize,
    pub given_align: usize,
}

thread_local! {
    static LIVE: Cell<i64> = const { Cell::new(0) };
    static PEAK: Cell<i64> = const { Cell::new(0) };
    static ALLOCS: Cell<u64> = const { Cell::new(0) };
    static MISMATCH: Cell<Mismatch> = const { Cell::new(Mismatch { count: 0, alloc_size: 0, alloc_align: 0, given_size: 0, given_align: 0 }) };
}

pub struct CheckingAlloc;

#[inline]
fn prefix(align: usize) -> usize {
    if align <= HDR { HDR } else { align }
}

#[inline]
fn track(delta: i64) {
    let _ = LIVE.try_with(|l| {
        let v = l.get() + delta;
        l.set(v);
        if delta > 0 {
            let _ = PEAK.try_with(|p| if v > p.get() { p.set(v) });
            let _ = ALLOCS.try_with(|a| a.set(a.get() + 1));
        }
    });
}

#[inline]
fn note_mismatch(true_size: usize, true_align: usize, layout: Layout) {
    let _ = MISMATCH.try_with(|m| {
        let mut v = m.get();
        if v.count == 0 {
            v.alloc_size = true_size;
            v.alloc_align = true_align;
            v.given_size = layout.size();
            v.given_align = layout.align();
        }
        v.count += 1;
        m.set(v);
    });
}

unsafe impl GlobalAlloc for CheckingAlloc {
    unsafe fn alloc(&self, layout: Layout) -> *mut u8 {
        let pre = prefix(layout.align());
        let total = match layout.size().checked_add(pre) { Some(t) => t, None => return std::ptr::null_mut() };
        let real = Layout::from_size_align_unchecked(total, layout.align().max(16));
        let base = System.alloc(real);
        if base.is_null() {
            return base;
        }
        let user = base.add(pre);
        let hdr = user.sub(HDR) as *mut Header;
        (*hdr).size = layout.size();
        (*hdr).align = layout.align();
        (*hdr).magic = MAGIC;
        track(layout.size() as i64);
        user
    }

    unsafe fn alloc_zeroed(&self, layout: Layout) -> *mut u8 {
        let pre = prefix(layout.align());
        let total = match layout.size().checked_add(pre) { Some(t) => t, None => return std::ptr::null_mut() };
        let real = Layout::from_size_align_unchecked(total, layout.align().max(16));
        let base = System.alloc_zeroed(real);
        if base.is_null() {
            return base;
        }
        let user = base.add(pre);
        let hdr = user.sub(HDR) as *mut Header;
        (*hdr).size = layout.size();
        (*hdr).align = layout.align();
        (*hdr).magic = MAGIC;
        track(layout.size() as i64);
        user
    }

    unsafe fn dealloc(&self, ptr: *mut u8, layout: Layout) {
        let hdr = ptr.sub(HDR) as *mut Header;
        if (*hdr).magic != MAGIC {
            // not ours (cannot happen) - hand to the system untouched
            std::process::abort();
        }
        let true_size = (*hdr).size;
        let true_align = (*hdr).align;
        if true_size != layout.size() || true_align != layout.align() {
            note_mismatch(true_size, true_align, layout);
        }
        (*hdr).magic = 0;
        let pre = prefix(true_align);
        let real = Layout::from_size_align_unchecked(true_size + pre, true_align.max(16));
        track(-(true_size as i64));
        System.dealloc(ptr.sub(pre), real);
    }

    unsafe fn realloc(&self, ptr: *mut u8, layout: Layout, new_size: usize) -> *mut u8 {
        let hdr = ptr.sub(HDR) as *mut Header;
        if (*hdr).magic != MAGIC {
            std::process::abort();
        }
        let true_size = (*hdr).size;
        let true_align = (*hdr).align;
        if true_size != layout.size() || true_align != layout.align() {
            note_mismatch(true_size, true_align, layout);
        }
        let pre = prefix(true_align);
        let real = Layout::from_size_align_unchecked(true_size + pre, true_align.max(16));
        let new_total = match new_size.checked_add(pre) { Some(t) => t, None => return std::ptr::null_mut() };
        let base = System.realloc(ptr.sub(pre), real, new_total);
        if base.is_null() {
            return base;
        }
        let user = base.add(pre);
        let hdr = user.sub(HDR) as *mut Header;
        (*hdr).size = new_size;
        (*hdr).align = true_align;
        (*hdr).magic = MAGIC;
        track(new_size as i64 - true_size as i64);
        user
    }
}

/// Live bytes allocated minus freed by the current thread (frees of blocks allocated on other
/// threads count negatively; cases are single-threaded so deltas are exact).
pub fn live() -> i64 {
    LIVE.with(|l| l.get())
}

pub fn peak() -> i64 {
    PEAK.with(|p| p.get())
}

pub fn reset_peak() {
    let v = live();
    PEAK.with(|p| p.set(v));
}

pub fn alloc_count() -> u64 {
    ALLOCS.with(|a| a.get())
}

pub fn mismatches() -> Mismatch {
    MISMATCH.with(|m| m.get())
}

pub fn reset_mismatches() {
    MISMATCH.with(|m| m.set(Mismatch::default()));
}
